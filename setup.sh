#!/bin/bash
# Offline setup: nothing to build (pure Python run by /venv/bin/python); verify the tool chain and run engine self-tests.
set -e
cd "$(dirname "$0")"
export PYTHONDONTWRITEBYTECODE=1
/venv/bin/python -c "import numpy, scipy, h5py, tensornetwork; import sys; sys.path.insert(0,'/repo'); import oqupy; print('oqupy', oqupy.__version__, oqupy.__file__)"
python3-vt -c "import json,jsonschema; jsonschema.Draft202012Validator.check_schema(json.load(open('/root/.vp/EVIDENCE.schema.json'))) if __import__('os').path.exists('/root/.vp/EVIDENCE.schema.json') else None; print('jsonschema ok')"
if [ -f /root/.vp/MANIFEST.schema.json ]; then
python3-vt -c "import json,jsonschema; jsonschema.validate(json.load(open('MANIFEST.json')), json.load(open('/root/.vp/MANIFEST.schema.json'))); print('MANIFEST valid')"
fi
mkdir -p evidence replays
if [ -d selftest ] && ls selftest/*.py >/dev/null 2>&1; then
  for t in selftest/*.py; do /venv/bin/python "$t"; done
fi
echo setup ok
