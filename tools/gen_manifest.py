#!/usr/bin/env python3
"""Regenerates /verif/MANIFEST.json from the table below (single source of truth)."""
import json, os, subprocess
V = os.path.dirname(os.path.dirname(os.path.abspath(__file__)))
props = [json.loads(l) for l in open(os.path.join(V, "properties.jsonl"))]
ids = [p["id"] for p in props]

CHECKS = {
 "C13": dict(category="model_checking", design="4/C13",
   technique="exhaustive enumeration of the (dt, start, end-form, m<=1000) lattice through the real compute()/constructor code, exact rational oracle",
   text="Every point of the finite (dt x start x end-form x m=0..1000) lattice is driven through the real Tempo/MeanFieldTempo.compute (continuing objects, stub tensor back-end) and PtTempo constructor, and for m<=6/12 through every public API with real tensor networks; step counts, every time label, sortedness and state/time alignment are compared with an exact-arithmetic oracle. Exhaustive within the lattice; says nothing about dt/start values outside it.",
   note="Trusts: exact Fraction/Decimal arithmetic as oracle; the stub back-end only replaces the tensor network (step counting and Dynamics are the real code); separately run truncated networks agree to ~epsrel (alignment tolerance 1e-6 at epsrel 1e-9)."),
 "C03": dict(category="exploration", design="4/C03",
   technique="exhaustive product of small alphabets (dimensions x steps x environment kind x transforms x caps x system x controls x all ordered environment lists) through the real compute_dynamics, compared at every step with a first-principles system+ancilla density-matrix simulation",
   text="Every member of the full product of the stated finite alphabets (about 3.9k cases incl. all ordered sub-lists of a 4-environment pool and all orders of commuting environments) is run through the real compute_dynamics and must equal an independent exact joint simulation to 1e-10 at every step; summed-bath equivalence via PT-TEMPO at two epsrel values. Bounded-exhaustive over the alphabet, not over the continuum of unitaries/states.",
   note="Trusts numpy/scipy expm and the reference simulator mc/refmodel.py (self-tested against a second formulation). Non-commuting environment lists are checked for the documented sequential semantics in each order; exact order independence only for commuting environments."),
 "C18": dict(category="model_checking", design="4/C18",
   technique="explicit enumeration of all control schedules of the stated families over a 3-step grid, each executed on the real Control/ChainControl + compute_dynamics/PtTebd code and compared state-by-state with a dense reference",
   text="All 768 schedules (every single control over step x side x int/float spec x map; every ordered pair on one slot over 3 non-commuting maps and all spec pairs; every ordered pair of distinct slots; every order of 3 stacked controls) are installed through the real API and executed with and without an exact ancilla process tensor, at two start times, and on either site of a 2-site PT-TEBD chain; every recorded state must equal the reference that applies pre controls in insertion order, records, applies post controls in insertion order, propagates. Exhaustive within N=3 and the four control maps.",
   note="Trusts the dense reference simulator (mc/refmodel.py). Chains are uncoupled in this check (coupled chains: C10). Three mixed int/float ordering defects of Control are recorded as known findings."),
 "C07": dict(category="model_checking", design="4/C07",
   technique="exhaustive enumeration of the time-specification lattice over a 4-point grid (every int, slice, ordered subset, float, float interval; both argument positions; both time orders; pairs of subsets/intervals) through the real compute_correlations(_nt), exact table from a first-principles system+ancilla simulation",
   text="Every time specification over a grid of N=3 steps is fed to the real compute_correlations in both positions and both time orders, all 64x64 pairs of ordered subsets and 16x16 pairs of intervals are combined, 3- and 4-time correlations run over a reduced product with all left/right patterns; returned axes, NaN pattern and every entry are compared with the exact multi-time correlation table of an ancilla environment (and, for a PT-TEMPO process tensor, with a table from explicit compute_dynamics runs). dt-argument family, anti/ordered conjugation relation, and the bath occupation/correlation closed forms for pure-dephasing models (plus the occupation time-axis lattice N<=60/150 x 7 dt) are checked too. Exhaustive over the N=3 lattice only.",
   note="Trusts mc/refmodel.py; empty and out-of-range selections may raise or return empty arrays; dw != 1 is outside the stated quantifier."),
 "C14": dict(category="model_checking", design="4/C14",
   technique="explicit enumeration of all API-call histories up to depth 3/4 over a 5-step grid on fresh real objects, plus exhaustive single-fault injection at every invocation index of every user callable, against the single-call reference",
   text="For Tempo (full memory and dkmax=2), MeanFieldTempo (1 and 2 systems), PtTebd every history over {compute(t_j) for all grid targets j, get} up to depth 3 (quick) / 4 (thorough) is replayed on a fresh object and after every operation the dynamics must equal the single-call reference truncated at the furthest target; PtTempo and GibbsTempo: all histories over {compute, fetch} up to depth 3; chain restart at every intermediate step; a transient exception is injected at every invocation index of every wrapped user callable (bound 1; strided pairs in thorough) and compute() repeated: same result or fails again. Exhaustive within depth, grid and fault bound.",
   note="Tolerance 1e-6 at epsrel 1e-10 (separately executed truncated networks are reproducible only to ~10*epsrel). One non-transactional path of MeanFieldTempo is a recorded known finding."),
 "C16": dict(category="model_checking", design="4/C16",
   technique="explicit enumeration of all valid export/import/close histories up to depth 4/5 for every process tensor of a 27-member alphabet, executed on real objects and HDF5 files, bitwise comparison with the original plus identical-consumer-results oracle",
   text="For hand-built rank-3/rank-4 process tensors (with/without dt and transforms, lengths 1,2,4, bond dimensions 4 and 9) and PT-TEMPO process tensors (diagonal, real and complex non-diagonal coupling), every valid history over {export, import as file, import as simple, close} is executed; after every import all metadata, every MPO tensor (raw and transformed), every cap tensor and the bond dimensions must equal the original's, and at the end compute_dynamics, compute_correlations, state_gradient and PtTebd must give identical results. File-backed PT-TEMPO vs in-memory is compared gauge-invariantly. Exhaustive within the alphabet and depth.",
   note="A rank-3 tensor and its delta expansion are treated as the same MPO tensor (the two classes differ in what get_mpo_tensor(transformed=False) returns). Files are written to /dev/shm or the default temp dir and removed."),
 "C17": dict(category="fault_enumeration", design="4/C17",
   technique="exhaustive crash-point enumeration: every prefix of the strace-recorded write/ftruncate sequence of the unmodified writer (hard death) and every file-operation index in two orderly death modes, each surviving file read back in a separate process; plus explicit-state enumeration of all file-mode histories to depth 3 against a reference model",
   text="For export() of a 4-step process tensor and for a file-backed PT-TEMPO run, the writer child runs unmodified under strace; all 21 prefixes of its 20 file writes are materialised and imported as 'file' and 'simple' (the prefix model is validated against writers that really die with os._exit at every file operation: byte-identical files), and the writer is killed orderly (unhandled exception, sys.exit) after every file operation and before close(): every surviving file must raise, warn 'may be corrupt', or be complete and reproduce the reference dynamics; the cleanly closed file must open silently and complete. Mode machine: all 876 histories up to depth 3 over {create write/overwrite/temp, read, close, remove, export(overwrite F/T)} x {target missing, existing} against a model of who may replace or delete what.",
   note="Process death only (writes reach the page cache in order); torn writes/power loss and HDF5 cache evictions of large files are not modelled. Needs ptrace (strace)."),
 "C19": dict(category="model_checking", design="4/C19",
   technique="stateless model checking of thread interleavings on the real ProgressBar code under a cooperative settrace scheduler (iterative preemption bounding 0..2/3, virtual timer firing at any scheduling point, horizon 3 firings), plus exhaustive fault-point enumeration per API",
   text="All interleavings of the calling thread with the progress timer's callbacks at source-line granularity with at most 2 (quick) / 3 (thorough) preemptions and at most 3 timer firings are executed on the real oqupy.util.ProgressBar for three drivers; in the terminal state no timer may be armed, nothing may have been written to the stream after exit() returned, no deadlock, no exception. For 9 APIs x 4 progress types x every (quick: strided above 60) invocation index of every user callable, and 4 structural faults, an exception is propagated out of the call and no timer may remain armed. Leaks in the three functions that use enter()/exit() without try/finally are recorded as known findings.",
   note="Scheduling points are source lines of oqupy/util.py only; timers/locks/events of oqupy.util are replaced by cooperative stand-ins; byte-code-level preemption within a line and real OS scheduling are outside the model (a free-running smoke run with the real Timer is reported, not counted)."),
 "C08": dict(category="exploration", design="4/C08",
   technique="exhaustive product of small alphabets (steps x parameters x parameterised model x environment set x target x derivative kind x parameter table) through the real state_gradient, every gradient entry compared with an independent forward-mode derivative (expm_frechet) of a first-principles simulation",
   text="Every member of the full product (quick 2092 / thorough ~11k cases: N in 1..3(4), M in 1..3, H / rate / jump-operator parameter dependence, one / commuting / non-commuting / three environments built as exact ancilla process tensors and PT-TEMPO, both list orders, matrix and callable targets, user-supplied and numdifftools propagator derivatives, generic and symmetric parameter tables, d=3, non-zero start time, capped process tensors) is run through state_gradient; each of the 2N x M gradient entries, every reported state, final_state and the time axis are compared with an independent oracle (own Lindbladian derivative + scipy expm_frechet pushed through a joint system+ancilla simulation, cross-checked by a second plain-numpy contraction). Bounded-exhaustive over the alphabet only.",
   note="Tolerances 1e-11 (user derivatives) / 1e-8 (numdifftools) with >=300x measured head-room; trusts scipy expm/expm_frechet and mc/refmodel.py. PT-TEMPO process tensors need N>=2."),
 "C20": dict(category="model_checking", design="4/C20",
   technique="explicit enumeration of all usage histories (evaluate / build bath / read through bath / run Tempo / set public attribute / switch object) up to depth 4/5 on real shared objects with fresh-object replay as oracle, plus exhaustive (API array argument x memory layout) product and all orders of computations on shared objects",
   text="For PowerLawSD, CustomSD and CustomCorrelations every history over a 7-operation menu up to depth 4 (quick) / 5 (thorough) that ends in an observation is executed on real objects; each observation must equal the one made on freshly constructed objects with the current values (for a bath built earlier: the values at its construction). 19 array arguments of the public API are each passed in up to 7 memory layouts (C, Fortran, transposed view, strided view, read-only, real dtype, nested list): identical results, caller buffer bitwise unchanged, no exception. Shared system/bath/parameter/process-tensor objects are reused by 5 computations in all orders (quick: 36 orders) and compared with fresh equal objects. Two aliasing/memoisation defects are recorded as known findings.",
   note="Public attributes exercised: alpha / j_function / correlation_function and temperature. Tempo comparisons 1e-6 at epsrel 1e-9; correlation values 1e-9."),
 "C11": dict(category="exploration", design="4/C11",
   technique="exhaustive product of small alphabets (coupling multisets x commuting H incl. non-diagonal degenerate blocks x spectral density x T x alpha x n_steps x epsrel) through the real GibbsTempo, compared with the exact reduced thermal state from an independent reorganisation-energy quadrature; zero/weak coupling family against expm(-H/T)/Z; compute/get histories",
   text="Five families, each a full product (quick 7272 / thorough 32544 evaluations): commuting models against the exact reduced thermal state p_i ~ exp(-(E_i - lambda o_i^2)/T) with lambda from an own quadrature (independent of n_steps), zero coupling against expm(-H/T)/Z for real and complex Hermitian H in d=2..4, a weak-coupling chain alpha = 1e-6..1e-2 (deviation bounded by C*coupling and increasing), non-commuting finite coupling with a physicality monitor (trace, Hermiticity, positivity) on every state, and all histories compute^k / get_state / gibbs_tempo_compute (identical states). Bounded-exhaustive over the alphabet.",
   note="Tolerance 2e-7 + 100*epsrel (library quadrature floor 2^-26), measured head-room >= 40x; oracle independent of oqupy (own J formulas, own quadrature, scipy expm)."),
 "C15": dict(category="exploration", design="4/C15",
   technique="exhaustive product of shifts x producers x systems x subdivision settings x control / correlation time specifications; metamorphic oracle: the run shifted by tau (start time and every explicit time dependence) must reproduce every state, field and correlation and shift every reported time by exactly tau",
   text="Every member of the product tau in {0.37, -1.3, 2.0, 1000.1 (+2 thorough)} x {Tempo, MeanFieldTempo, PtTempo+compute_dynamics, compute_dynamics, compute_dynamics_with_field, compute_correlations} x {H(t), H(t)+gamma(t)A(t)} x subdiv_limit {None, default} x 6 float control sets / 6 float correlation-time specifications x environments {none, exact ancilla, PT-TEMPO} is run twice (base and shifted); values must agree (1e-9 with a shared process tensor, 20*epsrel*n otherwise), times must be shifted within 4 ulp. For every time-dependent ingredient a vacuity partner (everything shifted but that ingredient) measures the effect a missing start_time would have (>= 1e-3).",
   note="Metamorphic: does not establish absolute correctness of the dynamics (C01-C03 do). End times are given off-grid so that the check does not depend on the C13 rule."),
 "C12": dict(category="exploration", design="4/C12",
   technique="exhaustive product of correlation-object alphabets (class x cut-off x exponent x temperature regime incl. the overflow-guard crossover x cut-off frequency x dt) x all cell shapes and positions, each cell compared with an independent frequency-space quadrature, with integration of the object's own correlation function, closed forms, tiling identities and Matsubara/KMS relations",
   text="288 (thorough 1156) correlation objects x 2 dt x {triangle, squares k=1..3, rectangles of 3 widths at 2 positions, positioned triangle} = 22k (98k) evaluations: every cell is compared with (A) an own Gauss-Legendre frequency-space quadrature of the exact cell kernel, (B) 1D integration of the object's own correlation(), (F) T=0 exponential closed forms, (T) additive tiling; plus C(-tau)=conj C(tau), Re triangle>0, CustomSD == PowerLawSD, and Matsubara cells (real, equal to an own imaginary-time quadrature, KMS symmetric). Bounded-exhaustive over the alphabet.",
   note="Tolerance C*epsrel*S + 4*epsabs*n with S the sum of |eta| at the corner times (the library forms cells as eta differences with QUADPACK's default epsabs), C=75 (1200 for sub-ohmic thermal objects); head-room >= 34x; oracle self-validated against closed forms to 6e-13."),
}
NOT_YET = "check not built yet in this round (see DESIGN.md sec. 8 build order)"

def main():
    checks = []
    for i in ids:
        if i not in CHECKS: continue
        c = CHECKS[i]
        checks.append({
            "property_id": i,
            "quick_cmd": f"./check {i} --tier quick",
            "thorough_cmd": f"./check {i} --tier thorough",
            "evidence_file": f"/verif/evidence/{i}.json",
            "replay_cmd_template": f"./check {i} --replay {{path}}",
            "engine": c.get("engine", "mc"),
            "level_claimed": {"category": c["category"], "text": c["text"], "design_ref": "DESIGN.md sec. " + c["design"]},
            "level_note": c["note"],
            "technique": c["technique"],
        })
    man = {
        "version": 1,
        "setup_cmd": "./setup.sh",
        "hooks": {"guard": "OQUPY_VERIF", "enable": "no source hooks: all seams are module-level names rebound from outside by the harness (./check exports OQUPY_VERIF=1 for uniformity)",
                  "baseline_off_cmd": "cd /repo && env -u OQUPY_VERIF /venv/bin/python -m pytest -ra -q -p no:cacheprovider --timeout=900 --continue-on-collection-errors",
                  "source_commits": [], "add_only": True},
        "engines": [{"name": "mc", "path": "/verif/mc", "serves_properties": sorted(CHECKS), "kind_free_text": "hand-written explicit-state / bounded-exhaustive explorers driving the real oqupy code (space, explore, faults, sched, crash) plus independent reference models"}],
        "checks": checks,
        "not_applicable": [{"property_id": i, "reason": NOT_YET} for i in ids if i not in CHECKS],
        "notes": "Known findings and fixed defects: /verif/known_findings.txt. Seeded property-breaking changes: /verif/seeded/.",
    }
    json.dump(man, open(os.path.join(V, "MANIFEST.json"), "w"), indent=1)
    print("MANIFEST.json:", len(checks), "checks,", len(man["not_applicable"]), "not_applicable")

if __name__ == "__main__":
    main()
