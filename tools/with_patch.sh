#!/bin/bash
# usage: tools/with_patch.sh <patch.diff> <ID> [<ID> ...]   (env TIER=quick|thorough)
# Runs checks against a scratch worktree of /repo HEAD with the patch applied (outside /repo and /verif), then removes it.
set -u
patch=$(realpath "$1"); shift
wt=$(mktemp -d /tmp/vwt.XXXXXX)
git -C /repo worktree add -q --detach "$wt" HEAD || exit 2
if ! git -C "$wt" apply "$patch"; then echo "PATCH DOES NOT APPLY"; git -C /repo worktree remove --force "$wt"; exit 2; fi
rc=0
for id in "$@"; do
  VERIF_REPO="$wt" /verif/check "$id" --tier "${TIER:-quick}" 2>&1 | grep -E "^(VIOLATION|KNOWN-FINDING|\[C|HARNESS|Traceback)" | cut -c1-260 | head -${LINES_MAX:-8}
done
git -C /repo worktree remove --force "$wt"
