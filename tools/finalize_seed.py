#!/usr/bin/env python3
"""Writes /verif/seeded/<name>/meta.json from agent_meta.json, verify.json and the check logs; prints a table."""
import json, os, glob, re, sys
V = os.path.dirname(os.path.dirname(os.path.abspath(__file__)))
rows = []
for d in sorted(x for x in glob.glob(os.path.join(V, "seeded", "*")) if os.path.isdir(x)):
    name = os.path.basename(d)
    am = json.load(open(os.path.join(d, "agent_meta.json"))) if os.path.exists(os.path.join(d, "agent_meta.json")) else {}
    vf = json.load(open(os.path.join(d, "verify.json"))) if os.path.exists(os.path.join(d, "verify.json")) else {}
    caught = {}
    for f in glob.glob(os.path.join(d, "check_*.log")):
        cid = os.path.basename(f)[6:-4]
        txt = open(f).read()
        n = len(re.findall(r"^VIOLATION", txt, flags=re.M))
        first = re.search(r"^VIOLATION.*?#\s*(.*)$", txt, flags=re.M)
        caught[cid] = {"violation_lines": n, "first": first.group(1)[:200] if first else None}
    meta = {
        "name": name,
        "property": am.get("property", name.split("_")[0]),
        "summary": am.get("summary"),
        "needs_to_manifest": am.get("needs_to_manifest"),
        "files_changed": am.get("files_changed"),
        "confirmed_in_scratch_worktree": {
            "repo_head": vf.get("repo_head"),
            "demo_exit_unmodified": vf.get("demo_unmodified_exit"),
            "demo_exit_with_change": vf.get("demo_modified_exit"),
            "test_suite_with_change": vf.get("tests_with_change"),
            "commands": ["git worktree add --detach <tmp> HEAD", "python demo.py (PYTHONPATH=<tmp>)", "git apply patch.diff",
                         "python demo.py", "python -m pytest -q -p no:cacheprovider -n 6 --timeout=900",
                         "VERIF_REPO=<tmp> /verif/check <ID> --tier quick", "git worktree remove --force <tmp>"],
        },
        "checks_run_against_it": caught,
        "caught_by": sorted(k for k, v in caught.items() if v["violation_lines"] > 0),
    }
    if os.path.exists(os.path.join(d, "notes.txt")):
        meta["notes"] = open(os.path.join(d, "notes.txt")).read().strip()
    json.dump(meta, open(os.path.join(d, "meta.json"), "w"), indent=1)
    rows.append((name, meta["property"], ",".join(meta["caught_by"]) or "-", str(vf.get("tests_with_change"))[:40]))
for r in rows:
    print("%-8s %-4s caught_by=%-16s tests=%s" % r)


def markdown():
    import glob as g
    lines = ["| seed | property | what was changed | needs to manifest | repo tests with change | caught by |",
             "|---|---|---|---|---|---|"]
    for d in sorted(x for x in g.glob(os.path.join(V, "seeded", "*")) if os.path.isdir(x)):
        m = json.load(open(os.path.join(d, "meta.json")))
        s = (m.get("summary") or "").replace("|", "/").replace("\n", " ")
        n = (m.get("needs_to_manifest") or "")
        if isinstance(n, list):
            n = "; ".join(map(str, n))
        n = str(n).replace("|", "/").replace("\n", " ")
        t = str(m["confirmed_in_scratch_worktree"].get("test_suite_with_change"))
        t = re.sub(r" in .*", "", t)
        lines.append(f"| {m['name']} | {m['property']} | {s[:230]} | {n[:200]} | {t} | {', '.join(m['caught_by']) or '**none**'} |")
    return "\n".join(lines)


if __name__ == "__main__" and len(sys.argv) > 1 and sys.argv[1] == "--markdown":
    open(os.path.join(V, "seeded", "README.md"), "w").write(
        "# Seeded property-breaking changes\n\nEach directory holds patch.diff, demo.py (exits 0 without / non-zero with the change), "
        "meta.json. Confirmed in scratch worktrees of /repo outside /repo and /verif; none of these changes is committed to /repo.\n\n"
        + markdown() + "\n")
    print("README written")
