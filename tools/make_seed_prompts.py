#!/usr/bin/env python3
"""Writes the briefs for a round of independent property-breaking changes ("seeds").

usage: tools/make_seed_prompts.py <round dir, e.g. /tmp/seed4> <template prompt of an earlier round> [IDs...]
For every property a scratch worktree <round dir>/<ID> of /repo HEAD is expected (created by the caller) and a brief
<round dir>/<ID>.prompt.txt is written: the property text, the rules, and the list of mechanisms already tried in
earlier rounds (taken from /verif/seeded/*/agent_meta.json) so that new changes need a different kind of trigger.
The brief deliberately contains nothing about the checks in /verif."""
import glob
import json
import os
import re
import sys

rdir, template = sys.argv[1], sys.argv[2]
ids = sys.argv[3:]
props = {json.loads(l)["id"]: json.loads(l) for l in open("/verif/properties.jsonl")}
tmpl = open(template).read()
m = re.search(r"/tmp/seed\d+/(C\d\d)", tmpl)
old_dir, old_id = os.path.dirname(m.group(0)), m.group(1)
head, _, rest = tmpl.partition("Here is a semantic property")
_, _, tail = rest.partition("YOUR TASK:")
tail = "YOUR TASK:" + tail
tail, _, after_tried = tail.partition("ALREADY TRIED")
_, _, closing = after_tried.partition("\n\nAlso:")
closing = "Also:" + closing
for pid in ids or sorted(props):
    p = props[pid]
    tried = []
    for d in sorted(glob.glob(f"/verif/seeded/{pid}*_?")):
        for fn in ("agent_meta.json", "meta.json"):
            f = os.path.join(d, fn)
            if os.path.exists(f):
                j = json.load(open(f))
                s = j.get("summary") or j.get("what") or ""
                if s:
                    tried.append("- " + " ".join(s.split())[:420])
                    break
    text = (head + "Here is a semantic property that the library is supposed to satisfy:\n\n"
            f"{pid}: {p['title']}\n\nSTATEMENT: {p['statement']}\n\nQUANTIFIER: {p['quantifier']['text']}\n\n" + tail +
            "ALREADY TRIED by other people for this property (do NOT repeat these; choose different mechanisms and, where "
            "possible, different functions/files, and prefer changes whose manifestation needs a *different kind* of trigger "
            "than these):\n" + "\n".join(tried) + "\n\n" + closing)
    text = text.replace(old_dir + "/" + old_id, rdir + "/" + pid).replace(f'("{old_id}")', f'("{pid}")')
    text = text.replace(old_dir, rdir)
    open(os.path.join(rdir, pid + ".prompt.txt"), "w").write(text)
    print(pid, len(tried), "earlier mechanisms")
