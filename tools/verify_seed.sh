#!/bin/bash
# usage: tools/verify_seed.sh <dir with patch.diff demo.py meta.json> <name e.g. C13_a> <check IDs...>
# Confirms in a scratch worktree of /repo HEAD: demo passes unmodified, fails modified, test-suite passes modified;
# then runs the given checks against the modified tree. Stores everything under /verif/seeded/<name>/.
set -u
src=$(realpath "$1"); name=$2; shift 2
out=/verif/seeded/$name; mkdir -p "$out"
if [ "$src" != "$(realpath $out)" ]; then cp "$src/patch.diff" "$src/demo.py" "$out/" ; cp "$src/meta.json" "$out/agent_meta.json" 2>/dev/null; fi
wt=$(mktemp -d /tmp/vseed.XXXXXX)
base=${BASE:-HEAD}
git -C /repo worktree add -q --detach "$wt" "$base" || exit 2
if ! git -C "$wt" apply --check "$out/patch.diff" 2>/dev/null; then
  # the seed was written against an earlier tree: fall back to the tree of round 4 / rounds 1-2 (before later fix commits)
  for fb in 8fca275 eb5f681 6c019d0 151f69a e019c9f^; do
    git -C /repo worktree remove --force "$wt"; base=$fb; git -C /repo worktree add -q --detach "$wt" "$base" || exit 2
    git -C "$wt" apply --check "$out/patch.diff" 2>/dev/null && break
  done
fi
export PYTHONPATH="$wt" PYTHONDONTWRITEBYTECODE=1
# demos may hard-code the worktree they were written in: run a copy with that path replaced by the scratch worktree
mkdir -p "$wt/seed"
sed -E "s#/tmp/seed[0-9]?/C[0-9]+#$wt#g" "$out/demo.py" > "$wt/seed/demo_run.py"
( cd "$wt" && timeout 600 /venv/bin/python "$wt/seed/demo_run.py" >"$out/demo_unmodified.log" 2>&1 ); d0=$?
if ! git -C "$wt" apply "$out/patch.diff" 2>"$out/apply.log"; then echo "$name: PATCH DOES NOT APPLY"; git -C /repo worktree remove --force "$wt"; exit 2; fi
( cd "$wt" && timeout 600 /venv/bin/python "$wt/seed/demo_run.py" >"$out/demo_modified.log" 2>&1 ); d1=$?
tests="skipped"
if [ -f "$out/verify.json" ]; then tests=$(/venv/bin/python -c "import json,sys; print(json.load(open(sys.argv[1])).get('tests_with_change','skipped'))" "$out/verify.json"); fi
if [ "${SKIP_TESTS:-0}" != "1" ]; then
  tests=$( cd "$wt" && OMP_NUM_THREADS=1 OPENBLAS_NUM_THREADS=1 /venv/bin/python -m pytest -q -p no:cacheprovider -n ${NTEST:-6} --timeout=900 2>&1 | tail -1 )
fi
unset PYTHONPATH
res=""
for id in "$@"; do
  o=$(VERIF_REPO="$wt" /verif/check "$id" --tier "${TIER:-quick}" 2>&1 | grep -E "^(VIOLATION|KNOWN-FINDING|\[C|HARNESS|Traceback)" | cut -c1-300)
  nv=$(echo "$o" | grep -c "^VIOLATION")
  echo "$o" > "$out/check_$id.log"
  res="$res $id:$nv"
done
git -C /repo worktree remove --force "$wt"
echo "$name: demo_unmodified_exit=$d0 demo_modified_exit=$d1 tests='$tests' violations_reported:$res"
cat > "$out/verify.json" <<EOJ
{"name": "$name", "repo_head": "$(git -C /repo rev-parse --short $base)", "demo_unmodified_exit": $d0, "demo_modified_exit": $d1, "tests_with_change": "$tests", "checks": "$res"}
EOJ
