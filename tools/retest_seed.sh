#!/bin/bash
# usage: tools/retest_seed.sh <name> [<check IDs...>]  -- re-run the repository test-suite (and optionally checks) for a stored seed
set -u
name=$1; shift
out=/verif/seeded/$name
wt=$(mktemp -d /tmp/vseed.XXXXXX)
git -C /repo worktree add -q --detach "$wt" "${BASE:-HEAD}" || exit 2
if ! git -C "$wt" apply --check "$out/patch.diff" 2>/dev/null; then
  for fb in 8fca275 eb5f681 6c019d0 151f69a e019c9f^; do
    git -C /repo worktree remove --force "$wt"; git -C /repo worktree add -q --detach "$wt" $fb || exit 2
    git -C "$wt" apply --check "$out/patch.diff" 2>/dev/null && break
  done
fi
git -C "$wt" apply "$out/patch.diff" || { echo "$name: PATCH DOES NOT APPLY"; git -C /repo worktree remove --force "$wt"; exit 2; }
tests=$( cd "$wt" && PYTHONPATH="$wt" OMP_NUM_THREADS=1 OPENBLAS_NUM_THREADS=1 /venv/bin/python -m pytest -q -p no:cacheprovider -n ${NTEST:-6} --timeout=900 2>&1 | tail -1 )
for id in "$@"; do
  VERIF_REPO="$wt" /verif/check "$id" --tier "${TIER:-quick}" 2>&1 | grep -E "^(VIOLATION|KNOWN-FINDING|\[C|HARNESS|Traceback)" | cut -c1-300 > "$out/check_$id.log"
done
git -C /repo worktree remove --force "$wt"
/venv/bin/python - "$out/verify.json" "$tests" <<'PY'
import json,sys
p=sys.argv[1]; j=json.load(open(p)); j["tests_with_change"]=sys.argv[2]; json.dump(j,open(p,"w"))
PY
echo "$name: tests='$tests'"
