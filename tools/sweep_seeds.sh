#!/bin/bash
# Re-runs, for every stored seed, the check of its own property (and every check that is recorded as catching it)
# against the current checks; keeps the recorded test result.  usage: tools/sweep_seeds.sh [pattern]
cd /verif
for d in seeded/${1:-*}/; do
  name=$(basename "$d")
  [ -f "$d/patch.diff" ] || continue
  ids=$(/venv/bin/python - "$d" <<'PY'
import json,sys,os
d=sys.argv[1]
m=json.load(open(os.path.join(d,'meta.json'))) if os.path.exists(os.path.join(d,'meta.json')) else {}
ids=[m.get('property', os.path.basename(d.rstrip('/')).split('_')[0][:3])]+list(m.get('caught_by',[]))
seen=[]
for i in ids:
    if i and i not in seen: seen.append(i)
print(" ".join(seen[:3]))
PY
)
  SKIP_TESTS=1 tools/verify_seed.sh "$d" "$name" $ids | tail -1
done
