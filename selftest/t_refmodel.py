"""Self-test of the reference models: first-principles joint simulator vs. (a) unitarity/trace invariants and
(b) an independent formulation (full dense matrices via kron) on a 2-step, 2-ancilla example."""
import os, sys
sys.path.insert(0, os.path.dirname(os.path.dirname(os.path.abspath(__file__))))
import numpy as np
from mc import refmodel as R

d, e1, e2 = 2, 2, 3
rho = np.array([[0.7, 0.2 - 0.1j], [0.2 + 0.1j, 0.3]])
s1 = np.diag([0.6, 0.4]).astype(complex)
s2 = np.diag([0.5, 0.3, 0.2]).astype(complex)
u1 = R.random_free_unitary(d * e1, 1)
u2 = R.random_free_unitary(d * e2, 2)
h = np.array([[0.3, 0.5], [0.5, -0.3]], dtype=complex)
p1, p2 = R.half_props(h, 0.2, [0.1], [np.array([[0, 1], [0, 0]], dtype=complex)])
st = R.simulate(rho, [s1, s2], lambda j, k: [u1] if j == 0 else [u2], lambda k: (p1, p2), 2)
# independent formulation: full matrices on s (x) a1 (x) a2
full = np.kron(np.kron(rho, s1), s2)
D = d * e1 * e2
def sys_super(full, p):
    T = full.reshape(d, e1 * e2, d, e1 * e2)          # [u, A, v, B]
    out = np.einsum("stuv,uAvB->sAtB", p.reshape(d, d, d, d), T)
    return out.reshape(D, D)
def red(full):
    return np.einsum("iaja->ij", full.reshape(d, e1 * e2, d, e1 * e2))
U1 = np.kron(u1, np.eye(e2))
U2 = np.einsum("sctd,ab->sactbd", u2.reshape(d, e2, d, e2), np.eye(e1)).reshape(D, D)
ref = [red(full)]
for k in range(2):
    full = sys_super(full, p1)
    full = U1 @ full @ U1.conj().T
    full = U2 @ full @ U2.conj().T
    full = sys_super(full, p2)
    ref.append(red(full))
dev = max(np.abs(a - b).max() for a, b in zip(st, ref))
assert dev < 1e-13, dev
assert all(abs(np.trace(s) - 1) < 1e-13 for s in st)
print("selftest refmodel ok, dev", dev)
