"""Self-test of the cooperative scheduler (mc/sched.py) on a toy module with a known race:
  * replaying one choice sequence twice gives identical logs (determinism);
  * a lost-update race on a toy counter is found at preemption bound 1 and not at bound 0;
  * VTimer semantics match threading.Timer: cancel before fire prevents the callback, cancel after fire does not."""
import os, sys, threading, time, types
sys.path.insert(0, os.path.dirname(os.path.dirname(os.path.abspath(__file__))))
from mc import sched as S

SRC = '''
def bump(box):
    v = box["n"]
    v = v + 1
    box["n"] = v

def armed(box, Timer):
    t = Timer(1.0, lambda: box.__setitem__("fired", True))
    t.start()
    t.cancel()
'''
path = "/tmp/_verif_toy_sched.py"
open(path, "w").write(SRC)
toy = types.ModuleType("toy")
exec(compile(SRC, path, "exec"), toy.__dict__)


def execute(prefix):
    s = S.Scheduler((path,), prefix=prefix, max_firings=0)
    box = {"n": 0}
    def main():
        s.spawn(lambda: toy.bump(box), "other")
        toy.bump(box)
    s.run(main)
    s.box = box
    return s

a = execute([0, 1, 0, 0])
b = execute([0, 1, 0, 0])
assert a.box == b.box and [p["n"] for p in a.points] == [p["n"] for p in b.points], "replay not deterministic"
found0, st0 = S.explore(execute, 0, lambda x: ["lost"] if x.box["n"] != 2 else [])
found1, st1 = S.explore(execute, 1, lambda x: ["lost"] if x.box["n"] != 2 else [])
assert not found0 and found1, (found0, found1)

# VTimer vs real Timer: cancel before firing
box = {}
toy.armed(box, threading.Timer)
time.sleep(0.05)
def ex2(prefix):
    s = S.Scheduler((path,), prefix=prefix, max_firings=3)
    S.VTimer.sched = s
    bx = {}
    s.run(lambda: toy.armed(bx, S.VTimer))
    s.bx = bx
    return s
f, st = S.explore(ex2, 2, lambda x: ["fired-after-cancel"] if (x.bx.get("fired") and not any(e[0] == "timer-fire" for e in x.log)) else [])
assert not f
# a timer that fires between start() and cancel() does run its callback (check-then-act of Timer.run)
ff, _ = S.explore(ex2, 2, lambda x: ["fired"] if x.bx.get("fired") else [])
assert ff, "virtual timer never fired between start and cancel"
assert "fired" not in box
os.remove(path)
print("selftest sched ok: executions bound0/1 =", st0["executions"], st1["executions"])
