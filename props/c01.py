"""C01  TEMPO and PT-TEMPO reproduce exactly solvable open-system models.

Two families, each an exhaustively enumerated product of small alphabets (one member per code branch),
every run compared at EVERY time step with an oracle that does not use oqupy:

commuting family   [H_S, O] = 0: independent-boson closed form with the documented discretised memory
                   (dkmax / tcut / add_correlation_time), kernel cells from an own frequency-domain quadrature
                   (props/c01_common.py).  Product of  spectral density (cut-off type x exponent x temperature
                   regime, plus CustomSD members) x dt x (H_S, O) pair x basis x memory setting x unique x method.
finite-mode family non-commuting H_S (+ Lindblad term, + piecewise-constant H(t) with start_time != 0),
                   bath of 1..3 harmonic modes handed over as CustomCorrelations: explicit density-matrix
                   simulation of system (x) modes with the same symmetric splitting.
"""
import itertools
from fractions import Fraction

import numpy as np
import scipy.linalg as sl

from mc.common import Report, Violation, pmap, bind_repo
from mc import refmodel as R
from . import models as M
from . import c01_common as C

oq = bind_repo()
LEVEL = "exploration"

N_STEPS = 6
EPSREL = 1e-9                # requested SVD / quadrature tolerance of the commuting family (main leg)
EPSREL_LOOSE = 1e-6          # second leg on sub-product A: "bounded by a small multiple of the requested tolerances"
CTOL = 100.0                 # tolerance = CTOL * epsrel * (1 + kernel scale)      (see run(): measured head-room)
WC = 3.0
TEMPS = [0.0, 0.06, 1.0, 8.0]         # T=0 branch | overflow guard switches at w = 36 T = 0.72 wc | thermal | hot
CUTOFFS = ["exponential", "gaussian", "hard"]
ZETAS = [1.0, 0.5, 3.0]
DTS = [0.1, 0.37]
MIN_INFLUENCE = 0.05

FM_EPSREL = [1e-6, 1e-8]
FM_CTOL = 40.0               # tolerance = FM_CTOL * epsrel * n_steps  (truncation-limited comparison, DESIGN 2.7)
FM_CONV = 1e-11              # the explicit simulation must be converged in the Fock cut to this


# ---------------------------------------------------------------------------------------------
# commuting family: alphabet

def model(mid, rotated):
    """(H_S, O, rho0) with [H_S, O] = 0; rotated: everything conjugated by one fixed generic unitary."""
    if mid == "d2":
        o = 0.5 * M.SZ
        h = 0.4 * M.SZ
    elif mid == "d3":
        o = np.diag([1.0, 0.25, -0.75]).astype(complex)
        h = np.diag([0.3, -0.1, 0.5]).astype(complex)
    elif mid == "d3deg":            # repeated eigenvalue of O, H_S not diagonal inside the degenerate block
        o = np.diag([0.5, 0.5, -1.0]).astype(complex)
        h = np.array([[0.2, 0.3 - 0.1j, 0], [0.3 + 0.1j, -0.1, 0], [0, 0, 0.4]], dtype=complex)
    elif mid == "d4":               # sigma_z (x) 1 type
        o = np.kron(0.5 * M.SZ, M.I2)
        h = np.kron(M.I2, 0.3 * M.SX + 0.1 * M.SY) + 0.2 * np.kron(M.SZ, M.SZ)
    else:
        raise ValueError(mid)
    d = o.shape[0]
    wts = np.arange(1, d + 1, dtype=float) ** 0.5
    psi = np.sqrt(wts / wts.sum()) * np.exp(0.7j * np.arange(d) ** 2)
    rho0 = 0.9 * np.outer(psi, psi.conj()) + 0.1 * np.eye(d) / d       # every coherence non-zero
    if rotated:
        v = M.generic_unitary(d, 2)
        o, h, rho0 = v @ o @ v.conj().T, v @ h @ v.conj().T, v @ rho0 @ v.conj().T
        o = (o + o.conj().T) / 2
        h = (h + h.conj().T) / 2
    return h, o, rho0


MODELS = [("d2", False), ("d3", False), ("d3deg", False), ("d4", False),
          ("d2", True), ("d3", True), ("d3deg", True), ("d4", True)]


def memory_settings(n):
    """(label, dkmax, tcut-in-units-of-dt, add_correlation_time-in-units-of-dt or 'inf').  add_correlation_time can only
    act when dkmax + 1 < n; it is enumerated completely there and with one finite member elsewhere."""
    out = [("none", None, None, None), ("none", None, None, 1.5)]
    for k in (1, 2):
        for add in (None, 0.0, 1.5, "inf"):
            out.append((f"K{k}<n", k, None, add))
    out += [("tcut=3dt", None, 3, None), ("tcut=3dt", None, 3, 1.5)]      # tcut written as the decimal 3*dt (0.3, 1.11)
    out += [("K=n", n, None, None), ("K=n", n, None, 1.5)]
    out += [("K>n", n + 3, None, None), ("K>n", n + 3, None, "inf")]
    return out


TARGET_EXPONENT = 1.2       # Re E_n of the full-memory kernel at the last step for unit eigenvalue difference


def _normalise(args):
    """Coupling strength such that the exact decoherence exponent at the final time is TARGET_EXPONENT for unit
    eigenvalue difference (J is linear in alpha): keeps every member in the regime where coherences are neither
    untouched nor dead, whatever the temperature / exponent / dt.  Rounded to 3 significant digits."""
    kind, zeta, cut, temp, dt = args
    unit = C.sd_spec(kind, 1.0, zeta, WC, cut, temp)
    exps, _ = C.memory_exponents(unit, dt, N_STEPS, None, None)
    return float(f"{TARGET_EXPONENT / exps[-1].real:.3g}")


_ALPHA = {}


def alphas(combos, seed=0):
    todo = [c for c in combos if c not in _ALPHA]
    if todo:
        for c, a in zip(todo, pmap(_normalise, todo, chunksize=1, seed=seed)):
            _ALPHA[c] = a
    return _ALPHA


POWER = [("power", z, c, t) for c, z, t in itertools.product(CUTOFFS, ZETAS, TEMPS)]
CUSTOM = [("custom-power", 1.0, "gaussian", 1.0), ("custom-structured", 1.0, "exponential", 0.06),
          ("custom-structured", 1.0, "hard", 1.0)]


def shards(tier, seed=0):
    """One shard = (sd, dt, model, rotated, list of memory settings, list of unique); both methods run in the shard."""
    mem = memory_settings(N_STEPS)
    mem_small = [("none", None, None, None), ("K2<n", 2, None, None), ("K2<n", 2, None, 1.5), ("K2<n", 2, None, "inf"),
                 ("tcut=3dt", None, 3, 1.5), ("K=n", N_STEPS, None, None)]
    mem_two = [("K2<n", 2, None, 1.5), ("none", None, None, None)]
    plan = []      # (kind, zeta, cut, temp, dt, model, rot, mems, uniques, epsrel)
    if tier == "thorough":
        for (kind, z, cut, t), dt, (mid, rot) in itertools.product(POWER + CUSTOM, DTS, MODELS):
            plan.append((kind, z, cut, t, dt, mid, rot, mem, [False, True], EPSREL))
    else:
        # A: all cut-offs x temperatures x memory settings x unique x methods for the generic d=3 model in a rotated basis
        for (kind, z, cut, t) in POWER:
            if z == 1.0:
                plan.append((kind, z, cut, t, 0.1, "d3", True, mem, [False, True], EPSREL))
        # B: all cut-offs x exponents x temperatures x models x bases at the other dt, two memory settings
        for (kind, z, cut, t), (mid, rot) in itertools.product(POWER, MODELS):
            plan.append((kind, z, cut, t, 0.37, mid, rot, mem_two, [True], EPSREL))
        # C: CustomSD members x models, reduced memory list
        for (kind, z, cut, t), (mid, rot) in itertools.product(CUSTOM, MODELS[:6]):
            plan.append((kind, z, cut, t, 0.1, mid, rot, mem_small, [False, True], EPSREL))
    # A' (both tiers): sub-product A once more at the loose tolerance
    for (kind, z, cut, t) in POWER:
        if z == 1.0:
            plan.append((kind, z, cut, t, 0.1, "d3", True, mem, [False, True], EPSREL_LOOSE))
    al = alphas(sorted({(p[0], p[1], p[2], p[3], p[4]) for p in plan}), seed)
    out = []
    for (kind, z, cut, t, dt, mid, rot, mems, uniques, eps) in plan:
        out.append((C.sd_spec(kind, al[(kind, z, cut, t, dt)], z, WC, cut, t), dt, mid, rot, mems, uniques, eps))
    return out


# ---------------------------------------------------------------------------------------------
# commuting family: one case

def _add_value(add, dt):
    if add is None:
        return None
    if add == "inf":
        return float("inf")
    return float(add) * dt


def effective_k(dkmax, tcut_units):
    """documented meaning of tcut: a memory time of K*dt is a memory of K steps (only exact decimal multiples are used)"""
    if dkmax is not None:
        return dkmax
    if tcut_units is not None:
        return int(tcut_units)
    return None


def tcut_value(tcut_units, dt):
    """K*dt in exact decimal arithmetic, as a user would type it (0.3 for 3 x 0.1, 1.11 for 3 x 0.37)"""
    return float(Fraction(str(dt)) * int(tcut_units))


def case_cls(c, sig):
    if sig.startswith("bath-construction"):
        return f"commuting|{c['model']}{'-rot' if c['rot'] else ''}|{sig}"
    return (f"commuting|{c['model']}{'-rot' if c['rot'] else ''}|{c['sd']['kind']}-{c['sd']['cutoff']}"
            f"|T={c['sd']['temp']}|mem={c['mem'][0]},add={c['mem'][3]}|unique={c['unique']}"
            f"|{c['method']}{'' if c.get('epsrel', EPSREL) == EPSREL else '@loose-epsrel'}|{sig}")


QFLOOR = 5e-9               # see quad_floor()


def quad_floor(sd):
    """Sub-ohmic spectral densities at T > 0 make the library's eta integrand singular at w = 0 (~ w^(zeta-1)); scipy's
    QAGS then stops at a relative accuracy of about 2e-7 of eta(t) whatever epsrel is requested (sometimes with an
    IntegrationWarning 'roundoff error is detected in the extrapolation table', sometimes silently).  Measured against two
    independent quadratures (own w = u^2 substitution, composite Gauss-Legendre): eta(0.1) off by 1.7e-7 relative at
    epsrel 1e-9 .. 1e-12, states off by up to 3.2e-8 (finite memory: the errors of the eta differences do not telescope).
    For these members the requested tolerance is replaced by epsrel + QFLOOR in the bound."""
    return QFLOOR if (sd["zeta"] < 1.0 and sd["temp"] > 0.0) else 0.0


def tolerance(scale, epsrel=EPSREL, floor=0.0):
    return CTOL * (epsrel + floor) * (1.0 + scale)


def run_commuting(c, bath=None, sysm=None):
    """c: dict(sd, dt, model, rot, mem=(label,dkmax,tcut_units,add_units), unique, method).  Returns a result dict."""
    sd, dt = c["sd"], c["dt"]
    label, dkmax, tcut_u, add_u = c["mem"]
    n = c.get("n", N_STEPS)
    h, o, rho0 = model(c["model"], c["rot"])
    if c.get("layout") == "F":
        rho0 = np.asfortranarray(rho0)
    elif c.get("layout") == "T-view":
        rho0 = np.ascontiguousarray(rho0.T).T
    k_eff = effective_k(dkmax, tcut_u)
    tau = _add_value(add_u, dt)
    exps, qerr = C.memory_exponents(sd, dt, n, k_eff, tau)
    ref = np.array(C.independent_boson(h, o, rho0, dt, exps))
    full, _ = C.memory_exponents(sd, dt, n, None, None)
    ref_full = np.array(C.independent_boson(h, o, rho0, dt, full))
    free = np.array(C.independent_boson(h, o, rho0, dt, [0.0j] * (n + 1)))
    res = {"infl": float(np.abs(ref - free).max()),
           "mem_effect": float(np.abs(ref - ref_full).max()),
           "qerr": float(qerr)}
    if k_eff is not None and tau is not None and n > k_eff + 1:
        nr, _ = C.memory_exponents(sd, dt, n, k_eff, None)
        res["rect_effect"] = float(np.abs(ref - np.array(C.independent_boson(h, o, rho0, dt, nr))).max())
    omax = float(np.abs(np.linalg.eigvalsh(o)).max())
    res["scale"] = 4.0 * omax ** 2 * max(abs(e) for e in full)
    epsrel = c.get("epsrel", EPSREL)
    res["tol"] = tolerance(res["scale"], epsrel, quad_floor(sd))
    try:
        if bath is None:
            bath = oq.Bath(o, C.lib_correlations(sd))
    except Exception as ex:  # noqa
        res["exc"] = ("bath-construction", f"{type(ex).__name__}", str(ex)[:120])
        return res
    try:
        prm = C.make_params(dt, epsrel, dkmax=dkmax, tcut=None if tcut_u is None else tcut_value(tcut_u, dt), add=tau)
        sysm = oq.System(h) if sysm is None else sysm
        if c["method"] == "tempo":
            times, states = C.run_tempo(sysm, bath, prm, rho0, 0.0, n, c["unique"])
        else:
            pt = C.run_pt(bath, prm, 0.0, n, c["unique"])
            times, states = C.run_pt_dynamics(sysm, pt, rho0, 0.0)
            # the same process tensor object used a second time (another initial state in between) must answer the same
            C.run_pt_dynamics(sysm, pt, np.eye(len(rho0), dtype=complex) / len(rho0), 0.0)
            times2, states2 = C.run_pt_dynamics(sysm, pt, rho0, 0.0)
            if states2.shape != states.shape or np.abs(states2 - states).max() > 1e-12:
                res["exc"] = ("run", "second-use-of-the-process-tensor-differs",
                              f"max dev {np.abs(states2 - states).max() if states2.shape == states.shape else 'shape'}")
                return res
    except Exception as ex:  # noqa
        res["exc"] = ("run", f"{type(ex).__name__}", str(ex)[:120])
        return res
    if states.shape[0] != n + 1:
        res["exc"] = ("run", "wrong-length", f"{states.shape[0]} states for {n} steps")
        return res
    dev = np.abs(states - ref).max(axis=(1, 2))
    res["dev"] = float(dev.max())
    res["first_bad"] = int(np.argmax(dev > res["tol"])) if (dev > res["tol"]).any() else None
    res["tdev"] = float(np.abs(times - dt * np.arange(n + 1)).max())
    res["phys"] = C.physicality(states)
    res["nstates"] = n + 1
    return res


def convergence_case(args):
    """a convergence check as users do it: ONE System and ONE Bath object, computations at several time steps one after
    the other (every order of the steps, both methods alternating); each run is compared with the analytic solution."""
    mid, rot, order = args
    sd = C.sd_spec("power", 0.3, 1.0, WC, "exponential", 1.0)
    h, o, _ = model(mid, rot)
    bath = oq.Bath(o, C.lib_correlations(sd))
    sysm = oq.System(h)
    out = []
    for i, dt in enumerate(order):
        for method in ("tempo", "pt"):
            c = {"fam": "commuting", "sd": sd, "dt": dt, "model": mid, "rot": rot, "mem": ["full", None, None, None],
                 "unique": False, "method": method, "epsrel": EPSREL, "n": 4}
            c["layout"] = ("C", "F", "T-view")[i % 3]      # the same initial state in another memory layout
            r = run_commuting(c, bath=bath, sysm=sysm)
            bad = None
            if "exc" in r:
                bad = f"exception:{r['exc'][1]}"
            elif r["dev"] > r["tol"]:
                bad = "state-mismatch"
            if bad:
                out.append((f"convergence|{method}|time-step-{'first' if i == 0 else 'after-other-steps'}|{bad}",
                            f"model {mid} rot={rot}: shared System/Bath run at dt={list(order[:i + 1])}: {method} at dt={dt} "
                            f"deviates from the analytic solution by {r.get('dev')}"))
    return {"bad": out, "n": 2 * len(order)}


def interleaved_case(args):
    """a parameter scan as users write it: all Tempo / PtTempo objects (different coupling strengths, same dt and
    epsrel) are CONSTRUCTED first and propagated afterwards, in the given order; each against the analytic solution."""
    mid, rot, order = args
    alphas = (0.05, 0.3, 0.8)
    n, dt = 4, 0.2
    h, o, rho0 = model(mid, rot)
    objs = {}
    try:
        for a in alphas:
            sd = C.sd_spec("power", a, 1.0, WC, "exponential", 0.0)
            bath = oq.Bath(o, C.lib_correlations(sd))
            prm = C.make_params(dt, EPSREL)
            objs[a] = (sd, oq.Tempo(oq.System(h), bath, prm, rho0, 0.0),
                       oq.PtTempo(bath, 0.0, (n + 0.25) * dt, prm))
        out = []
        for i, (a, meth) in enumerate(order):
            sd, tempo, ptt = objs[a]
            if meth == "tempo":
                states = np.array(tempo.compute((n + 0.25) * dt, progress_type="silent").states)
            else:
                pt = ptt.get_process_tensor(progress_type="silent")
                states = np.array(oq.compute_dynamics(oq.System(h), rho0, process_tensor=pt, progress_type="silent").states)
            exps, _ = C.memory_exponents(sd, dt, n, None, None)
            ref = np.array(C.independent_boson(h, o, rho0, dt, exps))
            omax = float(np.abs(np.linalg.eigvalsh(o)).max())
            tol = tolerance(4.0 * omax ** 2 * max(abs(e) for e in exps), EPSREL, quad_floor(sd))
            dev = float(np.abs(states - ref).max()) if states.shape == ref.shape else 9.9
            if dev > tol:
                out.append((f"interleaved|{meth}|{'first' if i == 0 else 'after-other-objects'}-propagated|state-mismatch",
                            f"model {mid} rot={rot}: objects for alpha={alphas} built first, propagated in the order {order}: "
                            f"{meth} alpha={a} deviates from the analytic solution by {dev:.2e}"))
    except Exception as ex:  # noqa
        return {"bad": [(f"interleaved|exception:{type(ex).__name__}", str(ex)[:150])], "n": 0}
    return {"bad": out, "n": len(order)}


def canonical_key(c, r):
    """Distinct cases are counted by what the library is actually asked to do: memory settings whose
    add_correlation_time cannot act (no dkmax, or dkmax + 1 >= n) collapse onto one key per branch label."""
    label, dkmax, tcut_u, add_u = c["mem"]
    k_eff = effective_k(dkmax, tcut_u)
    add_active = k_eff is not None and add_u is not None and N_STEPS > k_eff + 1
    return (C.sd_key(c["sd"]), c["dt"], c["model"], c["rot"], label, k_eff, add_u if add_active else "inactive",
            c["unique"], c["method"], c.get("epsrel", EPSREL))


def shard_worker(sh):
    sd, dt, mid, rot, mems, uniques, eps = sh
    out = []
    for mem, unique, method in itertools.product(mems, uniques, ["tempo", "pt"]):
        c = {"fam": "commuting", "sd": sd, "dt": dt, "model": mid, "rot": rot, "mem": list(mem), "unique": unique,
             "method": method, "epsrel": eps}
        out.append((c, run_commuting(c)))
    return out


# ---------------------------------------------------------------------------------------------
# finite-mode family

MODESETS = {
    "1": [(1.0, 0.7, 0.5)],
    "2": [(1.0, 0.6, 0.5), (2.3, 0.5, 0.0)],
    "3": [(1.0, 0.5, 0.0), (2.3, 0.5, 0.3), (3.1, 0.4, 0.0)],
}
FM_GRIDS = {"a": (0.25, 5), "b": (0.4, 4)}       # (dt, n); grid b only in the thorough tier


def fm_system(kind, d, start, FM_DT):
    """(oqupy system, props(k)) for the finite-mode family."""
    h0 = M.generic_herm(d, 1, 0.8)
    h1 = M.generic_herm(d, 2, 0.5)
    lop = np.diag(np.ones(d - 1), 1).astype(complex)
    if kind == "H":
        p = R.half_props(h0, FM_DT)
        return oq.System(h0), (lambda k: p)
    if kind == "H+L":
        p = R.half_props(h0, FM_DT, [0.25, 0.1], [lop, h1])
        return oq.System(h0, gammas=[0.25, 0.1], lindblad_operators=[lop, h1]), (lambda k: p)
    if kind == "H(t)":           # piecewise constant on half steps -> the integrated Liouvillian is exact
        def f(t):
            return 0.4 * np.floor((t - start) / (FM_DT / 2) + 1e-9)

        sysm = oq.TimeDependentSystem(lambda t: h0 + f(t) * h1, gammas=[lambda t: 0.2 + 0.1 * f(t)],
                                      lindblad_operators=[lambda t: lop])

        def props(k):
            fa, fb = 0.4 * (2 * k), 0.4 * (2 * k + 1)
            return (sl.expm(R.lindbladian(h0 + fa * h1, [0.2 + 0.1 * fa], [lop]) * FM_DT / 2),
                    sl.expm(R.lindbladian(h0 + fb * h1, [0.2 + 0.1 * fb], [lop]) * FM_DT / 2))
        return sysm, props
    raise ValueError(kind)


def fm_coupling(d, rot):
    o = 0.5 * M.SZ if d == 2 else np.diag([1.0, 0.0, -1.0]).astype(complex)
    if rot:
        v = M.generic_unitary(d, 3)
        o = v @ o @ v.conj().T
        o = (o + o.conj().T) / 2
    return o


def fm_cases(tier):
    """3 modes only with d=2: with d=3 the explicit joint density matrix has ~6000^2 entries (memory)."""
    out = []
    for grid in (["a", "b"] if tier == "thorough" else ["a"]):
        for ms, d in itertools.product(["1", "2", "3"], [2, 3]):
            if ms == "3" and d == 3:
                continue
            for kind, rot in itertools.product(["H", "H+L", "H(t)"], [False, True]):
                start = 1.7 if kind == "H(t)" else 0.0
                out.append({"fam": "modes", "modes": ms, "d": d, "system": kind, "rot": rot, "start": start, "grid": grid})
    return out


def run_modes(c):
    d = c["d"]
    modes = MODESETS[c["modes"]]
    o = fm_coupling(d, c["rot"])
    start = c["start"]
    FM_DT, FM_N = FM_GRIDS[c.get("grid", "a")]
    sysm, props = fm_system(c["system"], d, start, FM_DT)
    psi = np.exp(0.7j * np.arange(d)) / np.sqrt(d)
    rho0 = 0.85 * np.outer(psi, psi.conj()) + 0.15 * np.eye(d) / d
    ref, sizes = C.modes_simulation(o, modes, rho0, FM_DT, FM_N, props)
    ref2, _ = C.modes_simulation(o, modes, rho0, FM_DT, FM_N, props, margin=2)
    ref = np.array(ref)
    conv = float(np.abs(ref - np.array(ref2)).max())
    free = np.array(R.simulate(rho0, [], None, props, FM_N))
    res = {"conv": conv, "sizes": sizes, "infl": float(np.abs(ref - free).max()), "runs": [], "n": FM_N}
    for epsrel, method in itertools.product(FM_EPSREL, ["tempo", "pt"]):
        tol = FM_CTOL * epsrel * FM_N
        rr = {"epsrel": epsrel, "method": method, "tol": tol}
        try:
            bath = oq.Bath(o, oq.CustomCorrelations(C.modes_correlation(modes)))
            prm = C.make_params(FM_DT, epsrel)
            if method == "tempo":
                times, states = C.run_tempo(sysm, bath, prm, rho0, start, FM_N, False)
            else:
                pt = C.run_pt(bath, prm, start, FM_N, False)
                times, states = C.run_pt_dynamics(sysm, pt, rho0, start)
            dev = np.abs(states - ref).max(axis=(1, 2))
            rr["dev"] = float(dev.max())
            rr["first_bad"] = int(np.argmax(dev > tol)) if (dev > tol).any() else None
            rr["tdev"] = float(np.abs(times - (start + FM_DT * np.arange(FM_N + 1))).max())
            rr["phys"] = C.physicality(states)
        except Exception as ex:  # noqa
            rr["exc"] = (f"{type(ex).__name__}", str(ex)[:120])
        res["runs"].append(rr)
    return res


def fm_cls(c, method, sig):
    return f"modes|{c['modes']}-mode|d={c['d']}{'-rot' if c['rot'] else ''}|{c['system']}|grid={c.get('grid', 'a')}|{method}|{sig}"


# ---------------------------------------------------------------------------------------------

def _cjson(c):
    return {k: v for k, v in c.items()}


def run(tier, seed):
    rep = Report(LEVEL)
    shs = shards(tier, seed)
    sres = pmap(shard_worker, shs, chunksize=1, seed=seed)
    fcs = fm_cases(tier)
    fres = pmap(run_modes, fcs, chunksize=1, seed=seed)
    cjobs = [(mid, rot, order) for (mid, rot) in (("d2", False), ("d3deg", True), ("d3", False))
             for order in itertools.permutations((0.1, 0.2, 0.37))]
    cres = pmap(convergence_case, cjobs, chunksize=1, seed=seed)
    ij = []
    for (mid, rot) in (("d2", False), ("d3deg", True)):
        for perm in itertools.permutations((0.05, 0.3, 0.8)):
            ij.append((mid, rot, tuple((a, "tempo") for a in perm)))
            ij.append((mid, rot, tuple((a, "pt") for a in perm)))
            ij.append((mid, rot, tuple((a, m_) for a, m_ in zip(perm, ("tempo", "pt", "tempo")))))
    ires = pmap(interleaved_case, ij, chunksize=1, seed=seed)
    for j, r in zip(ij, ires):
        for cls, what in r["bad"]:
            rep.add(Violation(cls, what, {"fam": "interleaved", "args": [j[0], j[1], [list(x) for x in j[2]]]}))
    for j, r in zip(cjobs, cres):
        for cls, what in r["bad"]:
            rep.add(Violation(cls, what, {"fam": "convergence", "args": [j[0], j[1], list(j[2])]}))

    keys = set()
    evaluations = 0
    maxratio = 0.0
    maxdev = 0.0
    maxdev_by_method = {"tempo": 0.0, "pt": 0.0}
    loose = {"runs": 0, "max_dev": 0.0, "max_dev_over_tol": 0.0, "epsrel": EPSREL_LOOSE}
    min_infl = 1e9
    min_mem_effect = 1e9
    min_rect_effect = 1e9
    n_mem_active = n_rect_active = 0
    n_states = 0
    phys = [0.0, 0.0, 1.0]
    trivial = 0
    samples = []
    for sh in sres:
        for c, r in sh:
            evaluations += 1
            if len(samples) < 3 and evaluations % 97 == 1:
                samples.append({"case": _cjson(c), "dev": r.get("dev"), "tol": r.get("tol"), "influence": r["infl"]})
            if "exc" in r:
                where, name, msg = r["exc"]
                rep.add(Violation(case_cls(c, f"{where}|exception:{name}"), f"{where}: {name}: {msg}", _cjson(c)))
                continue
            n_states += r["nstates"]
            phys = [max(phys[0], r["phys"][0]), max(phys[1], r["phys"][1]), min(phys[2], r["phys"][2])]
            ratio = r["dev"] / r["tol"]
            main_leg = c.get("epsrel", EPSREL) == EPSREL
            if ratio <= 1.0 and main_leg:
                maxratio = max(maxratio, ratio)
                maxdev = max(maxdev, r["dev"])
                maxdev_by_method[c["method"]] = max(maxdev_by_method[c["method"]], r["dev"])
            elif ratio <= 1.0:
                loose["runs"] += 1
                loose["max_dev"] = max(loose["max_dev"], r["dev"])
                loose["max_dev_over_tol"] = max(loose["max_dev_over_tol"], ratio)
            else:
                rep.add(Violation(case_cls(c, "state-mismatch"),
                                  f"|rho - closed form| = {r['dev']:.2e} > {r['tol']:.1e}, first at step {r['first_bad']} "
                                  f"(dt={c['dt']}, zeta={c['sd']['zeta']}, bath moves the state by {r['infl']:.2f})", _cjson(c)))
            if r["tdev"] > 1e-12:
                rep.add(Violation(case_cls(c, "times"), f"time axis off by {r['tdev']:.2e}", _cjson(c)))
            if r["infl"] > MIN_INFLUENCE:
                keys.add(canonical_key(c, r))
                min_infl = min(min_infl, r["infl"])
            else:
                trivial += 1
            k_eff = effective_k(c["mem"][1], c["mem"][2])
            if not main_leg:
                continue
            if k_eff is not None and k_eff < N_STEPS and r["mem_effect"] > 100 * r["tol"]:
                n_mem_active += 1
                min_mem_effect = min(min_mem_effect, r["mem_effect"])
            if r.get("rect_effect") is not None and r["rect_effect"] > 100 * r["tol"]:
                n_rect_active += 1
                min_rect_effect = min(min_rect_effect, r["rect_effect"])

    fm_max = {e: 0.0 for e in FM_EPSREL}
    fm_ratio = 0.0
    fm_min_infl = 1e9
    fm_conv = 0.0
    for c, r in zip(fcs, fres):
        fm_conv = max(fm_conv, r["conv"])
        if r["conv"] > FM_CONV:
            rep.add(Violation(fm_cls(c, "-", "oracle-not-converged"),
                              f"explicit simulation changes by {r['conv']:.1e} when the Fock cut {r['sizes']} is enlarged "
                              f"(harness)", _cjson(c)))
            continue
        for rr in r["runs"]:
            evaluations += 1
            if "exc" in rr:
                rep.add(Violation(fm_cls(c, rr["method"], f"exception:{rr['exc'][0]}"), f"{rr['exc'][0]}: {rr['exc'][1]}",
                                  _cjson(c)))
                continue
            n_states += r["n"] + 1
            phys = [max(phys[0], rr["phys"][0]), max(phys[1], rr["phys"][1]), min(phys[2], rr["phys"][2])]
            if rr["dev"] > rr["tol"]:
                rep.add(Violation(fm_cls(c, rr["method"], "state-mismatch"),
                                  f"epsrel={rr['epsrel']}: |rho - explicit system+modes simulation| = {rr['dev']:.2e} > "
                                  f"{rr['tol']:.1e}, first at step {rr['first_bad']}", _cjson(c)))
            else:
                fm_max[rr["epsrel"]] = max(fm_max[rr["epsrel"]], rr["dev"])
                fm_ratio = max(fm_ratio, rr["dev"] / rr["tol"])
            if rr["tdev"] > 1e-12:
                rep.add(Violation(fm_cls(c, rr["method"], "times"), f"time axis off by {rr['tdev']:.2e}", _cjson(c)))
            if r["infl"] > MIN_INFLUENCE:
                keys.add(("modes", c["modes"], c["d"], c["system"], c["rot"], c.get("grid", "a"), rr["method"], rr["epsrel"]))
                fm_min_infl = min(fm_min_infl, r["infl"])
            else:
                trivial += 1
    samples.append({"case": fcs[0], "result": {k: v for k, v in fres[0].items() if k != "runs"},
                    "runs": fres[0]["runs"][:2]})

    rep.coverage = {
        "evaluations": evaluations + sum(r["n"] for r in cres),
        "interleaved_object_orders": len(ij),
        "convergence_sequences": {"models": 3, "orders_of_time_steps": 6, "runs": sum(r["n"] for r in cres)},
        "distinct_nontrivial": len(keys),
        "trivial_or_inactive": trivial,
        "rule": "commuting family: shards = (spectral density, dt, (H_S,O) model, basis) each running the listed memory settings "
                "x unique x {TEMPO, PT-TEMPO+compute_dynamics}; thorough = full product cut-off{exp,gauss,hard} x zeta{1,.5,3} x "
                "T{0,0.06,1,8} (+3 CustomSD members) x dt{0.1,0.37} x 4 models x {plain, rotated basis} x 16 memory settings "
                "(dkmax None/1/2/n/n+3, tcut = 3dt as a decimal; add_correlation_time None/0/1.5dt/inf wherever it can act, one member elsewhere) "
                "x unique{F,T} x 2 methods at epsrel 1e-9; quick = three sub-products (A: all cut-offs x T x 16 memory x unique x method, rotated "
                "d=3; B: all cut-offs x zeta x T x 8 models at dt=0.37, 2 memory settings; C: CustomSD x 6 models); both tiers: sub-product A "
                "again at epsrel 1e-6. The coupling strength of every spectral density is normalised (decoherence exponent 1.2 at the "
                "last step for unit eigenvalue difference). finite-mode family: {1,2,3 modes} x d{2,3} (3 modes: d=2) x {H, "
                "H+Lindblad, piecewise H(t) at start 1.7} x {diagonal, rotated coupling} x epsrel{1e-6,1e-8} x 2 methods on the grid "
                "(dt 0.25, n 5), thorough also (0.4, 4). Every step of every run is compared. A case is "
                f"non-trivial if the exact solution differs from the bath-free one by > {MIN_INFLUENCE}; distinct by the "
                "canonical key (settings whose add_correlation_time cannot act collapse)",
        "samples": samples,
        "exhaustive": True,
        "max_dev": maxdev, "max_dev_tempo": maxdev_by_method["tempo"], "max_dev_pt_tempo": maxdev_by_method["pt"],
        "tolerance": tolerance(0.0),
        "tolerance_rule": f"{CTOL}*(epsrel+floor)*(1+4|o|^2|eta(t_n)|), epsrel={EPSREL}; floor={QFLOOR} for sub-ohmic T>0 members "
                          "(library quadrature cannot do better there and warns), else 0",
        "max_dev_over_tol": maxratio,
        "loose_leg": loose,
        "min_environment_influence": min_infl,
        "memory_cutoff_active_cases": n_mem_active, "min_memory_cutoff_effect": min_mem_effect,
        "rectangle_active_cases": n_rect_active, "min_rectangle_effect": min_rect_effect,
        "finite_mode": {"cases": len(fcs), "max_dev_by_epsrel": {str(k): v for k, v in fm_max.items()},
                        "tolerance_rule": f"{FM_CTOL}*epsrel*n", "max_dev_over_tol": fm_ratio,
                        "min_environment_influence": fm_min_infl, "oracle_fock_convergence": fm_conv},
        "monitored_states": n_states,
        "physicality_monitor": {"max_trace_dev": phys[0], "max_nonhermiticity": phys[1], "min_eigenvalue": phys[2]},
    }
    rep.assumptions = [
        "closed form: rho_ab(t_n) = [U rho0 U^dag]_ab exp(-(o_a-o_b)[(o_a-o_b) Re E_n + i (o_a+o_b) Im E_n]) with E_n the sum of the "
        "triangle / square / rectangle cells the documentation assigns to dkmax, tcut (K*dt typed as a decimal = K steps) and "
        "add_correlation_time; cells from an own frequency-domain quadrature (relative 1e-11), not from differences of eta(t)",
        "finite-mode oracle: density-matrix simulation of system (x) Fock-truncated modes, converged in the cut to 1e-11, "
        "symmetric splitting half system step / joint unitary / half system step",
        "parameter values outside the alphabets are not covered (DESIGN sec. 7)",
    ]
    return rep


def replay(rp):
    if rp.get("fam") == "interleaved":
        a = rp["args"]
        r = interleaved_case((a[0], a[1], tuple((x[0], x[1]) for x in a[2])))
        return {"obs": [b[0] for b in r["bad"]], "violation": r["bad"][0][0] if r["bad"] else None}
    if rp.get("fam") == "convergence":
        a = rp["args"]
        r = convergence_case((a[0], a[1], tuple(a[2])))
        return {"obs": [b[0] for b in r["bad"]], "violation": r["bad"][0][0] if r["bad"] else None}
    c = dict(rp)
    if c.get("fam") == "modes":
        r = run_modes(c)
        if r["conv"] > FM_CONV:
            return {"obs": {"conv": r["conv"]}, "violation": fm_cls(c, "-", "oracle-not-converged")}
        vio = None
        obs = []
        for rr in r["runs"]:
            if "exc" in rr:
                vio = vio or fm_cls(c, rr["method"], f"exception:{rr['exc'][0]}")
                obs.append([rr["method"], rr["epsrel"], rr["exc"][0]])
                continue
            obs.append([rr["method"], rr["epsrel"], C.ratio_class(rr["dev"] / rr["tol"])])
            if rr["dev"] > rr["tol"]:
                vio = vio or fm_cls(c, rr["method"], "state-mismatch")
            elif rr["tdev"] > 1e-12:
                vio = vio or fm_cls(c, rr["method"], "times")
        return {"obs": obs, "violation": vio}
    c["mem"] = list(c["mem"])
    r = run_commuting(c)
    if "exc" in r:
        where, name, msg = r["exc"]
        return {"obs": [where, name], "violation": case_cls(c, f"{where}|exception:{name}")}
    vio = None
    if r["dev"] > r["tol"]:
        vio = case_cls(c, "state-mismatch")
    elif r["tdev"] > 1e-12:
        vio = case_cls(c, "times")
    return {"obs": {"dev_over_tol": C.ratio_class(r["dev"] / r["tol"]), "tol": r["tol"], "first_bad": r["first_bad"]},
            "violation": vio}
