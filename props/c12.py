"""C12  Bath correlation functions and their 2D integrals are consistent and correct.

Exhaustive product  class x cut-off x zeta x temperature x cut-off frequency x alpha  (objects) x dt, and for every
(object, dt) the full list of cells (triangle, squares k=1..3, rectangles of widths 0.5/1/2.5 dt at k=1,3, triangle
at time_1=dt).  Every cell returned by the real correlation_2d_integral() is compared with

  A  "spectral":  own frequency-space quadrature with the exact kernel of the cell (props/c12_oracle.py);
  B  "selfint" :  1D Gauss-Legendre integration of the object's OWN correlation() with the overlap weight of the
                  cell (the literal statement of the property);
  F  "closed"  :  closed forms for power law / exponential cut-off / T = 0 (C and all cells);
  T  "tiling"  :  sum of the cells of the first n steps == triangle of side n dt (n=2..4), long rectangle ==
                  squares + short rectangle, rectangle of width dt == square;
  Y/P          :  C(-tau) == conj C(tau),  Re triangle > 0;
  X  "class"   :  CustomSD fed the power-law j  == PowerLawSD; CustomCorrelations fed the closed form C / one mode;
  M  "matsubara": imaginary-time C and cells (beta split into N steps, as GibbsTempo does) are finite real floats,
                  equal the own imaginary-time quadrature and obey the KMS symmetry  D(beta - tau) = D(tau).
"""
import itertools
import math
import sys
import time
import warnings

import numpy as np

from mc.common import Report, Violation, pmap, bind_repo
from . import c12_oracle as O

oq = bind_repo()
LEVEL = "exploration"

EPSREL = 2.0 ** -26          # oqupy.config.INTEGRATE_EPSREL, the tolerance every library call here asks for
EPSABS = 1.49e-8             # scipy.integrate.quad's default absolute tolerance, which the library does not override:
                             # every quad call may stop at max(EPSABS, EPSREL |I|); one eta value = up to 4 quad calls
# tolerance of a cell = C * EPSREL * S + 4 * EPSABS * nterms (+ noise term), S = sum of |eta| at the nterms corner times
# of the cell: the library forms cells as second differences of eta, so its absolute error scales with |eta|, not with
# the cell.  Constants fixed after measuring the whole quick and thorough alphabets on the unchanged tree (see run()).
C_SMOOTH = 75.0              # measured max |dev| / (EPSREL S): 2.1  (a quad call stopping right at its tolerance)
C_SUB = 1200.0               # power laws with zeta < 1 at T > 0: QUADPACK's extrapolation at the w^(zeta-1) end point,
                             # fed with a kernel that is evaluated with cancellation at small w, reaches 1e-7..2e-6 only
C_NOISE = 30.0               # same regime, in addition C_NOISE * EPSREL * T * 2 alpha wc^(1-zeta) per eta term: the
                             # cancellation leaves an ABSOLUTE error ~ eps_machine * T * J(w) / w^3 (visible for small dt)
C_POINT = 75.0               # C(tau) against own quadrature, scale |C(0)|
TOL_EXACT = 1e-11            # relations that hold bit-for-bit up to rounding (C(-tau) = conj C(tau))
ACTIVE = 30.0                # a cell is non-trivial iff |cell| >= ACTIVE * tolerance (a factor-2 bug is a >= 30 tol effect)

GL_ORDER = 8                 # per piece of length dt/2 (check B)
GUARD = -math.log(np.finfo(float).eps)      # the library switches integrand where w / T > 36.04

T_ALPHABET = ["0", "0.02wc", "0.14wc", "1", "50"]      # simplest first
XCELLS = [("xsq0", "square", 0.0, None), ("xsq0.5", "square", 0.5, None), ("xrect0.5+1.5", "rectangle", 0.5, 2.0)]
CELLS = ([("tri", "upper-triangle", 0.0, None)] + [(f"sq{k}", "square", float(k), None) for k in (1, 2, 3)]
         + [(f"rect{k}+{r}", "rectangle", float(k), float(k) + r) for k in (1, 3) for r in (0.5, 1.0, 2.5)])
SD_CLASSES = ("PowerLawSD", "CustomSD", "CustomSD-resonance")


def temperature(tkey, wc):
    if tkey.endswith("wc"):
        return float(tkey[:-2]) * wc
    return float(tkey)


# ------------------------------------------------------------------------------------------------
# objects

def make_object(ob):
    """ob = dict(cls, ctype, zeta, T (key), wc, alpha) -> (library object, Spectrum oracle or None, temperature)"""
    cls, ctype, zeta, wc, alpha = ob["cls"], ob["ctype"], ob["zeta"], ob["wc"], ob["alpha"]
    temp = temperature(ob["T"], wc)
    if cls == "PowerLawSD":
        lib = oq.PowerLawSD(alpha, zeta, wc, ctype, temperature=temp)
        sp = O.Spectrum(O.j_powerlaw(alpha, zeta, wc), ctype, wc, temp, power=O.power_for(zeta))
    elif cls == "CustomSD":       # same j, supplied by the user in a different floating-point form
        lib = oq.CustomSD(lambda w: 2.0 * alpha * wc * (w / wc) ** zeta, wc, ctype, temperature=temp)
        sp = O.Spectrum(O.j_powerlaw(alpha, zeta, wc), ctype, wc, temp, power=O.power_for(zeta))
    elif cls == "CustomSD-resonance":     # a j that is not a power law (zeta is ignored)
        jf = O.j_twopeak(alpha, wc)
        lib = oq.CustomSD(lambda w: float(jf(w)), wc, ctype, temperature=temp)
        sp = O.Spectrum(jf, ctype, wc, temp, power=2)
    elif cls == "CustomCorrelations":     # closed form of the exponential cut-off at T = 0
        assert ctype == "exponential" and temp == 0.0
        lib = oq.CustomCorrelations(lambda tau: O.closed_c(alpha, zeta, wc, tau))
        sp = O.Spectrum(O.j_powerlaw(alpha, zeta, wc), ctype, wc, temp, power=O.power_for(zeta))
    elif cls == "CustomCorrelations-mode":    # one oscillator of frequency wc, coupling sqrt(alpha), any T
        lib = oq.CustomCorrelations(O.mode_c(math.sqrt(alpha), wc, temp))
        sp = None
    else:
        raise ValueError(cls)
    return lib, sp, temp


class Oracle:
    """cell / point values from the spectral quadrature, or exactly for the single mode."""

    def __init__(self, ob, sp, temp):
        self.ob, self.sp, self.temp = ob, sp, temp

    def real(self, kern, tmax):
        if self.sp is None:
            return O.mode_cell(math.sqrt(self.ob["alpha"]), self.ob["wc"], self.temp, kern)
        return self.sp.integrate(kern, tmax=tmax)

    def eta_abs(self, t):
        return abs(self.real(O.k_eta(t), t)) if t > 0 else 0.0


def noise_unit(ob, temp):
    if ob["cls"] in ("PowerLawSD", "CustomSD") and ob["zeta"] < 1.0 and temp > 0.0:
        return EPSREL * temp * 2.0 * ob["alpha"] * ob["wc"] ** (1.0 - ob["zeta"])
    return 0.0


def tol_fn(ob, temp):
    nu = noise_unit(ob, temp)
    crel = C_SUB if nu > 0.0 else C_SMOOTH
    return lambda s, nterms: crel * EPSREL * s + (C_NOISE * nu + 4.0 * EPSABS) * nterms


def tol_point(c0):
    return C_POINT * EPSREL * c0 + 4.0 * EPSABS


def tclass(temp):
    return "T=0" if temp == 0.0 else "T>0"


def shape_class(name):
    if name.startswith("tri@"):
        return "triangle@time_1>0"
    if name.startswith("tri("):
        return "triangle(n dt)"
    if name.startswith("C("):
        return "C(tau)"
    return {"t": "triangle", "s": "square", "r": "rectangle"}[name[0]]


# ------------------------------------------------------------------------------------------------
# one case = one object x one dt: all cells, all checks

def eval_case(case):
    t0 = time.process_time()
    with warnings.catch_warnings(record=True) as wl:
        warnings.simplefilter("always")
        out = _eval_case(case["ob"], case["dt"], case.get("selfint", True))
    out["n_warnings"] = len(wl)
    out["cpu"] = time.process_time() - t0
    return out


def _eval_case(ob, dt, do_selfint):
    recs = []       # (check, cellname, dev, tol, lib, ref)
    stats = []      # (check, cellname, dev, S, nterms) for calibration of the constants
    info = {}
    try:
        lib, sp, temp = make_object(ob)
    except Exception as ex:  # noqa
        return {"exc": f"construct|{type(ex).__name__}: {ex}"[:200], "recs": [], "info": {}}
    orc = Oracle(ob, sp, temp)
    tolf = tol_fn(ob, temp)
    closed = ob["cls"] in ("PowerLawSD", "CustomSD", "CustomCorrelations") and ob["ctype"] == "exponential" and temp == 0.0

    def libcell(shape, t1, t2, delta=dt):
        return complex(lib.correlation_2d_integral(delta, t1, t2, shape=shape) if t2 is not None
                       else lib.correlation_2d_integral(delta, t1, shape=shape))

    eta_cache = {}

    def eta_abs(t):
        key = round(t / dt * 2)
        if key not in eta_cache:
            eta_cache[key] = orc.eta_abs(t)
        return eta_cache[key]

    vals, refs, tols, active, scl = {}, {}, {}, {}, {}
    try:
        # ---- library values, oracle A, closed forms
        for name, shape, k, k2 in CELLS:
            t1 = k * dt
            t2 = None if k2 is None else k2 * dt
            v = libcell(shape, t1, t2)
            if shape == "upper-triangle":
                kern, corners = O.k_tri(dt), [dt]
            elif shape == "square":
                kern, corners = O.k_rect(t1, t1 + dt, dt), [t1 + dt, t1, t1, t1 - dt]
            else:
                kern, corners = O.k_rect(t1, t2, dt), [t2, t1, t2 - dt, t1 - dt]
            ref = orc.real(kern, max(corners))
            s = sum(eta_abs(t) for t in corners)
            nt = sum(1 for t in corners if t > 0)
            tol = tolf(s, nt)
            vals[name], refs[name], tols[name], scl[name] = v, ref, tol, (s, nt)
            active[name] = abs(ref) / tol
            recs.append(("spectral", name, abs(v - ref), tol, v, ref))
            stats.append(("spectral", name, abs(v - ref), s, nt))
            if closed:
                cf = O.closed_cell(ob["alpha"], ob["zeta"], ob["wc"], shape, dt, t1, t2)
                recs.append(("closed", name, abs(v - cf), tol, v, complex(cf)))
        # ---- cells that touch or straddle the diagonal (time_1 < delta): only the spectral oracle applies
        for name, shape, k, k2 in XCELLS:
            t1 = k * dt
            t2 = None if k2 is None else k2 * dt
            v = libcell(shape, t1, t2)
            if shape == "square":
                kern, corners = O.k_rect(t1, t1 + dt, dt), [t1 + dt, t1, t1, t1 - dt]
            else:
                kern, corners = O.k_rect(t1, t2, dt), [t2, t1, t2 - dt, t1 - dt]
            corners = [abs(c) for c in corners]
            ref = orc.real(kern, max(corners))
            s_ = sum(eta_abs(t) for t in corners if t > 0)
            nt_ = sum(1 for t in corners if t > 0)
            tol_ = tolf(s_, nt_)
            recs.append(("spectral", name, abs(v - ref), tol_, v, ref))
            stats.append(("spectral", name, abs(v - ref), s_, nt_))
        # ---- triangle placed at time_1 = dt: documented integral  int_{t1}^{t1+D} int_0^{t'-t1} C(t'-t'') dt'' dt'
        v = libcell("upper-triangle", dt, None)
        ref = orc.real(O.k_tri(dt, dt), 2 * dt)
        s = eta_abs(2 * dt) + eta_abs(dt)
        tol = tolf(s, 2)
        alt = orc.real(O.k_eta(2 * dt), 2 * dt) - orc.real(O.k_eta(dt), dt)
        vals["tri@1"], refs["tri@1"], tols["tri@1"], scl["tri@1"] = v, ref, tol, (s, 2)
        active["tri@1"] = abs(ref - alt) / tol
        recs.append(("spectral", "tri@1", abs(v - ref), tol, v, ref))
        info["tri@1_equals_eta_difference"] = bool(abs(v - alt) <= tol < abs(v - ref))
        # ---- tiling
        for n in (2, 3, 4):
            big = libcell("upper-triangle", 0.0, None, delta=n * dt)
            parts = n * vals["tri"] + sum((n - k) * vals[f"sq{k}"] for k in range(1, n))
            tol_big = tolf(eta_abs(n * dt), 1)
            tol = tol_big + n * tols["tri"] + sum((n - k) * tols[f"sq{k}"] for k in range(1, n))
            recs.append(("tiling", f"tri(n={n})", abs(big - parts), tol, big, parts))
            refn = orc.real(O.k_eta(n * dt), n * dt)
            recs.append(("spectral", f"tri(n={n})", abs(big - refn), tol_big, big, refn))
            stats.append(("spectral", f"tri(n={n})", abs(big - refn), eta_abs(n * dt), 1))
            if not big.real > 0:
                recs.append(("positivity", f"tri(n={n})", abs(big.real) + 1e-300, 0.0, big, refn))
        parts = vals["sq1"] + vals["sq2"] + vals["rect3+0.5"]
        tol = tols["sq1"] + tols["sq2"] + tols["rect3+0.5"] + tols["rect1+2.5"]
        recs.append(("tiling", "rect1+2.5", abs(vals["rect1+2.5"] - parts), tol, vals["rect1+2.5"], parts))
        for k in (1, 3):
            recs.append(("tiling", f"rect{k}+1.0==sq{k}", abs(vals[f"rect{k}+1.0"] - vals[f"sq{k}"]),
                         2 * tols[f"sq{k}"], vals[f"rect{k}+1.0"], vals[f"sq{k}"]))
        # ---- positivity
        if not vals["tri"].real > 0:
            recs.append(("positivity", "tri", abs(vals["tri"].real) + 1e-300, 0.0, vals["tri"], refs["tri"]))
        # ---- C(tau): symmetry, own quadrature, closed form
        c0 = abs(orc.real(O.k_point(0.0), 0.0))
        for tau in (0.5 * dt, 3.0 * dt):
            cp = complex(lib.correlation(tau))
            cm = complex(lib.correlation(-tau))
            nm = f"C({tau / dt:g}dt)"
            recs.append(("symmetry", nm, abs(cm - np.conj(cp)), TOL_EXACT * c0, cm, complex(np.conj(cp))))
            ref = orc.real(O.k_point(tau), tau)
            recs.append(("spectral", nm, abs(cp - ref), tol_point(c0), cp, ref))
            if closed:
                cf = complex(O.closed_c(ob["alpha"], ob["zeta"], ob["wc"], tau))
                recs.append(("closed", nm, abs(cp - cf), tol_point(c0), cp, cf))
        # ---- check B: integrate the object's own correlation() with the overlap weight of each cell
        if do_selfint:
            x, wt = O.gl(GL_ORDER)
            h = 0.25 * dt
            npieces = 11         # [0, 5.5 dt] in pieces of dt/2; every break point of every weight is a piece boundary
            nodes = np.concatenate([(2 * j + 1) * h + h * x for j in range(npieces)])
            wts = np.concatenate([h * wt for _ in range(npieces)])
            cn = np.array([complex(lib.correlation(float(s))) for s in nodes])
            for name, shape, k, k2 in CELLS + [("tri@1", "upper-triangle", 1.0, None)]:
                t1 = k * dt
                if shape == "upper-triangle":
                    wfun = O.weight_tri(dt, t1)
                elif shape == "square":
                    wfun = O.weight_rect(t1, t1 + dt, dt)
                else:
                    wfun = O.weight_rect(t1, k2 * dt, dt)
                own = complex(np.sum(cn * wfun(nodes) * wts))
                recs.append(("selfint", name, abs(vals[name] - own), tols[name], vals[name], own))
                if name != "tri@1":
                    stats.append(("selfint", name, abs(vals[name] - own)) + scl[name])
    except Exception as ex:  # noqa
        import traceback
        return {"exc": f"{type(ex).__name__}: {ex}"[:200], "tb": traceback.format_exc()[-600:], "recs": recs, "info": info}
    # ---- vacuity: weight of the frequencies beyond the overflow guard in the triangle
    if sp is not None and temp > 0:
        w, jw, jwc = sp.grid(max(sp._grid))
        k = O.k_tri(dt)(w)
        tot = abs(complex(np.sum(jwc * k.real), np.sum(jw * k.imag)))
        m = w > GUARD * temp
        info["guard_else_weight"] = float(abs(complex(np.sum((jwc * k.real)[m]), np.sum((jw * k.imag)[m]))) / tot)
        m1 = m & (w < ob["wc"])
        info["guard_else_weight_below_wc"] = float(abs(complex(np.sum((jwc * k.real)[m1]), np.sum((jw * k.imag)[m1]))) / tot)
    info["selfcheck"] = sp.worst_selfcheck if sp is not None else 0.0
    info["active"] = active
    info["stats"] = stats
    info["vals"] = {k: [v.real, v.imag] for k, v in vals.items()}
    return {"exc": None, "recs": recs, "info": info}


# ------------------------------------------------------------------------------------------------
# Matsubara: beta = 1/T split into N steps (what GibbsTempo asks for)

def _is_real_number(v):
    return (not isinstance(v, complex)) and (not np.iscomplexobj(v)) and bool(np.isfinite(v))


def eval_matsubara(case):
    t0 = time.process_time()
    ob, nst = case["ob"], case["N"]
    recs, info, stats = [], {}, []
    pinned = {}
    with warnings.catch_warnings():
        warnings.simplefilter("ignore")
        try:
            lib, sp, temp = make_object(ob)
            beta = 1.0 / temp
            d = beta / nst
            tolf = tol_fn(ob, temp)
            w0 = GUARD * temp
            eta = {0: 0.0}
            for k in range(1, nst + 1):
                eta[k] = abs(sp.integrate_m(O.km_tri(k * d, beta)))
            active, got, gtol, gmod, affected = {}, {}, {}, {}, {}
            for k in range(nst):
                shape = "upper-triangle" if k == 0 else "square"
                v = lib.correlation_2d_integral(d, k * d, shape=shape, matsubara=True)
                name = "tri" if k == 0 else f"sq{k}"
                if not _is_real_number(v):
                    recs.append(("matsubara-real", name, 1.0, 0.0, complex(v), 0.0))
                    continue
                # analytic continuation t = -i tau of the real-time double integral: measure (-i)^2 = -1
                kern = O.km_tri(d, beta) if k == 0 else O.km_rect(k * d, (k + 1) * d, d, beta)
                s, nt = (eta[1], 1) if k == 0 else (eta[k + 1] + 2 * eta[k] + eta[k - 1], 4 if k > 1 else 3)
                ref = -sp.integrate_m(kern)
                tol = tolf(s, nt)
                active[name] = abs(ref) / tol
                got[name], gtol[name] = float(v), tol
                dev = abs(float(v) - ref)
                model = -sp.integrate_m(kern, drop_above=w0)
                gmod[name] = model
                recs.append(("matsubara-value", name, dev, tol, float(v), ref))
                affected[name] = abs(model - ref) > 0.01 * tol and abs(float(v) - model) < dev
                if dev > tol:
                    pinned[name] = bool(abs(float(v) - model) <= tol)
            # positioned triangles and a rectangle in imaginary time against the 1D overlap-weight integral of the
            # object's own imaginary-time correlation function (same sign convention as the cells above: minus)
            xg, wg = O.gl(24)
            for k in range(1, min(3, nst - 1) + 1):
                t1 = k * d
                nodes = t1 + 0.5 * d * (xg + 1)
                cvals = np.array([float(np.real(lib.correlation(float(u), matsubara=True))) for u in nodes])
                own = -float(np.sum(0.5 * d * wg * (t1 + d - nodes) * cvals))
                v = lib.correlation_2d_integral(d, t1, shape="upper-triangle", matsubara=True)
                name = f"tri@{k}"
                if not _is_real_number(v):
                    recs.append(("matsubara-real", name, 1.0, 0.0, complex(v), 0.0))
                    continue
                s_ = eta[k + 1] + eta[k] + d * abs(float(np.sum(0.5 * d * wg * np.abs(cvals)))) * k
                recs.append(("matsubara-selfint", name, abs(float(v) - own), tolf(s_, 3), float(v), own))
            for k in range(1, nst):
                if k < nst - k and f"sq{k}" in got and f"sq{nst - k}" in got:
                    na, nb = f"sq{k}", f"sq{nst - k}"
                    a, b = got[na], got[nb]
                    tol = gtol[na] + gtol[nb]
                    recs.append(("matsubara-kms", nb, abs(a - b), tol, b, a))
                    affected["kms:" + nb] = affected[na] or affected[nb]
                    if abs(a - b) > tol:
                        pinned["kms:" + nb] = bool(abs((a - b) - (gmod[na] - gmod[nb])) <= tol)
            c0 = abs(sp.integrate_m(O.km_point(0.0, beta)))
            cv = {}
            for frac in (0.0, 0.25, 0.5, 0.75, 1.0):
                v = lib.correlation(frac * beta, matsubara=True)
                name = f"C({frac:g}beta)"
                if not _is_real_number(v):
                    recs.append(("matsubara-real", name, 1.0, 0.0, complex(v), 0.0))
                    continue
                kern = O.km_point(frac * beta, beta)
                ref = sp.integrate_m(kern)
                tol = tol_point(c0)
                dev = abs(float(v) - ref)
                cv[frac] = float(v)
                model = sp.integrate_m(kern, drop_above=w0)
                gmod[frac] = model
                recs.append(("matsubara-value", name, dev, tol, float(v), ref))
                affected[name] = abs(model - ref) > 0.01 * tol and abs(float(v) - model) < dev
                if dev > tol:
                    pinned[name] = bool(abs(float(v) - model) <= tol)
            for fa, fb in ((0.0, 1.0), (0.25, 0.75)):
                if fa in cv and fb in cv:
                    nb = f"C({fb:g}beta)"
                    d = cv[fa] - cv[fb]
                    recs.append(("matsubara-kms", nb, abs(d), 2 * tol_point(c0), cv[fb], cv[fa]))
                    affected["kms:" + nb] = affected[f"C({fa:g}beta)"] or affected[nb]
                    if abs(d) > 2 * tol_point(c0):
                        pinned["kms:" + nb] = bool(abs(d - (gmod[fa] - gmod[fb])) <= 2 * tol_point(c0))
            # vacuity: weight of w > 36 T in D(beta) = D(0)
            kern = O.km_point(beta, beta)
            full = sp.integrate_m(kern)
            part = sp.integrate_m(kern, drop_above=w0)
            info["guard_drop_fraction_of_D(beta)"] = float(abs(full - part) / abs(full))
            info["active"] = active
            info["stats"] = stats
            info["pinned"] = pinned
            info["affected_by_guard"] = sorted(k for k, v in affected.items() if v)
            info["selfcheck"] = sp.worst_selfcheck
        except Exception as ex:  # noqa
            import traceback
            return {"exc": f"{type(ex).__name__}: {ex}"[:200], "tb": traceback.format_exc()[-600:], "recs": recs,
                    "info": info, "cpu": time.process_time() - t0}
    return {"exc": None, "recs": recs, "info": info, "cpu": time.process_time() - t0}


# ------------------------------------------------------------------------------------------------
# enumeration

def objects(tier):
    zetas = [1.0, 2.0, 0.5, 4.0] + ([3.0, 0.75] if tier == "thorough" else [])
    alphas = [0.25] + ([4.0, 0.004] if tier == "thorough" else [])
    out = []
    for cls in ("PowerLawSD", "CustomSD"):
        for ctype, zeta, tk, wc, alpha in itertools.product(["exponential", "gaussian", "hard"], zetas, T_ALPHABET,
                                                            [1.0, 4.0], alphas):
            out.append({"cls": cls, "ctype": ctype, "zeta": zeta, "T": tk, "wc": wc, "alpha": alpha})
    for ctype, tk, wc in itertools.product(["exponential", "gaussian", "hard"], T_ALPHABET, [1.0, 4.0]):
        out.append({"cls": "CustomSD-resonance", "ctype": ctype, "zeta": 3.0, "T": tk, "wc": wc, "alpha": 0.25})
    for zeta, wc, alpha in itertools.product(zetas, [1.0, 4.0], alphas):
        out.append({"cls": "CustomCorrelations", "ctype": "exponential", "zeta": zeta, "T": "0", "wc": wc, "alpha": alpha})
    for tk, wc in itertools.product(T_ALPHABET, [1.0, 4.0]):
        out.append({"cls": "CustomCorrelations-mode", "ctype": "none", "zeta": 0.0, "T": tk, "wc": wc, "alpha": 0.25})
    return out


def build_cases(tier):
    cases = []
    obs = objects(tier)
    for ob in obs:
        for dt in (0.3, 0.05):
            # CustomSD with the power-law j runs exactly PowerLawSD's code: check B is done on PowerLawSD only
            cases.append({"ob": ob, "dt": dt, "selfint": ob["cls"] != "CustomSD"})
    mats = []
    for ob in obs:
        if ob["cls"] in ("PowerLawSD", "CustomSD-resonance") and ob["T"] != "0":
            for n in ([4] if tier == "quick" else [4, 10]):
                mats.append({"ob": ob, "N": n})
    return cases, mats


def ob_key(ob):
    return (ob["cls"], ob["ctype"], ob["zeta"], ob["T"], ob["wc"], ob["alpha"])


def violation_class(ob, check, name, info):
    temp = temperature(ob["T"], ob["wc"])
    sc = shape_class(name)
    if name == "tri@1" and check in ("spectral", "selfint") and info.get("tri@1_equals_eta_difference"):
        # pinned signature: the value is eta(t1+D)-eta(t1), i.e. t'' runs up to t' instead of t'-t1
        return f"{ob['cls']}|triangle@time_1>0|equals-eta(t1+D)-eta(t1)-not-the-documented-integral"
    if check.startswith("matsubara"):
        if check == "matsubara-real":
            return f"{ob['cls']}|{ob['ctype']}|matsubara|{sc}|not-a-finite-real"
        if check == "matsubara-kms":
            if info.get("pinned", {}).get("kms:" + name):
                return f"{ob['cls']}|matsubara|{sc}|kms-asymmetry-equal-to-the-term-dropped-above-overflow-guard"
            return f"{ob['cls']}|{ob['ctype']}|matsubara|{sc}|kms-asymmetry"
        if info.get("pinned", {}).get(name):
            # pinned signature: equals the integral in which, above w = 36.04 T, only exp(-w tau) is kept
            return f"{ob['cls']}|matsubara|{sc}|value-drops-exp(-w(beta-tau))-above-overflow-guard"
        return f"{ob['cls']}|{ob['ctype']}|matsubara|{sc}|value-mismatch"
    sig = "real-part-not-positive" if check == "positivity" else f"{check}-mismatch"
    return f"{ob['cls']}|{ob['ctype']}|{tclass(temp)}|{sc}|{sig}"


def judge(case, res, matsubara=False):
    """-> list of (cls, what, replay)"""
    ob = case["ob"]
    base = {"kind": "matsubara" if matsubara else "cells", "ob": ob}
    base.update({"N": case["N"]} if matsubara else {"dt": case["dt"]})
    out = []
    if res["exc"]:
        out.append((f"{ob['cls']}|{ob['ctype']}|T={ob['T']}|{'matsubara|' if matsubara else ''}exception:"
                    f"{res['exc'].split(':')[0]}", res["exc"], dict(base, check="exception", cell="")))
    for check, name, dev, tol, v, ref in res["recs"]:
        if not dev <= tol:
            cls = violation_class(ob, check, name, res["info"])
            what = (f"{ob_key(ob)} {'N' if matsubara else 'dt'}={case['N'] if matsubara else case['dt']} {name}: library {v} vs "
                    f"{check} reference {ref}: |dev| = {dev:.3e} > tol {tol:.3e}")
            out.append((cls, what, dict(base, check=check, cell=name)))
    return out


def probe(args):
    """accuracy outside the alphabet (not judged): relative deviation of triangle and first square."""
    zeta, temp, dt = args
    with warnings.catch_warnings():
        warnings.simplefilter("ignore")
        lib = oq.PowerLawSD(0.25, zeta, 1.0, "exponential", temperature=temp)
        sp = O.Spectrum(O.j_powerlaw(0.25, zeta, 1.0), "exponential", 1.0, temp, power=O.power_for(zeta))
        a = complex(lib.correlation_2d_integral(dt, 0.0, shape="upper-triangle"))
        b = complex(lib.correlation_2d_integral(dt, dt, shape="square"))
        ra = sp.integrate(O.k_tri(dt), tmax=dt)
        rb = sp.integrate(O.k_rect(dt, 2 * dt, dt), tmax=2 * dt)
    return {"zeta": zeta, "T": temp, "dt": dt, "triangle_rel_dev": abs(a - ra) / abs(ra), "square_rel_dev": abs(b - rb) / abs(rb),
            "triangle_abs_dev": abs(a - ra)}


# ------------------------------------------------------------------------------------------------
# user-supplied correlation functions with finite support ("C(tau) = 0 for tau > tau_max" as the class documents): the
# callable returns a plain float 0.0 outside its support, a complex number inside.  Every cell against the 1D
# overlap-weight integral of the callable itself.

def window_case(args):
    tau_max, w0, temps, dts = args
    temp, dt = float(temps), float(dts)
    base = O.mode_c(0.6, w0, temp)

    def cfun(tau):
        return complex(base(tau)) * (1.0 - 0.4 * tau / tau_max) if abs(tau) < tau_max else 0.0
    recs = []
    try:
        lib = oq.CustomCorrelations(cfun)
        x, wt = O.gl(GL_ORDER)
        h = 0.25 * dt
        npieces = 11
        nodes = np.concatenate([(2 * j + 1) * h + h * x for j in range(npieces)])
        wts = np.concatenate([h * wt for _ in range(npieces)])
        cn = np.array([complex(cfun(float(s_))) for s_ in nodes])
        scale = abs(complex(cfun(0.0))) * dt * dt
        for name, shape, k, k2 in CELLS:
            t1 = k * dt
            if shape == "upper-triangle":
                wfun = O.weight_tri(dt, t1)
                got = complex(lib.correlation_2d_integral(dt, t1, shape=shape))
            elif shape == "square":
                wfun = O.weight_rect(t1, t1 + dt, dt)
                got = complex(lib.correlation_2d_integral(dt, t1, shape=shape))
            else:
                wfun = O.weight_rect(t1, k2 * dt, dt)
                got = complex(lib.correlation_2d_integral(dt, t1, k2 * dt, shape=shape))
            own = complex(np.sum(cn * wfun(nodes) * wts))
            recs.append((name, abs(got - own) / scale, abs(got.imag - own.imag) / scale, abs(own.imag) / scale))
    except Exception as ex:  # noqa
        return {"exc": f"{type(ex).__name__}: {ex}"[:160], "recs": recs}
    return {"exc": None, "recs": recs}


# ------------------------------------------------------------------------------------------------
# units: the 2D integrals are dimensionless, so the same bath written in another unit of time (cutoff and temperature
# multiplied by s, all times divided by s) must give the same cells.  Oracle: the library's own values in units of
# order one (which the rest of this check compares with the spectral quadrature).

SCALES = [1.7e3, 1e-2, 1e6]        # 1.7e3: times that are not short decimal fractions
SCALE_TOL = 1e-5            # relative to |cell|; measured <= 1e-7 at s = 1.7e3 and 1e-2


def scale_case(args):
    ctype, zeta, tk, s_ = args
    temp = float(tk)
    recs = []
    nwarn = 0
    try:
        a = oq.PowerLawSD(0.25, zeta, 4.0, ctype, temperature=temp)
        b = oq.PowerLawSD(0.25, zeta, 4.0 * s_, ctype, temperature=temp * s_)
        for dt in (0.3, 0.05):
            for name, shape, k, k2 in CELLS:
                kw = {} if k2 is None else {"time_2": k2 * dt}
                kwb = {} if k2 is None else {"time_2": k2 * dt / s_}
                va = complex(a.correlation_2d_integral(dt, k * dt, shape=shape, **kw))
                with warnings.catch_warnings(record=True) as wl:
                    warnings.simplefilter("always")
                    vb = complex(b.correlation_2d_integral(dt / s_, k * dt / s_, shape=shape, **kwb))
                nwarn += len(wl)
                recs.append((f"{name}@dt={dt}", abs(va - vb) / abs(va)))
    except Exception as ex:  # noqa
        return {"exc": f"{type(ex).__name__}: {ex}"[:160], "recs": recs, "nwarn": nwarn}
    return {"exc": None, "recs": recs, "nwarn": nwarn}


# ------------------------------------------------------------------------------------------------
# lattice of time arguments: eta(t) of the T = 0 exponential-cutoff power laws against a 300-point Gauss-Legendre
# integral of the closed-form C(tau), for t = k/n.  The library's adaptive quadrature (QUADPACK, no warning) is
# sporadically less accurate than requested at isolated arguments (measured: ~0.1-1 % of the points off by more than
# 1e-8 relative, worst 1e-5); the family reports that distribution and flags anything beyond LATTICE_TOL.

LATTICE_TOL = 1e-4


def lattice_case(args):
    zeta, wc, n_lo, n_hi = args
    x, w = O.gl(300)
    lib = oq.PowerLawSD(0.25, zeta, wc, "exponential", temperature=0.0)
    worst, above, tot, where = 0.0, 0, 0, None
    for n in range(n_lo, n_hi):
        for k in range(1, 81):
            t = k / n
            e = complex(lib.eta_function(t))
            s_ = 0.5 * t * (x + 1)
            ref = complex(np.sum(0.5 * t * w * (t - s_) * np.array([complex(O.closed_c(0.25, zeta, wc, float(v))) for v in s_])))
            rel = abs(e - ref) / max(abs(ref), 1e-3)
            tot += 1
            above += rel > 1e-8
            if rel > worst:
                worst, where = rel, (k, n)
    return {"worst": worst, "where": where, "above_1e-8": int(above), "points": tot}


# ------------------------------------------------------------------------------------------------
# caller-supplied (looser) epsrel with weakly coupled baths: small cells far from the origin, T = 0 exponential cut-off,
# against the closed form.  The requested relative tolerance must stay a RELATIVE one.

def loose_case(args):
    alpha, zeta, eps = args
    lib = oq.PowerLawSD(alpha, zeta, 1.0, "exponential", temperature=0.0)
    x, w = O.gl(64)
    worst, where = 0.0, None
    for k in (3, 5, 8, 10):
        for shape, t2 in (("square", None), ("rectangle", k + 0.5)):
            kw = {} if t2 is None else {"time_2": t2}
            got = complex(lib.correlation_2d_integral(1.0, float(k), shape=shape, epsrel=eps, **kw))
            a_, b_ = float(k), (k + 1.0 if t2 is None else t2)
            wf = O.weight_rect(a_, b_, 1.0)
            lo, hi = a_ - 1.0, b_
            nodes = lo + 0.5 * (hi - lo) * (x + 1)
            # piecewise-linear weight: integrate each linear piece separately (break points at a_, a_+... are inside)
            ref = 0.0
            brk = sorted(set([lo, a_, b_ - 1.0, b_, hi]))
            for p0, p1 in zip(brk[:-1], brk[1:]):
                if p1 - p0 <= 0:
                    continue
                nd = p0 + 0.5 * (p1 - p0) * (x + 1)
                ref += np.sum(0.5 * (p1 - p0) * w * wf(nd) * np.array([complex(O.closed_c(alpha, zeta, 1.0, float(u))) for u in nd]))
            rel = abs(got - ref) / abs(ref)
            # the library forms a cell from 3-4 eta values, each integrated to max(epsabs = 1.49e-8, epsrel * |eta|):
            # deviations below 16 * epsabs + 10 * epsrel * (sum of |eta| at the corner times) are what was asked for
            # (the tolerance rule of the main family)
            corners = (b_, a_, b_ - 1.0, a_ - 1.0)
            s_eta = sum(abs(complex(lib.eta_function(float(c_)))) for c_ in corners)
            if abs(got - ref) > 16 * 1.49e-8 + 10 * eps * s_eta and rel > worst:
                worst, where = rel, (shape, k)
    return {"worst": float(worst), "where": where}


LOOSE_TOL = 2e-3


# ------------------------------------------------------------------------------------------------
# long times (cutoff * t up to 2000): eta and C of the hard-cutoff ohmic density at T = 0 against the closed forms
# (sine / cosine integrals); the oscillatory integrands need the full subdivision limit of the quadrature

def longtime_case(args):
    from scipy.special import sici
    alpha, wc, t = args
    lib = oq.PowerLawSD(alpha, 1.0, wc, "hard", temperature=0.0)
    x = wc * t
    si, ci = sici(x)
    eta_ref = 2 * alpha * ((np.euler_gamma + np.log(x) - ci) + 1j * (si - x))
    c_ref = 2 * alpha * ((np.cos(x) + x * np.sin(x) - 1) / t ** 2 - 1j * (np.sin(x) - x * np.cos(x)) / t ** 2)
    with warnings.catch_warnings():
        warnings.simplefilter("ignore")
        e = complex(lib.eta_function(t))
        c = complex(lib.correlation(t))
    return {"eta_re": abs(e.real - eta_ref.real) / abs(eta_ref.real), "eta_im": abs(e.imag - eta_ref.imag) / abs(eta_ref.imag),
            "c": abs(c - c_ref) / (2 * alpha * wc / t)}


LONG_TOL = 1e-6


WINDOW_TOL = 1e-4          # relative to |C(0)| dt^2; the library integrates a discontinuous integrand with dblquad


def run(tier, seed):
    rep = Report(LEVEL)
    # tau_max / dt combinations: the support ends before, at, and after the probe point tau = 1; all break points are
    # multiples of dt/2 (piece boundaries of the reference quadrature)
    wj = [(tm, w0, t, d) for tm in (0.9, 1.5, 0.6) for w0 in (1.0, 4.0) for t in ("0", "0.5") for d in ("0.1", "0.3")]
    wres = pmap(window_case, wj, seed=seed)
    wmax = 0.0
    for j, r in zip(wj, wres):
        if r["exc"]:
            rep.add(Violation("CustomCorrelations-finite-support|exception", f"{j}: {r['exc']}", {"kind": "window", "args": list(j)}))
            continue
        for name, dev, idev, isize in r["recs"]:
            if dev > WINDOW_TOL:
                part = "imaginary-part-missing" if isize > 10 * WINDOW_TOL and abs(idev - isize) < 1e-3 * isize else "wrong-value"
                rep.add(Violation(f"CustomCorrelations-finite-support|{shape_class(name)}|{part}",
                                  f"tau_max={j[0]} w0={j[1]} T={j[2]} dt={j[3]} cell {name}: differs from the integral of "
                                  f"the callable by {dev:.2e} |C(0)| dt^2", {"kind": "window", "args": list(j)}))
            else:
                wmax = max(wmax, dev)
    sj = [(ct, z, tk, s_) for ct in ("exponential", "gaussian", "hard") for z in (1.0, 3.0, 0.5) for tk in ("0", "2.0")
          for s_ in SCALES]
    sres = pmap(scale_case, sj, seed=seed)
    smax = 0.0
    for j, r in zip(sj, sres):
        if r["exc"]:
            rep.add(Violation(f"PowerLawSD|unit-scale|{j[0]}|cutoff-{4.0 * j[3]:g}|exception", f"{j}: {r['exc']}", {"kind": "scale", "args": list(j)}))
            continue
        bad = [x for x in r["recs"] if not x[1] <= SCALE_TOL]
        if bad:
            rep.add(Violation(f"PowerLawSD|unit-scale|{j[0]}|cutoff-{4.0 * j[3]:g}|cells-differ-from-the-same-bath-in-units-of-order-one",
                              f"zeta={j[1]} T={j[2]}*s cutoff=4*s, times/s with s={j[3]:g}: {len(bad)} of {len(r['recs'])} cells differ, "
                              f"worst {max(x[1] for x in bad):.1e} relative ({bad[0][0]}); {r['nwarn']} scipy IntegrationWarnings",
                              {"kind": "scale", "args": list(j)}))
        else:
            smax = max(smax, max(x[1] for x in r["recs"]))
    gj = [(0.25, wc_, t_) for wc_ in (1.0, 5.0) for t_ in (40.0, 150.0, 300.0, 400.0)]
    gres = pmap(longtime_case, gj, seed=seed)
    for j, r in zip(gj, gres):
        for part in ("eta_re", "eta_im", "c"):
            if not r[part] <= LONG_TOL:
                rep.add(Violation(f"PowerLawSD|long-times|hard|T=0|{part.replace('_', '-')}-differs-from-closed-form",
                                  f"alpha={j[0]} wc={j[1]} t={j[2]}: {part} off by {r[part]:.1e} relative",
                                  {"kind": "longtime", "args": list(j)}))
    qj = [(a_, z, e_) for a_ in (1e-3, 1e-2, 0.25) for z in (1.0, 3.0) for e_ in (1e-5, 1e-7)]
    qres_ = pmap(loose_case, qj, seed=seed)
    for j, r in zip(qj, qres_):
        if r["worst"] > max(LOOSE_TOL, 200 * j[2]):
            rep.add(Violation("PowerLawSD|caller-epsrel|exponential|T=0|cells-differ-from-closed-form",
                              f"alpha={j[0]} zeta={j[1]} epsrel={j[2]}: {r['where']} off by {r['worst']:.1e} relative",
                              {"kind": "loose", "args": list(j)}))
    lj = [(z, wc, lo, lo + 6) for z in (1.0, 3.0, 0.5) for wc in (1.0, 4.0)
          for lo in (range(50, 122, 6) if tier == "thorough" else (70, 76))]
    lres = pmap(lattice_case, lj, seed=seed)
    for j, r in zip(lj, lres):
        if r["worst"] > LATTICE_TOL:
            rep.add(Violation("PowerLawSD|eta-on-the-time-lattice|exponential|T=0|differs-from-closed-form",
                              f"zeta={j[0]} wc={j[1]}: eta({r['where'][0]}/{r['where'][1]}) off by {r['worst']:.1e} relative",
                              {"kind": "lattice", "args": list(j)}))
    cases, mats = build_cases(tier)
    res = pmap(eval_case, cases, chunksize=1, seed=seed)
    mres = pmap(eval_matsubara, mats, chunksize=1, seed=seed)
    probes = pmap(probe, [(z, t, d) for z in (0.25, 0.5) for t in (1.0, 50.0) for d in (0.01, 0.002)], chunksize=1, seed=seed)

    nontrivial = set()
    n_eval = 0
    worst = {}          # check -> (ratio, what)   (passing comparisons only: the head-room actually available)
    calib = {"smooth": {"max_dev_over_sum_eta": 0.0, "max_abs_dev": 0.0, "max_dev_over_tol": 0.0},
             "zeta<1,T>0": {"max_dev_over_sum_eta": 0.0, "max_abs_dev": 0.0, "max_dev_over_tol": 0.0}}
    min_active = 1e300
    guard, mguard = {}, {}
    selfcheck = 0.0
    nwarn = 0
    cpu = 0.0
    tri1 = {"documented": 0, "eta-difference": 0, "neither": 0}
    n_affected = 0
    by_key = {}
    for c, r in list(zip(cases, res)) + list(zip(mats, mres)):
        is_m = "N" in c
        ob = c["ob"]
        for cls, what, rp in judge(c, r, matsubara=is_m):
            rep.add(Violation(cls, what, rp))
        n_eval += len(r["recs"])
        nwarn += r.get("n_warnings", 0)
        cpu += r.get("cpu", 0.0)
        info = r["info"]
        selfcheck = max(selfcheck, info.get("selfcheck", 0.0))
        tag = f"{ob_key(ob)} {'N=%d' % c['N'] if is_m else 'dt=%g' % c['dt']}"
        aff = set(info.get("affected_by_guard", []))
        n_affected += len(aff)
        for check, name, dev, tol, v, ref in r["recs"]:
            if (("kms:" + name) if check == "matsubara-kms" else name) in aff and check.startswith("matsubara"):
                continue        # the known overflow-guard defect is materially present in this comparison
            if tol > 0 and dev <= tol and dev / tol > worst.get(check, (0.0, ""))[0]:
                worst[check] = (dev / tol, f"{tag} {name}")
        if r["exc"]:
            continue
        temp = temperature(ob["T"], ob["wc"])
        nu = noise_unit(ob, temp)
        bad = {(ch, n) for ch, n, dev, tol, v, ref in r["recs"] if not dev <= tol}
        cb = calib["smooth" if nu == 0.0 else "zeta<1,T>0"]
        tolf = tol_fn(ob, temp)
        for check, name, dev, s, nt in info.get("stats", []):
            if (check, name) in bad:
                continue
            cb["max_dev_over_sum_eta"] = max(cb["max_dev_over_sum_eta"], dev / s)
            cb["max_abs_dev"] = max(cb["max_abs_dev"], dev)
            cb["max_dev_over_tol"] = max(cb["max_dev_over_tol"], dev / tolf(s, nt))
        for name, a in info.get("active", {}).items():
            if a >= ACTIVE:
                nontrivial.add((ob_key(ob), "M%d" % c["N"] if is_m else c["dt"], name))
                min_active = min(min_active, a)
        if is_m:
            if ob["cls"] == "PowerLawSD":
                g = mguard.setdefault(ob["T"], 0.0)
                mguard[ob["T"]] = max(g, info["guard_drop_fraction_of_D(beta)"])
            continue
        by_key[(ob_key(ob), c["dt"])] = info["vals"]
        if "guard_else_weight" in info and ob["cls"] == "PowerLawSD":
            g = guard.setdefault(ob["T"], {"max_weight": 0.0, "max_weight_below_wc": 0.0})
            g["max_weight"] = max(g["max_weight"], info["guard_else_weight"])
            g["max_weight_below_wc"] = max(g["max_weight_below_wc"], info["guard_else_weight_below_wc"])
        t1bad = ("spectral", "tri@1") in bad
        tri1["documented" if not t1bad else ("eta-difference" if info.get("tri@1_equals_eta_difference") else "neither")] += 1

    # ---- class agreement: CustomSD(power-law j) against PowerLawSD, value by value
    n_class = 0
    max_class = 0.0
    for (key, dt), vals in by_key.items():
        if key[0] != "CustomSD":
            continue
        twin = by_key.get((("PowerLawSD",) + key[1:], dt))
        if twin is None:
            continue
        ob = dict(zip(("cls", "ctype", "zeta", "T", "wc", "alpha"), key))
        temp = temperature(ob["T"], ob["wc"])
        scale = max(abs(complex(*twin[n])) for n in twin)
        tol = tol_fn(ob, temp)(scale, 4)
        for n in vals:
            n_class += 1
            d = abs(complex(*vals[n]) - complex(*twin[n]))
            max_class = max(max_class, d / tol)
            if not d <= tol:
                rep.add(Violation(f"CustomSD|{ob['ctype']}|{tclass(temp)}|{shape_class(n)}|class-agreement-mismatch",
                                  f"{key} dt={dt} {n}: CustomSD {vals[n]} vs PowerLawSD {twin[n]}",
                                  {"kind": "class", "ob": ob, "dt": dt, "cell": n}))
    n_eval += n_class

    maxq = max([q for q, _ in worst.values()] + [max_class, 0.0])
    print(f"[C12] worker cpu {cpu:.0f} s", file=sys.stderr)
    rep.coverage = {
        "evaluations": n_eval + sum(len(r["recs"]) for r in wres),
        "long_time_family": {"cases": len(gj), "worst": max(max(r.values()) for r in gres), "tolerance": LONG_TOL},
        "caller_epsrel_family": {"cases": len(qj), "worst_relative_deviation": max(r["worst"] for r in qres_), "tolerance": LOOSE_TOL},
        "time_lattice_family": {"points": sum(r["points"] for r in lres), "tolerance": LATTICE_TOL,
                                "points_off_by_more_than_1e-8_relative": sum(r["above_1e-8"] for r in lres),
                                "worst_relative_deviation": max(r["worst"] for r in lres)},
        "unit_scale_family": {"cases": len(sj), "scales": SCALES, "max_rel_dev_passing": smax, "tolerance": SCALE_TOL},
        "finite_support_custom_correlations": {"cases": len(wj), "max_dev_over_C0dt2": wmax, "tolerance": WINDOW_TOL},
        "objects": len(objects(tier)),
        "object_x_dt_cases": len(cases), "matsubara_cases": len(mats),
        "distinct_nontrivial": len(nontrivial),
        "rule": "objects = full product class{PowerLawSD, CustomSD(same j)} x cut-off{exponential,gaussian,hard} x zeta x "
                "T{0, 0.02wc (guard crossover below wc), 0.14wc (crossover in the tail), 1, 50} x wc{1,4} x alpha, plus "
                "CustomSD with a resonance j (cut-off x T x wc), CustomCorrelations fed the T=0 closed form (zeta x wc x alpha) "
                "and a single-mode correlation callable (T x wc); each object x dt{0.3,0.05} x cells{triangle, squares "
                "k=1..3, rectangles widths 0.5/1/2.5 dt at k=1,3, triangle at time_1=dt} x checks{spectral oracle, "
                "integration of own correlation(), closed form, tilings n=2..4, symmetry, positivity, class agreement}; "
                "Matsubara: (PowerLawSD, resonance) objects with T>0 x N steps x cells k=0..N-1 and C at 0, beta/4, beta/2, "
                "3beta/4, beta. evaluations = individual comparisons. A case (object, dt or N, cell) is non-trivial iff "
                "|exact cell| >= 30 x its tolerance (so a factor-2 error in that cell is a >= 30-tolerance effect; for the "
                "positioned triangle: the two candidate semantics differ by >= 30 tol); distinct by (object, dt|N, cell)",
        "samples": [cases[0], cases[211 % len(cases)], mats[0]],
        "exhaustive": True,
        "max_dev": maxq, "tolerance": 1.0, "max_dev_over_tol": maxq,
        "tolerance_rule": f"every comparison has its own tolerance: cells C*epsrel*S + 4*epsabs*n, S = sum|eta| over the n "
                          f"corner times, C = {C_SMOOTH:g} (C = {C_SUB:g} plus {C_NOISE:g}*epsrel*T*2alpha*wc^(1-zeta)*n for power "
                          f"laws with zeta<1 at T>0); C(tau): {C_POINT:g}*epsrel*C(0) + 4*epsabs; epsrel = 2^-26 and epsabs = "
                          "1.49e-8 are the tolerances the library passes to QUADPACK. max_dev is the largest deviation of a "
                          "passing comparison in units of its own tolerance (so tolerance = 1); Matsubara comparisons in "
                          "which dropping exp(-w(beta-tau)) above w = 36.04 T changes the exact value by more than 1% of the "
                          "tolerance AND the library value is closer to that guard model than to the exact value are left "
                          "out of this head-room statistic (they fail, or pass with a partial effect of that defect)",
        "matsubara_comparisons_materially_affected_by_overflow_guard": n_affected,
        "worst_passing_ratio_per_check": {k: {"dev_over_tol": v[0], "case": v[1]} for k, v in sorted(worst.items())},
        "calibration_real_time_cells": calib,
        "class_agreement": {"comparisons": n_class, "max_dev_over_tol": max_class},
        "min_active_ratio_of_nontrivial": min_active,
        "guard_else_branch_weight_in_triangle": guard,
        "matsubara_guard_dropped_fraction_of_D(beta)": mguard,
        "positioned_triangle_semantics": tri1,
        "oracle_selfcheck_max_rel_change_on_panel_doubling": selfcheck,
        "library_integration_warnings": nwarn,
        "accuracy_probe_outside_alphabet": probes,
    }
    rep.assumptions = [
        "oracle: own frequency-space Gauss-Legendre quadrature (props/c12_oracle.py) with exact cell kernels; validated "
        "against the T=0 exponential closed forms (<= 6e-13 relative) and by panel doubling (reported)",
        "only the default quadrature tolerance epsrel = 2^-26 of the library is exercised",
        "tolerances are scaled with |eta| at the corner times, because the library forms cells as differences of eta, plus "
        "QUADPACK's default absolute tolerance which the library leaves in force; for zeta < 1 and T > 0 the library "
        "reaches only 1e-7..2e-6 relative accuracy (IntegrationWarning) and a wider constant is used; zeta < 0.5 and "
        "dt < 0.05 are outside the alphabet (accuracy_probe_outside_alphabet reports what happens there, unjudged)",
        "Matsubara 2D integrals are the analytic continuation eta(-i tau) = - int int D (measure (-i)^2), D(tau) = C(-i tau); "
        "they are only defined for T > 0 (the library raises for T = 0)",
        "C(-tau) = conj C(tau) is a property of the user's callable for CustomCorrelations; checked for the callables used",
    ]
    return rep


def replay(rp):
    kind = rp["kind"]
    ob = rp.get("ob")
    if kind == "longtime":
        r = longtime_case(tuple(rp["args"]))
        badp = [p_ for p_ in ("eta_re", "eta_im", "c") if not r[p_] <= LONG_TOL]
        return {"obs": r, "violation": f"PowerLawSD|long-times|hard|T=0|{badp[0].replace('_', '-')}-differs-from-closed-form" if badp else None}
    if kind == "loose":
        j = rp["args"]
        r = loose_case(tuple(j))
        return {"obs": r, "violation": "PowerLawSD|caller-epsrel|exponential|T=0|cells-differ-from-closed-form"
                if r["worst"] > max(LOOSE_TOL, 200 * j[2]) else None}
    if kind == "lattice":
        r = lattice_case(tuple(rp["args"]))
        return {"obs": r, "violation": "PowerLawSD|eta-on-the-time-lattice|exponential|T=0|differs-from-closed-form"
                if r["worst"] > LATTICE_TOL else None}
    if kind == "scale":
        j = rp["args"]
        r = scale_case(tuple(j))
        bad = [x for x in r["recs"] if not x[1] <= SCALE_TOL]
        v = None
        if r["exc"]:
            v = f"PowerLawSD|unit-scale|{j[0]}|cutoff-{4.0 * j[3]:g}|exception"
        elif bad:
            v = f"PowerLawSD|unit-scale|{j[0]}|cutoff-{4.0 * j[3]:g}|cells-differ-from-the-same-bath-in-units-of-order-one"
        return {"obs": [len(bad), r["nwarn"]], "violation": v}
    if kind == "window":
        r = window_case(tuple(rp["args"]))
        bad = [x for x in r["recs"] if x[1] > WINDOW_TOL]
        v = None
        if r["exc"]:
            v = "CustomCorrelations-finite-support|exception"
        elif bad:
            name, dev, idev, isize = bad[0]
            part = "imaginary-part-missing" if isize > 10 * WINDOW_TOL and abs(idev - isize) < 1e-3 * isize else "wrong-value"
            v = f"CustomCorrelations-finite-support|{shape_class(name)}|{part}"
        return {"obs": [list(map(str, b)) for b in bad[:3]], "violation": v}
    if kind == "class":
        a = eval_case({"ob": ob, "dt": rp["dt"], "selfint": False})
        b = eval_case({"ob": dict(ob, cls="PowerLawSD"), "dt": rp["dt"], "selfint": False})
        temp = temperature(ob["T"], ob["wc"])
        va, vb = a["info"]["vals"], b["info"]["vals"]
        scale = max(abs(complex(*vb[n])) for n in vb)
        n = rp["cell"]
        d = abs(complex(*va[n]) - complex(*vb[n]))
        bad = not d <= tol_fn(ob, temp)(scale, 4)
        return {"obs": {"CustomSD": va[n], "PowerLawSD": vb[n]},
                "violation": f"CustomSD|{ob['ctype']}|{tclass(temp)}|{shape_class(n)}|class-agreement-mismatch" if bad else None}
    if kind == "matsubara":
        case = {"ob": ob, "N": rp["N"]}
        r = eval_matsubara(case)
        vs = judge(case, r, matsubara=True)
    else:
        case = {"ob": ob, "dt": rp["dt"], "selfint": rp.get("check") == "selfint"}
        r = eval_case(case)
        vs = judge(case, r)
    hit = [v for v in vs if v[2]["check"] == rp.get("check") and v[2]["cell"] == rp.get("cell")] or vs
    obs = [(c, n, v, ref) for c, n, dev, tol, v, ref in r["recs"] if c == rp.get("check") and n == rp.get("cell")]
    return {"obs": {"exc": r["exc"], "records": obs, "violations": [h[0] for h in hit[:5]]},
            "violation": hit[0][0] if hit else None}
