"""C05  Results are basis-covariant and every Hermitian coupling operator is accepted.

Two exhaustive products, both run against the real library:

(a) Bath level (dimension 2..5).  Every eigenvalue multiset of size 2..5 over the alphabet {-1, 0, 1, 2}
    (all patterns of repeated / zero eigenvalues) x scale {1, 0.37} x every unitary of a fixed family
    {identity, cyclic permutation, real rotation, sparse complex Givens, DFT, two generic complex unitaries}:
    Bath(V diag(ev) V^dagger) must be accepted, and the reported transform U and diagonal operator D must
    satisfy  U^dagger U = 1,  D diagonal with real entries equal to the eigenvalue multiset,  U D U^dagger = O,
    coupling_comm/acomm = (o_i - o_j), (o_i + o_j) in row-major order;  all to 1e-10.

(b) Dynamics (metamorphic).  For eigenvalue multisets with every kind of repetition (d = 2..4), every unitary
    V of the family, every method (TEMPO, PT-TEMPO + compute_dynamics, MeanFieldTempo), every system
    (constant H, H + Lindblad terms, time dependent H(t), gamma(t), A(t); two field-dependent systems), every
    initial state (mixed, pure) and every memory setting:  run(V H V^dagger, V O V^dagger, V rho0 V^dagger)(t_k)
    must equal V run(H, O, rho0)(t_k) V^dagger at EVERY step k (and the mean field must be identical), up to the
    truncation error of two separately executed tensor networks (C * epsrel * N).
"""
import itertools

import numpy as np

from mc.common import Report, Violation, pmap, bind_repo
from . import c05_common as K

oq = bind_repo()
LEVEL = "exploration"

EPS = 1e-8
C_TOL = 20.0                      # tol = C_TOL * epsrel * N; measured (eigh tree, thorough): dev <= 0.4 eps (1e-8), 1.0 eps (1e-5)
BATH_TOL = 1e-10
MIN_INFLUENCE = 0.05

BATH_ALPHABET = (-1, 0, 1, 2)
BATH_SCALES = (1.0, 0.37)
DYN_EVS = [(1, -1), (1, 0, -1), (1, 1, -1), (0, 0, 1), (1, 1, 1), (2, 2, 2, -1), (1, 1, 0, 0)]
DYN_EVS_THOROUGH = [(2, 0.5, -1, -1), (1, 1, 1, 0, 0)]


def tol(eps):
    return C_TOL * eps * K.N


def ev_class(ev):
    return "repeated-ev" if len(set(ev)) < len(ev) else "simple-ev"


def op_class(op):
    off = np.abs(op - np.diag(np.diag(op))).max()
    return "nondiag" if off > 1e-9 else "diag"


# ------------------------------------------------------------------------------------------------
# (a) Bath level

def bath_case(args):
    ev, scale, vname = args
    d = len(ev)
    v = K.UNITARIES[vname](d)
    op = K.coupling(ev, v, scale)
    base = f"bath|d{d}|{op_class(op)}|{ev_class(ev)}"
    out = {"cls": None, "what": None, "devs": {}, "nondiag": op_class(op) == "nondiag"}
    try:
        b = oq.Bath(op, K.correlations())
        u = np.array(b.unitary_transform)
        dd = np.array(b.coupling_operator)
        comm = np.array(b.coupling_comm)
        acomm = np.array(b.coupling_acomm)
        dim = b.dimension
    except Exception as ex:  # noqa
        out["cls"] = f"{base}|exception:{K.exc_name(ex)}"
        out["what"] = f"Bath(V diag{ev}*{scale} V^dagger), V={vname}: {K.exc_name(ex)}: {str(ex)[:80]}"
        return out
    want = np.sort(scale * np.asarray(ev, dtype=float))
    devs = {}
    devs["shape"] = 0.0 if (u.shape == (d, d) and dd.shape == (d, d) and int(dim) == d) else 1.0
    if devs["shape"] == 0.0:
        devs["unitary"] = float(np.abs(u.conj().T @ u - np.eye(d)).max())
        diag = np.diag(dd)
        devs["offdiag"] = float(np.abs(dd - np.diag(diag)).max())
        devs["imag"] = float(np.abs(np.imag(diag)).max())
        devs["spectrum"] = float(np.abs(np.sort(np.real(diag)) - want).max())
        devs["reconstruct"] = float(np.abs(u @ dd @ u.conj().T - op).max())
        o = np.real(diag)
        devs["comm"] = float(np.abs(comm - np.subtract.outer(o, o).reshape(-1)).max()) if comm.shape == (d * d,) else 1.0
        devs["acomm"] = float(np.abs(acomm - np.add.outer(o, o).reshape(-1)).max()) if acomm.shape == (d * d,) else 1.0
    out["devs"] = devs
    sig = {"shape": "wrong-shape", "unitary": "non-unitary-transform", "offdiag": "operator-not-diagonal",
           "imag": "complex-eigenvalues", "spectrum": "wrong-eigenvalues", "reconstruct": "transform-does-not-reproduce",
           "comm": "wrong-commutator-diagonal", "acomm": "wrong-anticommutator-diagonal"}
    for k in ("shape", "unitary", "offdiag", "imag", "spectrum", "reconstruct", "comm", "acomm"):
        if devs.get(k, 0.0) > BATH_TOL:
            out["cls"] = f"{base}|{sig[k]}"
            out["what"] = (f"Bath(V diag{ev}*{scale} V^dagger), V={vname}: {sig[k]} by {devs[k]:.2e} "
                           f"(all: {', '.join(f'{a}={b_:.1e}' for a, b_ in devs.items())})")
            break
    return out


def bath_cases():
    evs = K.multisets(BATH_ALPHABET, (2, 3, 4, 5))
    return [(ev, s, vn) for ev in evs for s in BATH_SCALES for vn in K.UNITARY_ORDER]


# ------------------------------------------------------------------------------------------------
# (b) dynamics

def _compare(ref, got, v, eps):
    """-> (dev, first bad step or None, signature or None)"""
    if got["states"].shape != ref["states"].shape:
        return None, None, f"shape:{got['states'].shape}"
    dev = np.abs(K.back_rotate(got["states"], v) - ref["states"]).max(axis=(1, 2))
    if ref["fields"] is not None:
        dev = np.maximum(dev, np.abs(got["fields"] - ref["fields"]))
    # relative to the size of the compared states (1 for physical states; DESIGN sec. 2.7)
    dev = dev / max(1.0, float(np.abs(ref["states"]).max()), float(np.abs(got["states"]).max()))
    tdev = float(np.abs(got["times"] - ref["times"]).max())
    if tdev > 1e-12:
        return float(dev.max()), None, "times-differ"
    bad = dev > tol(eps)
    return float(dev.max()), (int(np.argmax(bad)) if bad.any() else None), ("state-mismatch" if bad.any() else None)


def dyn_item(item):
    """item: (method, ev, mem, unique, eps, syskind or None, statekind or None, vnames).
    For 'pt' syskind/statekind are None: the process tensors depend only on (ev, V, mem) and all systems x states
    are contracted with them.  Returns a list of per-case records."""
    method, ev, mem, unique, eps, syskind, statekind, vnames = item
    d = len(ev)
    recs = []
    if method == "pt":
        combos = [(s, st) for s in K.SYSTEMS for st in K.STATES]
    else:
        combos = [(syskind, statekind)]

    def runner(vname, inspect=False):
        v = K.UNITARIES[vname](d)
        op = K.coupling(ev, v)
        if method == "tempo":
            return {c: K.run_tempo(op, d, v, c[0], c[1], mem, unique, eps) for c in combos}
        if method == "mf":
            return {c: K.run_mf(op, d, v, c[0], c[1], mem, unique, eps) for c in combos}
        file_backed = list(K.UNITARY_ORDER).index(vname) % 3 == 2        # every third rotation: file-backed process tensor
        pt = K.build_pt(op, mem, unique, eps, file_backed)
        if file_backed:
            try:
                return {c: K.run_pt(pt, d, v, c[0], c[1]) for c in combos}
            finally:
                pt.remove()
        if inspect:
            # the user looks at the raw (eigenbasis) tensors and at the transformed ones before using the process tensor,
            # and again between uses: reading must not change what the object computes
            raw = [pt.get_mpo_tensor(k, transformed=False) for k in range(len(pt))]
            out = {}
            for i, c in enumerate(combos):
                out[c] = K.run_pt(pt, d, v, c[0], c[1])
                if i == 0:
                    [pt.get_mpo_tensor(k) for k in range(len(pt))]
                    raw2 = [pt.get_mpo_tensor(k, transformed=False) for k in range(len(pt))]
                    if any(a.shape != b.shape or not np.array_equal(a, b) for a, b in zip(raw, raw2)):
                        raise RuntimeError("raw MPO tensors read twice from one process tensor differ")
            return out
        return {c: K.run_pt(pt, d, v, c[0], c[1]) for c in combos}

    K.take_retries()
    try:
        ref = runner("id")
    except Exception as ex:  # noqa  (the run in the eigenbasis itself fails: reported, nothing to compare with)
        return [{"key": [method, list(ev), mem, unique, eps, c[0], c[1], "id"], "dev": None,
                 "cls": f"dyn|{method}|d{d}|diag|{ev_class(ev)}|exception:{K.exc_name(ex)}",
                 "what": f"reference run in the eigenbasis: {K.exc_name(ex)}: {str(ex)[:80]}", "infl": 0.0,
                 "changed": 0.0, "nondiag": False, "retries": K.take_retries()} for c in combos]
    infl = {}
    for c in combos:
        free = K.free_states(d, c[0], c[1])
        infl[c] = float(np.abs(ref[c]["states"] - free).max())
    for vname in vnames:
        v = K.UNITARIES[vname](d)
        op = K.coupling(ev, v)
        changed = float(np.abs(op - np.diag(np.asarray(ev, dtype=float))).max())
        base = f"dyn|{method}|d{d}|{op_class(op)}|{ev_class(ev)}"
        try:
            got = runner(vname, inspect=(method == "pt" and list(K.UNITARY_ORDER).index(vname) % 2 == 1))
        except Exception as ex:  # noqa
            for c in combos:
                recs.append({"key": [method, list(ev), mem, unique, eps, c[0], c[1], vname], "dev": None,
                             "cls": f"{base}|exception:{K.exc_name(ex)}",
                             "what": f"{K.exc_name(ex)}: {str(ex)[:80]}", "infl": infl[c], "changed": changed,
                             "nondiag": op_class(op) == "nondiag"})
            continue
        for c in combos:
            dev, first, sig = _compare(ref[c], got[c], v, eps)
            rec = {"key": [method, list(ev), mem, unique, eps, c[0], c[1], vname], "dev": dev, "cls": None, "what": None,
                   "infl": infl[c], "changed": changed, "nondiag": op_class(op) == "nondiag"}
            if sig is not None:
                rec["cls"] = f"{base}|{sig}"
                rec["what"] = (f"{method} ev={ev} V={vname} {c[0]}/{c[1]} mem={mem} unique={unique} epsrel={eps}: "
                               f"|V^dag rho' V - rho| = {dev if dev is None else format(dev, '.2e')} > {tol(eps):.1e}"
                               f" first at step {first}; bath influence {infl[c]:.2f}")
            recs.append(rec)
    if recs:
        recs[0]["retries"] = K.take_retries()
    return recs


def dyn_items(tier):
    vn = [x for x in K.UNITARY_ORDER if x != "id"]
    items = []
    if tier == "quick":
        cfgs = [("full", False, EPS), ("dk2+add", False, EPS), ("full", True, EPS)]
        evs = DYN_EVS
    else:
        cfgs = [(m, u, e) for m in ("full", "dk2", "dk2+add") for u in (False, True) for e in (EPS, 1e-5)]
        evs = DYN_EVS + DYN_EVS_THOROUGH
    for ev in evs:
        big = len(ev) >= 5
        for mem, unique, eps in cfgs:
            if big and mem == "full":
                continue      # d = 5 with full memory is too expensive for TEMPO; kept for the cut-off settings
            items.append(("pt", ev, mem, unique, eps, None, None, vn))
            tsys = K.SYSTEMS if (tier == "thorough" or (mem, unique) == ("full", False)) else ["H+L"]
            tst = K.STATES if (tier == "thorough" or (mem, unique) == ("full", False)) else ["mixed"]
            if big:
                tsys, tst = ["H+L"], ["mixed"]
            for s, st in itertools.product(tsys, tst):
                items.append(("tempo", ev, mem, unique, eps, s, st, vn))
            msys = K.MF_SYSTEMS if (tier == "thorough" or (mem, unique) == ("full", False)) else ["mfA"]
            if big:
                msys = ["mfA"]
            for s in msys:
                items.append(("mf", ev, mem, unique, eps, s, "mixed", vn))
    return items


# ------------------------------------------------------------------------------------------------

# ------------------------------------------------------------------------------------------------
# mean-field TEMPO with several systems, each written in its OWN basis V_k (different diagonalising transforms)

MFM = [((1.0, -1.0), (1.0, 0.0, -1.0)), ((0.0, 1.0), (1.0, 1.0, 0.0)), ((1.0, 1.0, -1.0), (0.5, -0.5), (0.0, 0.0, 1.0))]


def mf_multi_case(args):
    idx, order, mem, unique = args
    from . import models as M_
    evs = [MFM[idx][i] for i in order]

    def run(rotated):
        systems, baths, states, vs = [], [], [], []
        for k, ev in enumerate(evs):
            d = len(ev)
            v = M_.generic_unitary(d, 21 + 3 * order[k]) if rotated else np.eye(d, dtype=complex)
            rot = lambda a, v=v: v @ a @ v.conj().T
            h0, h1 = rot(M_.generic_herm(d, 3 + order[k], 0.6)), rot(M_.generic_herm(d, 5 + order[k], 0.4))
            systems.append(oq.TimeDependentSystemWithField(lambda t, a, h0=h0, h1=h1: h0 + np.real(a) * h1))
            baths.append(oq.Bath(rot(np.diag(np.array(ev, dtype=complex))),
                                 oq.PowerLawSD(alpha=0.4, zeta=1.0, cutoff=3.0, cutoff_type="exponential",
                                               temperature=0.3 + 0.2 * order[k])))
            states.append(rot(M_.generic_state(d, 2 + order[k])))
            vs.append(v)
        probes = [rot_ for rot_ in [vs[k] @ np.diag(np.arange(len(ev), dtype=complex)) @ vs[k].conj().T for k, ev in enumerate(evs)]]
        mfs = oq.MeanFieldSystem(systems, lambda t, st, a: -0.2 * a - 0.3j * sum(np.trace(p @ s) for p, s in zip(probes, st)))
        kw = {"dkmax": None} if mem == "full" else {"dkmax": 2, "add_correlation_time": 0.3}
        prm = oq.TempoParameters(dt=0.2, epsrel=EPS, subdiv_limit=None, **kw)
        for attempt in range(6):
            try:
                d_ = oq.MeanFieldTempo(mfs, baths, prm, states, 0.4 + 0.1j, start_time=0.0, unique=unique).compute(
                    5.4 * 0.2, progress_type="silent")
                break
            except np.linalg.LinAlgError:
                continue
        return [np.array(sd.states) for sd in d_.system_dynamics], np.array(d_.fields), vs
    try:
        ref, fref, _ = run(False)
        got, fgot, vs = run(True)
    except Exception as ex:  # noqa
        return {"cls": f"mf-multi|{len(evs)}-systems-own-bases|exception:{type(ex).__name__}", "what": str(ex)[:200], "dev": None,
                "move": 0.0}
    dev = np.abs(fgot - fref).max()
    for k in range(len(evs)):
        back = np.einsum("ij,tjk,kl->til", vs[k].conj().T, got[k], vs[k])
        dev = max(dev, np.abs(back - ref[k]).max())
    move = max(np.abs(s_ - s_[0]).max() for s_ in ref)
    cls = None
    if dev > tol(EPS):
        cls = f"mf-multi|{len(evs)}-systems-own-bases|{mem}|unique={unique}|state-mismatch"
    return {"cls": cls, "what": f"couplings {evs}, every system in its own basis: V_k^dag rho'_k V_k differs from rho_k by {dev:.2e}",
            "dev": float(dev), "move": float(move)}


def mf_multi_cases():
    out = []
    for idx, evs in enumerate(MFM):
        for order in itertools.permutations(range(len(evs))):
            for mem in ("full", "dkmax2+tau"):
                for unique in (False, True):
                    out.append((idx, order, mem, unique))
    return out


# ------------------------------------------------------------------------------------------------
# parameters the library chooses itself (guess_tempo_parameters / tempo_compute without parameters) must not depend
# on the basis either: same dt, dkmax, epsrel for (V H V^dag, V A V^dag, V O V^dag) as for (H, A, O)

def guess_case(args):
    d, syskind, vname = args
    import warnings
    v = K.UNITARIES[vname](d)
    ev = np.linspace(1.0, -1.0, d)
    h = np.diag(np.linspace(9.0, -4.0, d)).astype(complex)          # fast system: its frequency limits dt
    h[0, d - 1] = h[d - 1, 0] = 2.5
    lo = np.diag(np.sqrt(np.arange(1, d)), 1).astype(complex)
    bad = []

    def guess(vv):
        bath = oq.Bath(K.conj(vv, np.diag(ev).astype(complex)), K.correlations())
        if syskind == "H":
            sysm = oq.System(K.conj(vv, h))
        elif syskind == "H+L":
            sysm = oq.System(K.conj(vv, 0.2 * h), gammas=[30.0], lindblad_operators=[K.conj(vv, lo)])
        else:
            sysm = oq.TimeDependentSystem(lambda t: K.conj(vv, h) * (1 + 0.3 * np.cos(t)))
        with warnings.catch_warnings():
            warnings.simplefilter("ignore")
            p_ = oq.guess_tempo_parameters(bath, 0.0, 2.0, system=sysm, tolerance=1e-2)
            q_ = oq.guess_tempo_parameters(bath, 0.0, 2.0, tolerance=1e-2)
        return (p_.dt, p_.dkmax, p_.epsrel), q_.dt
    try:
        ref, bath_dt = guess(np.eye(d, dtype=complex))
        got, _ = guess(v)
    except Exception as ex:  # noqa
        return {"bad": [(f"guess|{syskind}|exception:{K.exc_name(ex)}", str(ex)[:120])], "limited": False}
    limited = ref[0] < bath_dt * (1 - 1e-9)
    if abs(got[0] - ref[0]) > 1e-9 * ref[0] or got[1] != ref[1] or abs(got[2] - ref[2]) > 1e-9 * ref[2]:
        bad.append((f"guess|{syskind}|d{d}|parameters-depend-on-the-basis",
                    f"d={d} system={syskind} V={vname}: (dt, dkmax, epsrel) = {got} in the rotated basis, {ref} in the eigenbasis"))
    return {"bad": bad, "limited": bool(limited)}


def run(tier, seed):
    rep = Report(LEVEL)
    gj = [(d, sk, vn) for d in (2, 3, 4) for sk in ("H", "H+L", "H(t)") for vn in K.UNITARY_ORDER if vn != "id"]
    gres = pmap(guess_case, gj, seed=seed)
    for j, r in zip(gj, gres):
        for cls, what in r["bad"]:
            rep.add(Violation(cls, what, {"part": "guess", "args": list(j)}))
    mmc = mf_multi_cases()
    mmr = pmap(mf_multi_case, mmc, seed=seed)
    mm_max = 0.0
    for c, r in zip(mmc, mmr):
        if r["cls"]:
            rep.add(Violation(r["cls"], r["what"], {"part": "mfmulti", "args": [c[0], list(c[1]), c[2], c[3]]}))
        elif r["dev"] is not None:
            mm_max = max(mm_max, r["dev"])
    bcases = bath_cases()
    bres = pmap(bath_case, bcases, seed=seed)
    bath_keys = set()
    bath_max = 0.0
    for c, r in zip(bcases, bres):
        if r["cls"]:
            rep.add(Violation(r["cls"], r["what"], {"part": "bath", "ev": list(c[0]), "scale": c[1], "V": c[2]}))
        if r["devs"]:
            bath_max = max(bath_max, max(r["devs"].values()))
        if r["nondiag"]:
            bath_keys.add((c[0], c[1], c[2]))
    bath_nd_rep = sum(1 for (ev, s, vn) in bath_keys if len(set(ev)) < len(ev))

    items = dyn_items(tier)
    # most expensive first (largest dimension, full memory) so that the pool drains evenly
    order = sorted(range(len(items)), key=lambda i: (-len(items[i][1]), items[i][2] != "full", i))
    res_sorted = pmap(dyn_item, [items[i] for i in order], chunksize=1, seed=seed)
    res = [None] * len(items)
    for i, r in zip(order, res_sorted):
        res[i] = r
    n_eval = 0
    keys = set()
    maxdev = {}
    min_infl = None
    trivial = 0
    retries = 0
    for it, recs in zip(items, res):
        for r in recs:
            n_eval += 1
            retries += r.get("retries", 0)
            eps = r["key"][4]
            if r["cls"]:
                rp = {"part": "dyn", "key": r["key"]}
                rep.add(Violation(r["cls"], r["what"], rp))
            if r["dev"] is not None and not (r["cls"] or "").endswith("state-mismatch"):
                maxdev[eps] = max(maxdev.get(eps, 0.0), r["dev"])
            if r["infl"] > MIN_INFLUENCE and r["changed"] > 1e-3:
                keys.add(tuple(map(str, r["key"])))
                min_infl = r["infl"] if min_infl is None else min(min_infl, r["infl"])
            else:
                trivial += 1
    worst = max((m / tol(e) for e, m in maxdev.items()), default=0.0)
    flat = [r for recs in res for r in recs if r["infl"] > MIN_INFLUENCE and r["changed"] > 1e-3] or \
        [r for recs in res for r in recs]
    samples = [{"key": r["key"], "dev": r["dev"], "bath_influence": r["infl"], "violation": r["cls"]}
               for r in (flat[0], flat[len(flat) // 2], flat[-1])]
    rep.coverage = {
        "evaluations": len(bcases) + n_eval + len(mmc) + len(gj),
        "guessed_parameter_cases": {"cases": len(gj), "system_frequency_limits_dt": sum(1 for r in gres if r["limited"])},
        "mean_field_multi_system_own_bases": {"cases": len(mmc), "max_dev": mm_max,
                                              "rule": "2-3 systems, each in its own generic basis, all orders x memory x unique"},
        "distinct_nontrivial": len(bath_keys) + len(keys),
        "bath_level": {"cases": len(bcases), "nondiagonal": len(bath_keys),
                       "nondiagonal_with_repeated_eigenvalue": bath_nd_rep,
                       "max_dev_accepted": bath_max, "tolerance": BATH_TOL,
                       "alphabet": list(BATH_ALPHABET), "scales": list(BATH_SCALES), "dims": [2, 3, 4, 5],
                       "unitaries": K.UNITARY_ORDER},
        "dynamics": {"cases": n_eval, "nontrivial": len(keys), "trivial": trivial,
                     "worker_items": len(items), "multisets": [list(e) for e in (DYN_EVS if tier == "quick" else DYN_EVS + DYN_EVS_THOROUGH)],
                     "steps_compared_per_case": K.N + 1},
        "rule": "bath level: all multisets of size 2..5 over {-1,0,1,2} x scale x 7 unitaries, non-trivial iff the "
                "operator handed to Bath is really non-diagonal (key: multiset, scale, unitary); dynamics: multisets x 6 "
                "non-identity unitaries x methods x systems x states x (memory, unique, epsrel) settings, every step "
                "compared with the back-rotated run in the eigenbasis; non-trivial iff the unitary changes the coupling "
                "operator by > 1e-3 and the bath moves the reference state by > 0.05 w.r.t. the bath-free evolution "
                "(key: full parameter tuple)",
        "samples": samples,
        "exhaustive": True,
        "max_dev": maxdev.get(EPS, 0.0),
        "max_dev_by_epsrel": {str(e): m for e, m in sorted(maxdev.items())},
        "tolerance": tol(EPS),
        "tolerance_rule": f"{C_TOL} * epsrel * {K.N} steps",
        "max_dev_over_tol": worst,
        "min_bath_influence_nontrivial": min_infl,
        "min_influence_required": MIN_INFLUENCE,
        "diagnostic_lapack_svd_retries": retries,
    }
    rep.assumptions = [
        "metamorphic oracle: the reference of every dynamics case is the library's own run in the eigenbasis of the "
        "coupling operator (identity transform); errors common to both runs are the business of C01/C02",
        "max_dev excludes cases already reported as state-mismatch (it is the measured noise floor of passing cases)",
        "the unitary family is fixed and deterministic (two 'generic' members stand in for Haar-random ones); no claim "
        "for other unitaries or eigenvalues",
        "LinAlgError('SVD did not converge') raised by LAPACK gesdd inside tensornetwork is input-bit dependent (the same "
        "call fails in about 1 of 4 executions for some degenerate operators with unique=False); such a run is retried "
        f"up to {K.SVD_RETRIES} times and only a persistent failure is reported; the number of retries of a run is the "
        "only coverage entry that is not reproducible (diagnostic_lapack_svd_retries)",
        "dimension 5 is decided at the Bath level in both tiers and for the dynamics in the thorough tier (cut-off "
        "memory settings only)",
    ]
    return rep


def replay(rp):
    if isinstance(rp, dict) and rp.get("part") == "guess":
        r = guess_case(tuple(rp["args"]))
        return {"obs": r["bad"], "violation": r["bad"][0][0] if r["bad"] else None}
    if rp.get("part") == "mfmulti":
        a = rp["args"]
        r = mf_multi_case((a[0], tuple(a[1]), a[2], a[3]))
        return {"obs": {"dev": None if r["dev"] is None else round(r["dev"], 10)}, "violation": r["cls"]}
    if rp["part"] == "bath":
        r = bath_case((tuple(rp["ev"]), rp["scale"], rp["V"]))
        return {"obs": {"devs": {k: round(v, 12) for k, v in r["devs"].items()}, "what": r["what"] and r["cls"]},
                "violation": r["cls"]}
    method, ev, mem, unique, eps, s, st, vname = rp["key"]
    item = (method, tuple(ev), mem, unique, eps, None if method == "pt" else s, None if method == "pt" else st, [vname])
    recs = dyn_item(item)
    for r in recs:
        if r["key"][5] == s and r["key"][6] == st:
            obs = {"dev": None if r["dev"] is None else float(f"{r['dev']:.3e}"), "cls": r["cls"]}
            if r["dev"] is not None and r["dev"] <= tol(eps):
                obs["dev"] = "<=tol"
            return {"obs": obs, "violation": r["cls"]}
    return {"obs": "case not found", "violation": None}
