"""C11  The Gibbs-state computation returns the exact reduced thermal state.

Bounded exhaustive exploration: the full Cartesian product of small alphabets is driven through the real
GibbsTempo / gibbs_tempo_compute and every returned state is compared with an independent oracle.

 A  commuting family (exact oracle).  [H, O] = 0, O diagonal (all degeneracy patterns of d = 2..4 that matter:
    non-degenerate, +-pairs, adjacent / non-adjacent / two repeated eigenvalues), H diagonal or non-diagonal (real and
    complex) inside the degenerate blocks of O.  Oracle: rho = exp(-(H - lambda O^2)/T)/Z with the reorganisation
    energy lambda = int J(w)/w dw from my own quadrature of my own J (cross-checked with closed forms), for EVERY number
    of imaginary-time steps and every epsrel.
 B  zero coupling (exact oracle).  alpha = 0 or O = 0, arbitrary Hermitian H (real symmetric / complex, d = 2..4):
    rho = expm(-H/T)/Z to 1e-12.
 C  weak coupling (limit oracle).  alpha in {1e-6, 1e-4, 1e-3, 1e-2}: |rho(alpha) - expm(-H/T)/Z| <= C_W * x(alpha)
    with x = lambda(alpha) max(o^2) / T (the size of the bath exponent) and strictly decreasing with alpha.
 D  finite coupling, non-commuting H: the result is a normalised, Hermitian, positive matrix (monitor; the same monitor
    runs on every state of A, B, C, E).  Informational only (never a violation): distance to an independent evaluation
    of the discretised imaginary-time path sum.
 E  histories.  compute^k . get_state for k = 1..3 on one object and on fresh objects, get_dynamics, the
    gibbs_tempo_compute shortcut: always the same state, n_steps + 1 recorded points, last time 1/T.

There are no random choices; the seed only rotates the order in which shards are handed to the workers."""
import itertools

import numpy as np
import scipy.integrate as si
import scipy.linalg as sl

from mc.common import Report, Violation, pmap, bind_repo
from . import models as M

oq = bind_repo()
LEVEL = "exploration"

# --------------------------------------------------------------------------------------------------------------------
# tolerances (measured on the tree with the two C11 defects repaired in a scratch copy, see the final report / evidence)
QUAD_TOL = 2.0 ** -26  # the library's fixed quadrature tolerance for its eta function (oqupy.config.INTEGRATE_EPSREL)
TOL_A = 2e-7           # commuting family: quadrature floor (the library's eta(beta)); + C_EPS * epsrel, because the
#                        truncation removes components (populations) of relative weight < epsrel
TOL_B = 1e-12          # zero coupling: no quadrature; + C_B * epsrel (truncation of the free-propagator network)
C_B = 1.0
C_W = 10.0             # weak coupling: |rho - rho_can| <= C_W * lambda o_max^2 / T + C_EPS * epsrel
C_EPS = 100.0          # truncation-limited state comparisons: C_EPS * epsrel (measured <= 1.8 * epsrel; the truncation
#                        may remove up to d-1 populations of relative weight < epsrel)
C_PHYS = 300.0         # Hermiticity (measured <= 6.5 * epsrel) / positivity / reality: C_PHYS * epsrel
MODEL_TOL = 1e-6       # naming only: the guard-defect model reproduces the unrepaired tree to <= 2.3e-7 (measured)
TOL_ID = 1e-13         # repeated compute() must not change anything
TOL_TRACE = 1e-12


def tol_a(eps):
    return TOL_A + C_EPS * eps


def tol_b(eps):
    return TOL_B + C_B * eps


INFL_MIN = 0.05        # a case is non-trivial if the bath moves the exact state by more than this
EPS_MACH = np.finfo(float).eps


# --------------------------------------------------------------------------------------------------------------------
# spectral densities: library object + my own J(w) (written from the documented formulas, not read from the object)

SDS = {
    # name: (kind, zeta, cutoff, cutoff type)
    "ohmic-exp": ("powerlaw", 1.0, 3.0, "exponential"),
    "superohmic-gauss": ("powerlaw", 3.0, 4.0, "gaussian"),
    "subohmic-hard": ("powerlaw", 0.5, 1.5, "hard"),
    "custom-drude-hard": ("custom", 2.0, 40.0, "hard"),       # J = 2 alpha w / (1 + (w/gamma)^2), gamma = zeta slot
    "ohmic-exp-wc10": ("powerlaw", 1.0, 10.0, "exponential"),
    "superohmic-exp": ("powerlaw", 2.0, 2.0, "exponential"),
}


def lib_sd(name, alpha, temp):
    kind, zeta, wc, ct = SDS[name]
    if kind == "powerlaw":
        return oq.PowerLawSD(alpha=alpha, zeta=zeta, cutoff=wc, cutoff_type=ct, temperature=temp)
    gamma = zeta
    return oq.CustomSD(lambda w: 2.0 * alpha * w / (1.0 + (w / gamma) ** 2), cutoff=wc, cutoff_type=ct,
                       temperature=temp)


def own_j(name, alpha):
    """returns (J, upper integration limit)"""
    kind, zeta, wc, ct = SDS[name]
    if kind == "custom":
        gamma = zeta
        return (lambda w: 2.0 * alpha * w / (1.0 + (w / gamma) ** 2)), wc
    pref = 2.0 * alpha / wc ** (zeta - 1.0)
    if ct == "exponential":
        return (lambda w: pref * w ** zeta * np.exp(-w / wc)), np.inf
    if ct == "gaussian":
        return (lambda w: pref * w ** zeta * np.exp(-(w / wc) ** 2)), np.inf
    return (lambda w: pref * w ** zeta), wc


def closed_lambda(name, alpha):
    import math
    kind, zeta, wc, ct = SDS[name]
    if kind == "custom":
        return 2.0 * alpha * zeta * math.atan(wc / zeta)
    if ct == "exponential":
        return 2.0 * alpha * wc * math.gamma(zeta)
    if ct == "gaussian":
        return alpha * wc * math.gamma(zeta / 2.0)
    return 2.0 * alpha * wc / zeta


_LAM = {}


def reorganisation(name, alpha):
    """lambda = int_0^inf J(w)/w dw by quadrature in u = sqrt(w) (regular for every zeta > 0), cross-checked."""
    key = (name, alpha)
    if key not in _LAM:
        if alpha == 0.0:
            _LAM[key] = 0.0
            return 0.0
        j, up = own_j(name, alpha)
        wc = SDS[name][2]

        def g(u):
            return 2.0 * j(u * u) / u
        a = si.quad(g, 0.0, np.sqrt(min(wc, up)), epsabs=0, epsrel=1e-13, limit=400)[0]
        if up > wc:
            a += si.quad(lambda w: j(w) / w, wc, up, epsabs=0, epsrel=1e-13, limit=400)[0]
        c = closed_lambda(name, alpha)
        if abs(a - c) > 1e-9 * abs(c):
            raise RuntimeError(f"harness: reorganisation energy {name}: quadrature {a} vs closed form {c}")
        _LAM[key] = a
    return _LAM[key]


def guard_missing(name, alpha, temp):
    """Defect model (used only to NAME a failure): the Matsubara eta function of the library drops, for frequencies with
    exp(-w/T) <= machine epsilon, the term exp(-(beta - tau) w), which equals 1 at tau = beta.  Then
    eta(beta) = beta*lambda - int_{w_g}^{inf} J/w^2 dw."""
    if alpha == 0.0:
        return 0.0
    j, up = own_j(name, alpha)
    wg = -temp * np.log(EPS_MACH)
    if wg >= up:
        return 0.0
    return si.quad(lambda w: j(w) / w ** 2, wg, up, epsabs=0, epsrel=1e-10, limit=400)[0]


# --------------------------------------------------------------------------------------------------------------------
# operators and Hamiltonians (all fixed, simplest first)

O_COMM = [(1, -1), (1, 0), (1, 0, -1), (1, 1, 0), (1, 0, 1), (2, 1, 0, -1), (1, 1, 0, 0)]
ENERGIES = {2: [0.5, -0.5], 3: [0.3, -0.1, 0.5], 4: [0.3, -0.1, 0.5, 0.0]}


def blocks(o):
    out = {}
    for i, v in enumerate(o):
        out.setdefault(v, []).append(i)
    return [ix for ix in out.values() if len(ix) > 1]


def commuting_h(o, hk):
    d = len(o)
    h = np.diag(ENERGIES[d]).astype(complex)
    if hk == "diag":
        return h
    v = {"block-real": 0.4, "block-complex": 0.25 + 0.3j}[hk]
    for k, ix in enumerate(blocks(o)):
        i, j = ix[0], ix[1]
        h[i, j] = v * (1 + 0.5 * k)
        h[j, i] = np.conj(h[i, j])
    return h


def comm_pairs():
    out = []
    for o in O_COMM:
        out.append((o, "diag"))
        if blocks(o):
            out += [(o, "block-real"), (o, "block-complex")]
    return out


def free_h(hk):
    if hk.endswith("-hop"):          # uniform hopping: non-diagonal with a (d-1)-fold degenerate eigenvalue
        d = int(hk[1])
        h = 0.6 * (np.ones((d, d)) - np.eye(d)).astype(complex)
        if hk.startswith("d3c"):     # complex ring with a degenerate pair
            ph = np.exp(2j * np.pi / 3)
            h = 0.6 * np.array([[0, ph, np.conj(ph)], [np.conj(ph), 0, ph], [ph, np.conj(ph), 0]])
            h = (h + h.conj().T) / 2
        return h
    if hk == "d2-real":
        return 0.5 * M.SX + 0.3 * M.SZ
    if hk == "d2-complex":
        return 0.5 * M.SX + 0.4 * M.SY + 0.3 * M.SZ
    d = int(hk[1])
    h = M.generic_herm(d, 1, 0.8)
    if hk.endswith("real"):
        h = h.real.astype(complex)
    return h


FREE_PAIRS = [("d2-real", (1, -1)), ("d2-real", (1, 0)), ("d2-complex", (1, -1)), ("d2-complex", (1, 0)),
              ("d3-real", (1, 0, -1)), ("d3-real", (1, 1, 0)), ("d3-complex", (1, 0, -1)), ("d3-complex", (1, 1, 0)),
              ("d4-complex", (2, 1, 0, -1))]
FREE_PAIRS = FREE_PAIRS + [("d3-hop", (1, 0, -1)), ("d3c-hop", (1, 1, 0)), ("d4-hop", (2, 1, 0, -1))]
FREE_PAIRS_T = FREE_PAIRS + [("d4-real", (2, 1, 0, -1)), ("d4-complex", (1, 1, 0, 0))]


def canonical(h, temp, shift=None):
    """expm(-(h - shift)/T)/Z by eigen-decomposition (h, shift Hermitian)."""
    a = h if shift is None else h - shift
    w, v = np.linalg.eigh(a)
    p = np.exp(-(w - w.min()) / temp)
    p /= p.sum()
    return (v * p) @ v.conj().T


# --------------------------------------------------------------------------------------------------------------------
# the code under test

def lib_object(h, o, sdname, alpha, temp, n, eps):
    bath = oq.Bath(np.diag(np.asarray(o, dtype=float)).astype(complex), lib_sd(sdname, alpha, temp))
    return oq.GibbsTempo(oq.System(np.array(h)), bath, oq.GibbsParameters(n, eps))


def lib_state(h, o, sdname, alpha, temp, n, eps):
    g = lib_object(h, o, sdname, alpha, temp, n, eps)
    g.compute(progress_type="silent")
    return np.array(g.get_state())


def physical(rho, eps):
    """C04-style monitor. returns (signature or None, numbers)"""
    rho = np.asarray(rho)
    if not np.all(np.isfinite(rho)):
        return "not-finite", {"trace": None, "herm": None, "mineig": None}
    tr = abs(np.trace(rho) - 1.0)
    herm = float(np.abs(rho - rho.conj().T).max())
    mineig = float(np.linalg.eigvalsh((rho + rho.conj().T) / 2).min())
    nums = {"trace": float(tr), "herm": herm, "mineig": mineig}
    if tr > TOL_TRACE:
        return "not-normalised", nums
    if herm > C_PHYS * eps:
        return "not-hermitian", nums
    if mineig < -C_PHYS * eps:
        return "not-positive", nums
    return None, nums


def _exc(ex):
    return f"exception:{type(ex).__name__}", f"{type(ex).__name__}: {ex}"[:160]


def classify(got, candidates, tol):
    """candidates: ordered list of (signature, matrix, tolerance or None); first entry is the oracle (signature None).
    The verdict only depends on the oracle; the other candidates merely NAME a failure (a named failure must be
    explained by the candidate: distance to it within its tolerance and at most a fifth of the distance to the oracle)."""
    dev = float(np.abs(got - candidates[0][1]).max())
    if not dev <= tol:
        for sig, mat, t in candidates[1:]:
            md = float(np.abs(got - mat).max())
            if md <= (tol if t is None else max(t, tol)) and md <= 0.2 * dev:
                return sig, dev
        return "state-mismatch", dev
    return None, dev


# --------------------------------------------------------------------------------------------------------------------
# family A

def tiers(tier):
    q = tier == "quick"
    return {
        "A_sd": ["ohmic-exp", "superohmic-gauss", "subohmic-hard", "custom-drude-hard"] +
                ([] if q else ["ohmic-exp-wc10", "superohmic-exp"]),
        "A_T": [0.3, 1.0, 3.0] if q else [0.3, 0.5, 1.0, 3.0],
        "A_alpha": [0.1, 0.4] if q else [0.05, 0.1, 0.4],
        "n": [2, 3, 5, 8] if q else [2, 3, 4, 5, 8, 12],
        "eps": [1e-6, 1e-9] if q else [1e-4, 1e-6, 1e-9],
        "F_sd": ["ohmic-exp", "superohmic-gauss"] if q else ["ohmic-exp", "superohmic-gauss", "custom-drude-hard"],
        "F_T": [0.3, 1.0, 3.0],
        "F_pairs": FREE_PAIRS if q else FREE_PAIRS_T,
        "W_alpha": [1e-6, 1e-4, 1e-3, 1e-2],
        "D_alpha": [0.1, 0.4],
        "E_n": [2, 3, 5],
        "E_T": [0.3, 1.0],
    }


def groups_a(tier):
    t = tiers(tier)
    return [{"fam": "A", "o": list(o), "hk": hk, "sd": sd, "T": temp, "alpha": al, "ns": t["n"], "epss": t["eps"]}
            for (o, hk), sd, temp, al in itertools.product(comm_pairs(), t["A_sd"], t["A_T"], t["A_alpha"])]


def case_a(o, hk, sd, temp, alpha, n, eps, offset=0.0):
    # offset: a constant energy c*1 added to H -- the thermal state does not depend on it, the Boltzmann weights
    # exp(-E/T) the network carries do (their absolute size crosses the truncation threshold epsrel)
    h = commuting_h(o, hk) + offset * np.eye(len(o))
    o2 = np.diag(np.asarray(o, dtype=float) ** 2)
    lam = reorganisation(sd, alpha)
    exact = canonical(h, temp, lam * o2)
    bare = canonical(h, temp)
    infl = float(np.abs(exact - bare).max())
    asym = float(np.abs(exact - exact.T).max())
    r = {"infl": infl, "asym": asym, "dev": None, "ratio": None, "sig": None, "what": "", "phys": None}
    try:
        got = lib_state(h, o, sd, alpha, temp, n, eps)
    except Exception as ex:  # noqa
        r["sig"], r["what"] = _exc(ex)
        return r
    miss = guard_missing(sd, alpha, temp)
    cands = [(None, exact, None)]
    if asym > 100 * TOL_A:
        cands.append(("returns-transpose", exact.T, None))
    if miss * max(o2.diagonal()) > TOL_A:
        defect = canonical(h, temp, (lam - temp * miss) * o2)
        cands.append(("matsubara-guard-term-dropped", defect, MODEL_TOL))
        if asym > 100 * TOL_A:
            cands.append(("returns-transpose+matsubara-guard-term-dropped", defect.T, MODEL_TOL))
    sig, dev = classify(got, cands, tol_a(eps))
    psig, nums = physical(got, eps)
    r.update(dev=dev, sig=sig or psig, phys=nums, state=got, ratio=dev / tol_a(eps))
    if sig:
        r["what"] = (f"O=diag{tuple(o)} H={hk} {sd} alpha={alpha} T={temp} n_steps={n} epsrel={eps}: "
                     f"|rho - exp(-(H - lambda O^2)/T)/Z| = {dev:.2e} > {tol_a(eps):.1e} (lambda={lam:.4f}, "
                     f"populations {np.round(np.diag(got).real, 6).tolist()} vs {np.round(np.diag(exact).real, 6).tolist()})")
    elif psig:
        r["what"] = f"O=diag{tuple(o)} H={hk} {sd} alpha={alpha} T={temp} n_steps={n} epsrel={eps}: {psig} {nums}"
    return r


SHIFT_RATIOS = [-20.0, 8.0, 14.0, 18.0, 22.0, 26.0, 30.0]      # energy offset / T


LONG_N = 300            # more imaginary-time steps than any internal length limit (the Matsubara kernel is periodic:
#                         the most distant steps couple as strongly as neighbours)


def groups_s(tier):
    out = []
    for (o, hk), temp in itertools.product([((1, -1), "diag"), ((1, 0, -1), "diag")], [0.3, 1.0]):
        out.append({"fam": "S", "o": list(o), "hk": hk, "sd": "ohmic-exp", "T": temp, "alpha": 0.4, "n": LONG_N, "eps": 1e-6,
                    "ratio": 0.0})
    for (o, hk), temp in itertools.product([((1, -1), "diag"), ((1, 0, -1), "diag"), ((1, 1, 0), "block-complex")], [0.3, 1.0]):
        for n, eps, ratio in itertools.product([3, 5], [1e-4, 1e-6, 1e-9], SHIFT_RATIOS):
            out.append({"fam": "S", "o": list(o), "hk": hk, "sd": "ohmic-exp", "T": temp, "alpha": 0.4, "n": n, "eps": eps,
                        "ratio": ratio})
    return out


def work_s(g):
    r = case_a(tuple(g["o"]), g["hk"], g["sd"], g["T"], g["alpha"], g["n"], g["eps"], offset=g["ratio"] * g["T"])
    r.pop("state", None)
    if r["sig"]:
        r["what"] = f"H + {g['ratio']}*T*1: " + r["what"]
    return r


def cls_s(g, sig):
    if g["n"] >= LONG_N:
        return f"commuting|H={g['hk']}|n_steps={g['n']}|{sig}"
    where = "negative" if g["ratio"] < 0 else ("below-ln(1/epsrel)" if g["ratio"] < -np.log(g["eps"]) else "above-ln(1/epsrel)")
    return f"commuting|H={g['hk']}+energy-offset({where})|{sig}"


def guard_regime(sd, alpha, temp, o):
    """input class: does the overflow-guard branch of the library's Matsubara integrand (exp(-w/T) <= machine epsilon)
    lie inside the range where J(w)/w^2 still matters at the level of the tolerance?"""
    active = guard_missing(sd, alpha, temp) * float(max(abs(x) for x in o)) ** 2 > TOL_A
    return "guard-branch-active" if active else "guard-branch-inactive"


def cls_a(g, sig):
    return f"commuting|H={g['hk']}|{guard_regime(g['sd'], g['alpha'], g['T'], g['o'])}|{sig}"


def work_a(g):
    out = []
    states = {}
    for n, eps in itertools.product(g["ns"], g["epss"]):
        r = case_a(tuple(g["o"]), g["hk"], g["sd"], g["T"], g["alpha"], n, eps)
        st = r.pop("state", None)
        if st is not None:
            states[(n, eps)] = st
        r["rp"] = {"fam": "A", "o": g["o"], "hk": g["hk"], "sd": g["sd"], "T": g["T"], "alpha": g["alpha"], "n": n,
                   "eps": eps}
        out.append(r)
    spread = 0.0
    ks = list(states)
    for a, b in itertools.combinations(ks, 2):
        spread = max(spread, float(np.abs(states[a] - states[b]).max()))
    return {"runs": out, "spread_n_eps": spread}


# --------------------------------------------------------------------------------------------------------------------
# families B, C, D: arbitrary Hamiltonians

def groups_f(tier):
    t = tiers(tier)
    return [{"fam": "F", "hk": hk, "o": list(o), "sd": sd, "T": temp, "n": n, "eps": eps,
             "walpha": t["W_alpha"], "dalpha": t["D_alpha"]}
            for (hk, o), sd, temp, n, eps in itertools.product(t["F_pairs"], t["F_sd"], t["F_T"], t["n"], t["eps"])]


def case_zero(hk, o, sd, temp, n, eps, variant):
    """variant 'alpha0': alpha = 0 with coupling operator O;  'O0': O = 0 with alpha = 0.1"""
    h = free_h(hk)
    can = canonical(h, temp)
    asym = float(np.abs(can - can.T).max())
    r = {"asym": asym, "dev": None, "ratio": None, "sig": None, "what": "", "phys": None}
    try:
        if variant == "alpha0":
            got = lib_state(h, o, sd, 0.0, temp, n, eps)
        else:
            got = lib_state(h, [0] * len(o), sd, 0.1, temp, n, eps)
    except Exception as ex:  # noqa
        r["sig"], r["what"] = _exc(ex)
        return r
    cands = [(None, can, None)]
    if asym > 1e-6:
        cands.append(("returns-transpose", can.T, None))
    sig, dev = classify(got, cands, tol_b(eps))
    psig, nums = physical(got, eps)
    r.update(dev=dev, sig=sig or psig, phys=nums, ratio=dev / tol_b(eps))
    if sig:
        r["what"] = (f"H={hk} O=diag{tuple(o)} {variant} {sd} T={temp} n_steps={n} epsrel={eps}: |rho - expm(-H/T)/Z| = "
                     f"{dev:.2e} > {tol_b(eps):.1e}; |rho - (expm(-H/T)/Z)^T| = {np.abs(got - can.T).max():.1e}")
    elif psig:
        r["what"] = f"H={hk} O=diag{tuple(o)} {variant}: {psig} {nums}"
    return r


def case_weak(hk, o, sd, temp, n, eps, alphas):
    """one chain of coupling strengths.  returns per-alpha deviations and a signature for the chain."""
    h = free_h(hk)
    can = canonical(h, temp)
    asym = float(np.abs(can - can.T).max())
    omax2 = float(max(abs(x) for x in o)) ** 2
    comm = float(np.abs(h @ np.diag(o) - np.diag(o) @ h).max())
    r = {"asym": asym, "comm": comm, "devs": [], "ratios": [], "sig": None, "what": "", "phys": []}
    for al in alphas:
        x = reorganisation(sd, al) * omax2 / temp
        try:
            got = lib_state(h, o, sd, al, temp, n, eps)
        except Exception as ex:  # noqa
            r["sig"], r["what"] = _exc(ex)
            r["bad_alpha"] = al
            return r
        dev = float(np.abs(got - can).max())
        devt = float(np.abs(got - can.T).max())
        tol = C_W * x + C_EPS * eps
        r["devs"].append(dev)
        r["ratios"].append(dev / tol)
        psig, nums = physical(got, eps)
        r["phys"].append(nums)
        if dev > tol and r["sig"] is None:
            r["sig"] = "tends-to-transpose" if (devt <= tol and devt <= 0.2 * dev) else "not-within-C*coupling"
            r["bad_alpha"] = al
            r["what"] = (f"H={hk} O=diag{tuple(o)} {sd} T={temp} n_steps={n} epsrel={eps} alpha={al}: |rho - expm(-H/T)/Z| = "
                         f"{dev:.2e} > {tol:.1e} = {C_W}*lambda*o_max^2/T + {C_EPS}*epsrel; distance to the transpose "
                         f"{devt:.1e}")
        if psig and r["sig"] is None:
            r["sig"], r["what"], r["bad_alpha"] = psig, f"H={hk} O=diag{tuple(o)} alpha={al}: {psig} {nums}", al
    if r["sig"] is None:
        d = r["devs"]
        # strictly decreasing with the coupling wherever the deviation is resolved above the truncation noise
        for i in range(len(d) - 1):
            if d[i + 1] > 10 * C_EPS * eps and not d[i] < d[i + 1]:
                r["sig"] = "not-decreasing-with-coupling"
                r["bad_alpha"] = alphas[i]
                r["what"] = (f"H={hk} O=diag{tuple(o)} {sd} T={temp} n_steps={n} epsrel={eps}: deviations "
                             f"{[f'{v:.2e}' for v in d]} for alpha={alphas}")
                break
    return r


def path_sum(h, o, sd, alpha, temp, n):
    """Independent evaluation of the discretised imaginary-time path sum (symmetric Trotter splitting, coupling operator
    piecewise constant on the n slices, influence exp(sum_{k>=k'} o_k o_k' eta_{k-k'}) with eta from my own quadrature
    of the Matsubara kernel).  Informational partner only."""
    d = len(o)
    beta = 1.0 / temp
    dl = beta / n
    j, up = own_j(sd, alpha)
    wc = SDS[sd][2]

    def f(tau):  # int_0^tau (tau - s) K(s) ds
        if tau <= 0:
            return 0.0

        def integrand(w):
            x = w * beta
            return j(w) / w ** 2 * ((np.exp(-w * tau) + np.exp(-w * (beta - tau)) - 1 - np.exp(-x)) / (-np.expm1(-x))
                                    + w * tau)
        a = si.quad(integrand, 0, min(wc, up), epsabs=0, epsrel=1e-11, limit=400)[0]
        if up > wc:
            a += si.quad(integrand, wc, up, epsabs=0, epsrel=1e-11, limit=400)[0]
        return a
    fs = [f(k * dl) for k in range(n + 2)]
    eta = [fs[1]] + [fs[k + 1] - 2 * fs[k] + fs[k - 1] for k in range(1, n)]
    ph = sl.expm(-np.array(h) * dl / 2)
    p = ph @ ph
    ov = np.asarray(o, dtype=float)
    total = np.zeros((d, d), dtype=complex)
    for path in itertools.product(range(d), repeat=n):
        ok = ov[list(path)]
        ex = 0.0
        for a in range(n):
            for b in range(a + 1):
                ex += ok[a] * ok[b] * eta[a - b]
        amp = 1.0
        for k in range(n - 1):
            amp = amp * p[path[k + 1], path[k]]
        total += np.exp(ex) * amp * np.outer(ph[:, path[-1]], ph[path[0], :])
    return total / np.trace(total)


def case_finite(hk, o, sd, temp, n, eps, alpha, with_path):
    h = free_h(hk)
    r = {"sig": None, "what": "", "phys": None, "pdev": None, "pdev_t": None, "infl": None}
    try:
        got = lib_state(h, o, sd, alpha, temp, n, eps)
    except Exception as ex:  # noqa
        r["sig"], r["what"] = _exc(ex)
        return r
    psig, nums = physical(got, eps)
    r["phys"] = nums
    can = canonical(h, temp)
    # measured bath influence; the smaller of the distances to rho_can and to its transpose, so that the count of
    # non-trivial cases does not depend on whether the tree under test returns transposed states
    r["infl"] = float(min(np.abs(got - can).max(), np.abs(got - can.T).max()))
    if hk.endswith("real") and float(np.abs(got.imag).max()) > C_PHYS * eps and psig is None:
        psig = "complex-for-real-H"
    if psig:
        r["sig"], r["what"] = psig, f"H={hk} O=diag{tuple(o)} {sd} alpha={alpha} T={temp} n_steps={n} epsrel={eps}: {psig} {nums}"
    if with_path:
        ps = path_sum(h, o, sd, alpha, temp, n)
        r["pdev"] = float(np.abs(got - ps).max())
        r["pdev_t"] = float(np.abs(got - ps.T).max())
    return r


def cls_f(g, part, sig):
    return f"{part}|H={g['hk']}|{sig}"


def work_f(g):
    hk, o, sd, temp, n, eps = g["hk"], tuple(g["o"]), g["sd"], g["T"], g["n"], g["eps"]
    base = {"hk": hk, "o": list(o), "sd": sd, "T": temp, "n": n, "eps": eps}
    out = {"zero": [], "weak": None, "finite": []}
    for variant in ("alpha0", "O0"):
        r = case_zero(hk, o, sd, temp, n, eps, variant)
        r["rp"] = dict(base, fam="B", variant=variant)
        out["zero"].append(r)
    r = case_weak(hk, o, sd, temp, n, eps, g["walpha"])
    r["rp"] = dict(base, fam="C", alphas=g["walpha"])
    out["weak"] = r
    d = len(o)
    for al in g["dalpha"]:
        with_path = d ** n <= 1100 and eps <= 1e-9
        r = case_finite(hk, o, sd, temp, n, eps, al, with_path)
        r["rp"] = dict(base, fam="D", alpha=al)
        out["finite"].append(r)
    return out


# --------------------------------------------------------------------------------------------------------------------
# family E: histories

def groups_e(tier):
    t = tiers(tier)
    items = [("A", list(o), hk) for (o, hk) in comm_pairs()] + [("F", list(o), hk) for (hk, o) in t["F_pairs"]]
    return [{"fam": "E", "src": src, "o": o, "hk": hk, "sd": "ohmic-exp", "alpha": 0.2, "T": temp, "n": n, "eps": 1e-9}
            for (src, o, hk), temp, n in itertools.product(items, t["E_T"], t["E_n"])]


E_RUNS = 10  # library computations per history case: reference, 3 on one object, 2 + 3 on fresh objects, shortcut


def case_e(g):
    o, hk, sd, al, temp, n, eps = tuple(g["o"]), g["hk"], g["sd"], g["alpha"], g["T"], g["n"], g["eps"]
    h = commuting_h(o, hk) if g["src"] == "A" else free_h(hk)
    r = {"sig": None, "what": "", "dev": 0.0, "computes": 0, "infl": None}
    obs = []
    try:
        ref = lib_state(h, o, sd, al, temp, n, eps)
        r["computes"] += 1
        r["infl"] = float(np.abs(ref - canonical(h, temp)).max())
        # one object, compute^k . get_state, k = 1..3, with get_dynamics in between
        obj = lib_object(h, o, sd, al, temp, n, eps)
        for k in (1, 2, 3):
            dyn = obj.compute(progress_type="silent")
            r["computes"] += 1
            st = np.array(obj.get_state())
            dyn2 = obj.get_dynamics()
            obs.append((f"same-object compute^{k}", st, len(dyn.times), float(dyn.times[-1]), dyn2 is dyn))
        # fresh objects, k computes before the first get_state
        for k in (2, 3):
            ob = lib_object(h, o, sd, al, temp, n, eps)
            for _ in range(k):
                ob.compute(progress_type="silent")
                r["computes"] += 1
            dyn = ob.get_dynamics()
            obs.append((f"fresh-object compute^{k}", np.array(ob.get_state()), len(dyn.times), float(dyn.times[-1]), True))
        # get_state twice, and the shortcut
        obs.append(("get_state twice", np.array(obj.get_state()), n + 1, 1.0 / temp, True))
        bath = oq.Bath(np.diag(np.asarray(o, dtype=float)).astype(complex), lib_sd(sd, al, temp))
        sc = oq.gibbs_tempo_compute(oq.System(np.array(h)), bath, oq.GibbsParameters(n, eps), progress_type="silent")
        r["computes"] += 1
        obs.append(("gibbs_tempo_compute", np.array(sc), n + 1, 1.0 / temp, True))
    except Exception as ex:  # noqa
        r["sig"], r["what"] = _exc(ex)
        r["what"] = f"after {len(obs)} observations: " + r["what"]
        return r
    for name, st, npts, tlast, same in obs:
        dev = float(np.abs(st - ref).max())
        r["dev"] = max(r["dev"], dev)
        if dev > TOL_ID and r["sig"] is None:
            r["sig"], r["what"] = "state-changes", f"{name}: state differs from the single-compute state by {dev:.2e}"
        if npts != n + 1 and r["sig"] is None:
            r["sig"], r["what"] = "wrong-number-of-points", f"{name}: {npts} recorded points for n_steps={n}"
        if abs(tlast - 1.0 / temp) > 1e-12 and r["sig"] is None:
            r["sig"], r["what"] = "wrong-final-time", f"{name}: last imaginary time {tlast} instead of 1/T={1 / temp}"
        if not same and r["sig"] is None:
            r["sig"], r["what"] = "dynamics-object-replaced", f"{name}: get_dynamics() is not the object returned by compute()"
    if r["what"]:
        r["what"] = f"H={hk} O=diag{o} T={temp} n_steps={n}: " + r["what"]
    return r


def work_e(g):
    r = case_e(g)
    r["rp"] = dict(g)
    return r


def cls_e(g, sig):
    return f"history|{'commuting' if g['src'] == 'A' else 'free'}|H={g['hk']}|{sig}"


# --------------------------------------------------------------------------------------------------------------------

def _upd(d, key, val, fn):
    if val is None:
        return
    d[key] = val if d.get(key) is None else fn(d[key], val)


def run(tier, seed):
    rep = Report(LEVEL)
    ga, gf, ge = groups_a(tier), groups_f(tier), groups_e(tier)
    ra = pmap(work_a, ga, seed=seed)
    rf = pmap(work_f, gf, seed=seed)
    re_ = pmap(work_e, ge, seed=seed)
    gs = groups_s(tier)
    rs = pmap(work_s, gs, seed=seed)
    smax = 0.0
    for g, r in zip(gs, rs):
        if r["sig"]:
            rep.add(Violation(cls_s(g, r["sig"]), r["what"], g))
        elif r["ratio"] is not None:
            smax = max(smax, r["ratio"])

    ev = {"A": 0, "B": 0, "C": 0, "D": 0, "E": 0}
    nontriv = {"A": set(), "B": set(), "C": set(), "D": set(), "E": set()}
    st = {}  # statistics
    monitored = 0
    # ---- A
    for g, res in zip(ga, ra):
        _upd(st, "A_max_spread_over_n_and_epsrel", res["spread_n_eps"] if not any(r["sig"] for r in res["runs"]) else None, max)
        for r in res["runs"]:
            ev["A"] += 1
            monitored += r["phys"] is not None
            if r["infl"] > INFL_MIN:
                nontriv["A"].add((tuple(g["o"]), g["hk"], g["sd"], g["T"], g["alpha"], r["rp"]["n"], r["rp"]["eps"]))
                _upd(st, "A_min_bath_influence_nontrivial", r["infl"], min)
            if r["sig"]:
                rep.add(Violation(cls_a(g, r["sig"]), r["what"], r["rp"]))
                _upd(st, "A_max_dev_violating", r["dev"], max)
                continue
            _upd(st, "A_max_dev", r["dev"], max)
            _upd(st, "A_max_dev_over_tol", r["ratio"], max)
            if r["rp"]["eps"] <= 1e-9:
                _upd(st, "A_max_dev_at_epsrel<=1e-9", r["dev"], max)
            _upd(st, "max_herm_dev_over_epsrel", r["phys"]["herm"] / r["rp"]["eps"], max)
            _upd(st, "min_eigenvalue_over_epsrel", r["phys"]["mineig"] / r["rp"]["eps"], min)
            if g["hk"] == "block-complex":
                _upd(st, "A_min_transpose_visibility_complex_blocks", r["asym"], min)
    # ---- B, C, D
    for g, res in zip(gf, rf):
        key = (g["hk"], tuple(g["o"]), g["sd"], g["T"], g["n"], g["eps"])
        for r in res["zero"]:
            ev["B"] += 1
            monitored += r["phys"] is not None
            nontriv["B"].add(key + (r["rp"]["variant"],))
            if r["sig"]:
                rep.add(Violation(cls_f(g, "zero-coupling:" + r["rp"]["variant"], r["sig"]), r["what"], r["rp"]))
                _upd(st, "B_max_dev_violating", r["dev"], max)
                continue
            _upd(st, "B_max_dev", r["dev"], max)
            _upd(st, "B_max_dev_over_tol", r["ratio"], max)
            _upd(st, "B_max_dev_over_epsrel", r["dev"] / g["eps"], max)
            if "complex" in g["hk"]:
                _upd(st, "B_min_transpose_visibility_complex_H", r["asym"], min)
        r = res["weak"]
        ev["C"] += len(g["walpha"])
        monitored += len(r["phys"])
        _upd(st, "C_min_commutator_H_O", r["comm"], min)
        if r["comm"] > 0.1:
            nontriv["C"].add(key)
        if r["sig"]:
            rep.add(Violation(cls_f(g, "weak-coupling", r["sig"]), r["what"], r["rp"]))
            _upd(st, "C_max_dev_over_tol_violating", max(r["ratios"]) if r["ratios"] else None, max)
        else:
            _upd(st, "C_max_dev_over_tol", max(r["ratios"]), max)
        for r in res["finite"]:
            ev["D"] += 1
            monitored += r["phys"] is not None
            if r["infl"] is not None and r["infl"] > INFL_MIN:
                nontriv["D"].add(key + (r["rp"]["alpha"],))
            if r["sig"]:
                rep.add(Violation(cls_f(g, "finite-coupling", r["sig"]), r["what"], r["rp"]))
                continue
            _upd(st, "max_herm_dev_over_epsrel", r["phys"]["herm"] / g["eps"], max)
            _upd(st, "min_eigenvalue_over_epsrel", r["phys"]["mineig"] / g["eps"], min)
            _upd(st, "D_min_bath_influence", r["infl"], min)
            if r["pdev"] is not None:
                _upd(st, "D_info_pathsum_compared", 1, lambda a, b: a + b)
                _upd(st, "D_info_max_dev_from_independent_path_sum", r["pdev"], max)
                _upd(st, "D_info_max_dev_from_transposed_path_sum", r["pdev_t"], max)
    # ---- E
    for g, r in zip(ge, re_):
        ev["E"] += E_RUNS
        if r["infl"] is not None and r["infl"] > INFL_MIN:
            nontriv["E"].add((g["src"], tuple(g["o"]), g["hk"], g["T"], g["n"]))
        if r["sig"]:
            rep.add(Violation(cls_e(g, r["sig"]), r["what"], r["rp"]))
            continue
        _upd(st, "E_max_dev", r["dev"], max)

    t = tiers(tier)
    amax = st.get("A_max_dev") or 0.0
    rep.coverage = {
        "evaluations": sum(ev.values()) + len(gs),
        "energy_offset_family": {"cases": len(gs), "offset_over_T": SHIFT_RATIOS, "epsrel": [1e-4, 1e-6, 1e-9],
                                 "max_dev_over_tol": smax},
        "evaluations_by_family": ev,
        "distinct_nontrivial": sum(len(v) for v in nontriv.values()),
        "distinct_nontrivial_by_family": {k: len(v) for k, v in nontriv.items()},
        "groups": {"A": len(ga), "BCD": len(gf), "E": len(ge)},
        "states_monitored_for_physicality": int(monitored),
        "rule": "A: full product (O multiset, commuting H kind) x spectral density x T x alpha x n_steps x epsrel, non-trivial "
                "iff the exact state differs from exp(-H/T)/Z by > 0.05 (the +-1 operator is trivial by construction), keyed by "
                "the full tuple; B/C/D: full product (H kind, O) x spectral density x T x n_steps x epsrel, each with both "
                "zero-coupling variants (B, all count), one weak-coupling chain over alpha (C, non-trivial iff |[H,O]| > 0.1), "
                "every finite alpha (D, non-trivial iff the returned state is further than 0.05 from exp(-H/T)/Z and from its transpose); E: every (H, O) of A and of B x T x n_steps, "
                "histories compute^k.get_state k=1..3 on one object and on fresh objects + shortcut, non-trivial iff the bath "
                "moved the state by > 0.05",
        "alphabet": {"A": {"O,H": [[list(o), hk] for o, hk in comm_pairs()], "sd": t["A_sd"], "T": t["A_T"],
                           "alpha": t["A_alpha"], "n_steps": t["n"], "epsrel": t["eps"]},
                     "BCD": {"H,O": [[hk, list(o)] for hk, o in t["F_pairs"]], "sd": t["F_sd"], "T": t["F_T"],
                             "n_steps": t["n"], "epsrel": t["eps"], "zero": ["alpha0", "O0"], "weak_alpha": t["W_alpha"],
                             "finite_alpha": t["D_alpha"]},
                     "E": {"T": t["E_T"], "n_steps": t["E_n"], "alpha": 0.2, "sd": "ohmic-exp", "epsrel": 1e-9}},
        "samples": [ga[(7 * seed + 3) % len(ga)], {k: v for k, v in gf[(11 * seed + 5) % len(gf)].items()},
                    ge[(3 * seed + 1) % len(ge)]],
        "exhaustive": True,
        "max_dev": amax, "tolerance": f"{TOL_A} + {C_EPS}*epsrel", "max_dev_over_tol": st.get("A_max_dev_over_tol") or 0.0,
        "tolerances": {"A": f"{TOL_A} + {C_EPS}*epsrel", "B": f"{TOL_B} + {C_B}*epsrel", "C": f"{C_W}*lambda*o_max^2/T + {C_EPS}*epsrel", "E": TOL_ID,
                       "hermiticity/positivity/reality": f"{C_PHYS}*epsrel", "trace": TOL_TRACE},
        "B_max_dev_over_tol": st.get("B_max_dev_over_tol") or 0.0,
        "C_max_dev_over_tol": st.get("C_max_dev_over_tol") or 0.0,
        "E_max_dev_over_tol": (st.get("E_max_dev") or 0.0) / TOL_ID,
        "stats": st,
        "min_effect_nontrivial": INFL_MIN,
    }
    rep.assumptions = [
        "oracle A: rho = exp(-(H - lambda O^2)/T)/Z for [H,O]=0 (displaced-oscillator identity), lambda = int J/w by own "
        "quadrature of own J formulas, cross-checked against closed forms to 1e-9 relative at run time",
        "tolerance A = 2e-7 + 100*epsrel: the floor is the library's fixed quadrature tolerance 2^-26 for its eta function "
        "times the largest exponent lambda*o^2/T of the alphabet (32) times 0.4 (measured 2.8e-10 at epsrel 1e-9 on a tree "
        "with the guard term restored); the epsrel part because the singular-value truncation removes populations of "
        "relative weight < epsrel (measured <= 1.8*epsrel)",
        "tolerance B = 1e-12 + 1.0*epsrel (measured 8e-15 at epsrel <= 1e-6 and 0.0075*epsrel at epsrel = 1e-4)",
        "weak coupling: only the bound C*lambda*o_max^2/T and monotonic decrease are checked (what the property states), "
        "not the first-order coefficient",
        "the discretised path-sum comparison in family D is informational (a different but valid discretisation would "
        "change it) and never produces a violation",
        "non-diagonal coupling operators are rejected by GibbsTempo (NotImplementedError) and are outside the stated "
        "quantifier"]
    return rep


def replay(rp):
    fam = rp["fam"]
    if fam == "A":
        r = case_a(tuple(rp["o"]), rp["hk"], rp["sd"], rp["T"], rp["alpha"], rp["n"], rp["eps"])
        r.pop("state", None)
        return {"obs": {"dev": None if r["dev"] is None else round(r["dev"], 12), "sig": r["sig"]},
                "violation": cls_a(rp, r["sig"]) if r["sig"] else None}
    if fam == "S":
        r = work_s(rp)
        return {"obs": {"dev": None if r["dev"] is None else round(r["dev"], 12), "sig": r["sig"]},
                "violation": cls_s(rp, r["sig"]) if r["sig"] else None}
    if fam == "B":
        r = case_zero(rp["hk"], tuple(rp["o"]), rp["sd"], rp["T"], rp["n"], rp["eps"], rp["variant"])
        return {"obs": {"dev": None if r["dev"] is None else round(r["dev"], 13), "sig": r["sig"]},
                "violation": cls_f(rp, "zero-coupling:" + rp["variant"], r["sig"]) if r["sig"] else None}
    if fam == "C":
        r = case_weak(rp["hk"], tuple(rp["o"]), rp["sd"], rp["T"], rp["n"], rp["eps"], rp["alphas"])
        return {"obs": {"devs": [round(v, 12) for v in r["devs"]], "sig": r["sig"]},
                "violation": cls_f(rp, "weak-coupling", r["sig"]) if r["sig"] else None}
    if fam == "D":
        r = case_finite(rp["hk"], tuple(rp["o"]), rp["sd"], rp["T"], rp["n"], rp["eps"], rp["alpha"], False)
        return {"obs": {"phys": r["phys"], "sig": r["sig"]},
                "violation": cls_f(rp, "finite-coupling", r["sig"]) if r["sig"] else None}
    if fam == "E":
        r = case_e(rp)
        return {"obs": {"dev": round(r["dev"], 15), "sig": r["sig"]}, "violation": cls_e(rp, r["sig"]) if r["sig"] else None}
    raise ValueError(fam)
