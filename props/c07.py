"""C07  Multi-time correlations are exact and aligned with the returned time axes.

Model checking of the time-specification lattice over a grid of N=3 steps (4 points): every int, every
slice, every ordered subset (list), every float, every float interval in both directions is fed to the
real compute_correlations / compute_correlations_nt, in both argument positions and both time orders;
the returned time axes and every entry of the returned array are compared with an exact table
G[t_a, t_b] obtained from a first-principles simulation of system (x) ancilla (exact ancilla PT), or
from per-pair compute_dynamics runs (PT-TEMPO PT).
"""
import itertools
import warnings

import numpy as np

from mc.common import Report, Violation, pmap, bind_repo
from mc import refmodel as R
from mc import ancilla as A
from . import models as M

oq = bind_repo()
LEVEL = "model_checking"
N = 3
DT = 0.2
TOL = 1e-10
H0 = 0.6 * M.SX + 0.25 * M.SZ + 0.1 * M.SY
OP_A = M.SM + 0.3 * M.SZ            # non-Hermitian on purpose
OP_B = M.SX + 0.5j * M.SY + 0.2 * M.I2
OP_C = M.SZ + 0.4 * M.SX
OP_D = M.SY - 0.3j * M.I2
RHO0 = M.RHO_GEN2

_ENV = {}


def env(dt=DT):
    key = ("anc", dt)
    if key not in _ENV:
        e = 2
        sigma = np.array([[0.6, 0.2j], [-0.2j, 0.4]], dtype=complex)
        ks = [[R.random_free_unitary(2 * e, 60 + k)] for k in range(N)]
        _ENV[key] = {"ks": ks, "sigma": sigma, "pt": A.build_pt(2, e, sigma, ks, dt=dt),
                     "pt_nodt": A.build_pt(2, e, sigma, ks, dt=None)}
    return _ENV[key]


def sup(op, side):
    return R.left_super(op) if side == "left" else R.right_super(op)


def td_props(k, dt=DT):
    """Half-step propagators of the piecewise-constant H(t) of td_system() for a run that starts at t = 1.7."""
    return (R.half_props(H0 + 0.4 * (2 * k) * M.SY, dt)[0], R.half_props(H0 + 0.4 * (2 * k + 1) * M.SY, dt)[0])


def td_system():
    # piecewise constant on half steps *counted from the absolute time 1.7*: a run that forgets its start_time samples
    # a different Hamiltonian
    return oq.TimeDependentSystem(lambda t: H0 + 0.4 * np.floor((t - 1.7) / (DT / 2) + 1e-9) * M.SY)


def exact_table(ops, sides, dt=DT, system_h=H0, props=None):
    """T[t_1, ..., t_n] for t_1 <= ... <= t_n (else NaN): earlier operators inserted (as left/right
    multiplications, first operator first) before the measurement at their step; last operator's expectation."""
    E = env()
    n = len(ops)
    p = R.half_props(system_h, dt)
    tab = np.full((N + 1,) * n, np.nan + 1j * np.nan, dtype=complex)
    for first in itertools.product(range(N + 1), repeat=n - 1):
        if list(first) != sorted(first):
            continue
        pre = {}
        for t, o, s in zip(first, ops[:-1], sides[:-1]):
            pre[t] = sup(o, s) @ pre[t] if t in pre else sup(o, s)
        states = R.simulate(RHO0, [E["sigma"]], lambda j, k: E["ks"][k], props or (lambda k: p), N, pre, {})
        for tl in range(max(first) if first else 0, N + 1):
            tab[first + (tl,)] = np.trace(ops[-1] @ states[tl])
    return tab


# ------------------------------------------------------------------------------------------------
# the specification lattice

def all_specs(start, dt=DT):
    """list of (family, spec, expected index list or exception name)"""
    grid = np.arange(N + 1)
    out = []
    for i in range(-1, N + 2):
        out.append(("int", i, [i] if 0 <= i <= N else "IndexError"))
    ends = [None] + list(range(N + 2)) + [-1]
    for a, b, c in itertools.product(ends, ends, [None, 1, 2, -1]):
        out.append(("slice", slice(a, b, c), list(grid[slice(a, b, c)])))
    for r in range(1, N + 2):
        for sub in itertools.permutations(range(N + 1), r):
            out.append(("list", list(sub), list(sub)))
    for k in range(N + 1):
        for off in (0.0, 0.3, -0.3):
            out.append(("float", float(start + (k + off) * dt), [k]))
    out.append(("float", float(start - 1.0 * dt), "IndexError"))
    out.append(("float", float(start + (N + 1.0) * dt), "IndexError"))
    for a, b in itertools.product(range(N + 1), repeat=2):
        exp = list(range(a, b + 1)) if a <= b else list(range(a, b - 1, -1))
        out.append(("interval", (float(start + a * dt), float(start + b * dt)), exp))
    return out


def spec_json(spec):
    if isinstance(spec, slice):
        return {"slice": [spec.start, spec.stop, spec.step]}
    if isinstance(spec, tuple):
        return {"interval": list(spec)}
    return spec


def spec_from_json(j):
    if isinstance(j, dict) and "slice" in j:
        return slice(*j["slice"])
    if isinstance(j, dict) and "interval" in j:
        return tuple(float(x) for x in j["interval"])
    return j


def family_of(exp, fam):
    if fam != "list":
        return fam
    if exp == sorted(exp):
        return "list-ascending"
    if exp == sorted(exp, reverse=True):
        return "list-descending"
    return "list-unordered"


def compare(times_ret, corr, exp_a, exp_b, table, order, start, dt):
    """-> None or failure signature"""
    ta, tb = np.asarray(times_ret[0]), np.asarray(times_ret[1])
    if len(ta) != len(exp_a) or len(tb) != len(exp_b):
        return "times-axis-length"
    if len(exp_a) and np.abs(ta - (start + dt * np.array(exp_a))).max() > 1e-12:
        return "times-axis-a"
    if len(exp_b) and np.abs(tb - (start + dt * np.array(exp_b))).max() > 1e-12:
        return "times-axis-b"
    corr = np.asarray(corr)
    if corr.shape != (len(exp_a), len(exp_b)):
        return "shape"
    exp = np.full(corr.shape, np.nan + 1j * np.nan, dtype=complex)
    for i, a in enumerate(exp_a):
        for j, b in enumerate(exp_b):
            if order == "ordered" and a <= b:
                exp[i, j] = table["ordered"][a, b]
            if order == "anti" and a >= b:
                exp[i, j] = table["anti"][b, a]
    nan_o, nan_e = np.isnan(corr), np.isnan(exp)
    if (nan_o != nan_e).any():
        got = np.sort_complex(np.round(corr[~nan_o], 9))
        want = np.sort_complex(np.round(exp[~nan_e], 9))
        if len(got) == len(want) and np.allclose(got, want, atol=1e-8):
            return "entries-at-wrong-indices"
        return "nan-pattern"
    if (~nan_e).any() and np.abs(corr[~nan_e] - exp[~nan_e]).max() > TOL:
        got = np.sort_complex(np.round(corr[~nan_o], 9))
        want = np.sort_complex(np.round(exp[~nan_e], 9))
        if np.allclose(got, want, atol=1e-8):
            return "entries-at-wrong-indices"
        return "wrong-value"
    return None


_TABLES = {}


def tables():
    if "t" not in _TABLES:
        _TABLES["t"] = {"ordered": exact_table([OP_A, OP_B], ["left", "left"]),
                        # anti: B applied on the right at the earlier time t_b, A measured at t_a
                        "anti": exact_table([OP_B, OP_A], ["right", "left"])}
    return _TABLES["t"]


def call2(spec_a, spec_b, order, start, pt=None, dt=None, system=None):
    E = env()
    with warnings.catch_warnings():
        warnings.simplefilter("ignore")
        return oq.compute_correlations(system or oq.System(H0), pt or E["pt"], OP_A, OP_B, spec_a, spec_b,
                                       time_order=order, initial_state=RHO0, start_time=start, dt=dt,
                                       progress_type="silent")


def two_time_case(args):
    """One call of compute_correlations; returns (cls or None, what, trivial?)"""
    fam_a, spec_a, exp_a, fam_b, spec_b, exp_b, order, start = args
    tab = tables()
    expect_exc = next((e for e in (exp_a, exp_b) if isinstance(e, str)), None)
    empty = (not isinstance(exp_a, str) and len(exp_a) == 0) or (not isinstance(exp_b, str) and len(exp_b) == 0)
    fa = family_of(exp_a, fam_a) if not isinstance(exp_a, str) else fam_a
    fb = family_of(exp_b, fam_b) if not isinstance(exp_b, str) else fam_b
    icls = f"corr2|{fa} x {fb}|{order}"
    try:
        times, corr = call2(spec_a, spec_b, order, start)
    except Exception as ex:  # noqa
        name = type(ex).__name__
        if expect_exc is not None:
            return (None, "", True) if name == expect_exc else (f"{icls}|exception:{name}-instead-of-{expect_exc}", str(ex)[:100], True)
        if empty:
            return None, "", True
        extra = ""
        if fam_a == "interval" and exp_a and exp_a[-1] == 0 and len(exp_a) > 1 or \
                fam_b == "interval" and exp_b and exp_b[-1] == 0 and len(exp_b) > 1:
            extra = "(reversed-interval-ending-at-step-0)"
        return f"{icls}{extra}|exception:{name}", f"a={spec_a} b={spec_b} start={start}: {name}: {str(ex)[:80]}", False
    if expect_exc is not None:
        return f"{icls}|no-{expect_exc}", f"a={spec_a} b={spec_b}: out-of-range time accepted", True
    sig = compare(times, corr, exp_a, exp_b, tab, order, start, DT)
    if sig:
        return f"{icls}|{sig}", f"a={spec_a} b={spec_b} order={order} start={start}: {sig}", empty
    return None, "", empty


def nt_case(args):
    """compute_correlations_nt with 3 or 4 operators: times given as lists (subsets), all combos of sides."""
    nops, sides, specs, start = args
    ops = [OP_A, OP_B, OP_C, OP_D][:nops]
    E = env()
    tab = exact_table(ops, list(sides))
    try:
        with warnings.catch_warnings():
            warnings.simplefilter("ignore")
            times, corr = oq.compute_correlations_nt(oq.System(H0), E["pt"], ops, [list(s) for s in specs],
                                                     list(sides), initial_state=RHO0, start_time=start,
                                                     progress_type="silent")
    except Exception as ex:  # noqa
        return f"corr{nops}|lists|exception:{type(ex).__name__}", f"specs={specs} sides={sides}: {str(ex)[:80]}"
    for k, s in enumerate(specs):
        if np.abs(np.asarray(times[k]) - (start + DT * np.array(s))).max() > 1e-12:
            return f"corr{nops}|lists|times-axis", f"specs={specs}"
    exp = np.full(corr.shape, np.nan + 1j * np.nan, dtype=complex)
    for idx in itertools.product(*[range(len(s)) for s in specs]):
        ts = tuple(specs[k][i] for k, i in enumerate(idx))
        if list(ts) == sorted(ts):
            exp[idx] = tab[ts]
    nan_o, nan_e = np.isnan(corr), np.isnan(exp)
    asc = all(list(s) == sorted(s) for s in specs)
    fam = "lists-ascending" if asc else "lists-unordered"
    if (nan_o != nan_e).any():
        return f"corr{nops}|{fam}|nan-pattern-or-misplaced", f"specs={specs} sides={sides}"
    if (~nan_e).any() and np.abs(corr[~nan_e] - exp[~nan_e]).max() > TOL:
        got = np.sort_complex(np.round(corr[~nan_o], 9))
        want = np.sort_complex(np.round(exp[~nan_e], 9))
        sig = "entries-at-wrong-indices" if np.allclose(got, want, atol=1e-8) else "wrong-value"
        return f"corr{nops}|{fam}|{sig}", f"specs={specs} sides={sides} dev={np.abs(corr[~nan_e] - exp[~nan_e]).max():.2e}"
    return None, ""


def relation_case(start):
    """anti(A,B)[ta,tb] == conj(ordered(B^dag, A^dag)[tb,ta]) on the full grid."""
    E = env()
    full = list(range(N + 1))
    _, anti = oq.compute_correlations(oq.System(H0), E["pt"], OP_A, OP_B, full, full, time_order="anti",
                                      initial_state=RHO0, start_time=start, progress_type="silent")
    _, ordd = oq.compute_correlations(oq.System(H0), E["pt"], OP_B.conj().T, OP_A.conj().T, full, full,
                                      time_order="ordered", initial_state=RHO0, start_time=start,
                                      progress_type="silent")
    m = ~np.isnan(anti)
    if (m != ~np.isnan(ordd.T)).any():
        return "relation|nan-pattern"
    if np.abs(anti[m] - np.conj(ordd.T[m])).max() > TOL:
        return "relation|anti-not-conjugate-of-ordered"
    return None


def td_case(order):
    """explicitly time-dependent system with start_time 1.7: the start time must reach the dynamics"""
    E = env()
    start = 1.7
    sides = ["left", "left"] if order == "ordered" else ["right", "left"]
    ops = [OP_A, OP_B] if order == "ordered" else [OP_B, OP_A]
    tab = {order: exact_table(ops, sides, props=td_props)}
    bad = []
    n = 0
    specs = [[0, 1, 2, 3], [3, 1, 0, 2], [2, 0], (float(start), float(start + 3 * DT)), (float(start + 2 * DT), float(start))]
    exps = [[0, 1, 2, 3], [3, 1, 0, 2], [2, 0], [0, 1, 2, 3], [2, 1, 0]]
    for (sa, ea), (sb, eb) in itertools.product(zip(specs, exps), repeat=2):
        n += 1
        try:
            times, corr = call2(sa, sb, order, start, system=td_system())
        except Exception as ex:  # noqa
            bad.append((f"corr2-td|{order}|exception:{type(ex).__name__}", f"a={sa} b={sb}: {ex}"[:150]))
            continue
        sig = compare(times, corr, ea, eb, tab, order, start, DT)
        if sig:
            bad.append((f"corr2-td|{order}|{sig}", f"time-dependent system, start_time={start}, a={sa} b={sb}: {sig}"))
    return {"n": n, "bad": bad}


def dt_case(kind):
    """dt argument vs dt stored in the PT."""
    E = env()
    full = list(range(N + 1))
    tdsys = oq.TimeDependentSystem(lambda t: H0 * (1 + 0.5 * np.floor(t / 0.05 + 1e-9) * 0.05))
    if kind == "pt-dt==caller-dt":
        pt, dt = E["pt"], DT
    elif kind == "pt-dt-only":
        pt, dt = E["pt"], None
    elif kind == "pt-without-dt+caller-dt":
        pt, dt = E["pt_nodt"], DT
    elif kind == "pt-dt!=caller-dt":
        pt, dt = E["pt"], 0.1
    dt_eff = dt if dt is not None else DT
    try:
        with warnings.catch_warnings():
            warnings.simplefilter("ignore")
            times, corr = oq.compute_correlations(oq.System(H0), pt, OP_A, OP_B, full, full, initial_state=RHO0,
                                                  start_time=0.0, dt=dt, progress_type="silent")
    except Exception as ex:  # noqa
        if kind == "pt-dt!=caller-dt":
            return None, "rejected"      # refusing the inconsistent request is fine
        return f"dt|{kind}|exception:{type(ex).__name__}", str(ex)[:100]
    tab_eff = exact_table([OP_A, OP_B], ["left", "left"], dt=dt_eff)
    axes_ok = np.abs(np.asarray(times[0]) - dt_eff * np.arange(N + 1)).max() < 1e-12
    m = ~np.isnan(tab_eff)
    dyn_ok = np.abs(corr[m] - tab_eff[m]).max() < TOL
    if axes_ok and dyn_ok:
        return None, "ok"
    if axes_ok and not dyn_ok:
        tab_pt = exact_table([OP_A, OP_B], ["left", "left"], dt=DT)
        if np.abs(corr[m] - tab_pt[m]).max() < TOL:
            return f"dt|{kind}|axes-use-caller-dt-but-dynamics-use-pt-dt", "time axes labelled with caller dt, values computed with PT dt"
        return f"dt|{kind}|wrong-value", ""
    return f"dt|{kind}|times-axis", ""


def shared_system_case(order):
    """one System object used for correlations at different caller-supplied time steps, in the given order"""
    E = env()
    full = list(range(N + 1))
    sysm = oq.System(H0)
    for i, dt in enumerate(order):
        with warnings.catch_warnings():
            warnings.simplefilter("ignore")
            times, corr = oq.compute_correlations(sysm, E["pt_nodt"], OP_A, OP_B, full, full, initial_state=RHO0,
                                                  start_time=0.0, dt=dt, progress_type="silent")
        tab = exact_table([OP_A, OP_B], ["left", "left"], dt=dt)
        m = ~np.isnan(tab)
        if np.abs(np.asarray(times[0]) - dt * np.arange(N + 1)).max() > 1e-12:
            return f"dt|shared-System|times-axis", f"order {order}"
        if (np.isnan(corr) != np.isnan(tab)).any() or np.abs(corr[m] - tab[m]).max() > TOL:
            return (f"dt|shared-System|{'first-time-step' if i == 0 else 'after-other-time-steps'}|wrong-value",
                    f"one System object, time steps {list(order[:i + 1])}: correlations at dt={dt} deviate by "
                    f"{np.abs(corr[m] - tab[m]).max():.2e}")
    return None, "ok"


def pttempo_case(args):
    """PT-TEMPO process tensor: reference table from per-(t_a) compute_dynamics runs with an explicit Control."""
    start, order = args
    sysm, bath = M.spin_boson(alpha=0.3)
    prm = oq.TempoParameters(dt=DT, epsrel=1e-9)
    pt = oq.pt_tempo_compute(bath, start, start + N * DT + 0.05, prm, progress_type="silent")
    tab = np.full((N + 1, N + 1), np.nan + 1j * np.nan, dtype=complex)
    first_op, side, last_op = (OP_A, "left", OP_B) if order == "ordered" else (OP_B, "right", OP_A)
    for a in range(N + 1):
        c = oq.Control(2)
        c.add_single(a, sup(first_op, side))
        d = oq.compute_dynamics(sysm, RHO0, process_tensor=pt, control=c, start_time=start, progress_type="silent")
        for b in range(a, N + 1):
            tab[a, b] = np.trace(last_op @ d.states[b])
    table = {order: tab}
    bad = []
    specs = [list(p) for p in itertools.permutations(range(N + 1))] + \
            [(float(start + a * DT), float(start + b * DT)) for a in range(N + 1) for b in range(N + 1)]
    n = 0
    for sa in specs:
        for sb in (specs if isinstance(sa, list) else specs[:6]):
            ea = sa if isinstance(sa, list) else (list(range(round((sa[0] - start) / DT), round((sa[1] - start) / DT) + 1))
                                                  if sa[0] <= sa[1] else list(range(round((sa[0] - start) / DT), round((sa[1] - start) / DT) - 1, -1)))
            eb = sb if isinstance(sb, list) else (list(range(round((sb[0] - start) / DT), round((sb[1] - start) / DT) + 1))
                                                  if sb[0] <= sb[1] else list(range(round((sb[0] - start) / DT), round((sb[1] - start) / DT) - 1, -1)))
            n += 1
            try:
                times, corr = oq.compute_correlations(sysm, pt, OP_A, OP_B, sa, sb, time_order=order, initial_state=RHO0,
                                                      start_time=start, progress_type="silent")
            except Exception as ex:  # noqa
                extra = "(reversed-interval-ending-at-step-0)" if any(
                    isinstance(s, tuple) and s[0] > s[1] and abs(s[1] - start) < 1e-9 for s in (sa, sb)) else ""
                bad.append((f"corr2-pttempo|{'list' if isinstance(sa, list) else 'interval'} x "
                            f"{'list' if isinstance(sb, list) else 'interval'}{extra}|{order}|exception:{type(ex).__name__}",
                            f"a={sa} b={sb}"))
                continue
            sig = compare(times, corr, ea, eb, table, order, start, DT)
            if sig:
                fa = family_of(ea, "list") if isinstance(sa, list) else "interval"
                fb = family_of(eb, "list") if isinstance(sb, list) else "interval"
                bad.append((f"corr2-pttempo|{fa} x {fb}|{order}|{sig}", f"a={sa} b={sb} start={start}"))
    return {"n": n, "bad": bad}


def build_cases(tier):
    cases = []
    full = ("list", list(range(N + 1)), list(range(N + 1)))
    for start in (0.0, 1.7):
        specs = all_specs(start)
        # (i) every specification in position a and in position b, against the full grid in the other position
        for fam, spec, exp in specs:
            for order in ("ordered", "anti"):
                cases.append((fam, spec, exp, full[0], full[1], full[2], order, start))
                cases.append((full[0], full[1], full[2], fam, spec, exp, order, start))
        # (ii) all pairs of ordered subsets, intervals x intervals, ints x ints, slices x lists (reduced)
        lists = [s for s in specs if s[0] == "list"]
        ivs = [s for s in specs if s[0] == "interval"]
        ints = [s for s in specs if s[0] in ("int", "float")]
        if tier == "thorough" and N > 3:
            # N = 4: all pairs of ordered subsets with at most three entries (start 0), full-length permutations vs themselves
            small = [x for x in lists if len(x[2]) <= 3] if start == 0.0 else [x for x in lists if len(x[2]) <= 2]
            for a, b in itertools.product(small, small):
                for order in ("ordered", "anti"):
                    cases.append((a[0], a[1], a[2], b[0], b[1], b[2], order, start))
        elif start == 0.0 or tier == "thorough":
            for a, b in itertools.product(lists, lists):
                for order in ("ordered", "anti"):
                    cases.append((a[0], a[1], a[2], b[0], b[1], b[2], order, start))
        for a, b in itertools.product(ivs, ivs):
            for order in ("ordered", "anti"):
                cases.append((a[0], a[1], a[2], b[0], b[1], b[2], order, start))
        for a, b in itertools.product(ints, ints):
            cases.append((a[0], a[1], a[2], b[0], b[1], b[2], "ordered", start))
        for a, b in itertools.product(ivs, lists[::7]):
            cases.append((a[0], a[1], a[2], b[0], b[1], b[2], "ordered", start))
            cases.append((b[0], b[1], b[2], a[0], a[1], a[2], "anti", start))
    return cases


def nt_cases(tier):
    subs2 = [[0, 2], [2, 0], [1, 3, 2], [0, 1, 2, 3], [3, 1], [1]]
    out = []
    for sides in itertools.product(("left", "right"), repeat=3):
        for sp in itertools.product(subs2, repeat=3):
            out.append((3, sides, tuple(tuple(s) for s in sp), 0.0))
    subs4 = [[0, 1], [2, 1], [3], [1, 3]]
    for sides in [("left", "left", "left", "left"), ("right", "left", "right", "left"), ("left", "right", "right", "left")]:
        for sp in itertools.product(subs4, repeat=4):
            out.append((4, sides, tuple(tuple(s) for s in sp), 1.7))
    return out


def run(tier, seed):
    global N
    rep = Report(LEVEL)
    # thorough tier: a grid of N = 4 steps (5 points); set before any cache is built and before the workers are forked
    N = 4 if tier == "thorough" else 3
    _ENV.clear()
    _TABLES.clear()
    tables()
    env()
    cases = build_cases(tier)
    res = pmap(two_time_case, cases, seed=seed)
    trivial = 0
    resolved = set()
    for c, (cls, what, triv) in zip(cases, res):
        trivial += bool(triv)
        if not triv:
            resolved.add((tuple(c[2]), tuple(c[5]), c[6]))
        if cls:
            rep.add(Violation(cls, what, {"part": "two", "a": [c[0], spec_json(c[1]), c[2]],
                                          "b": [c[3], spec_json(c[4]), c[5]], "order": c[6], "start": c[7]}))
    ncs = nt_cases(tier)
    nres = pmap(nt_case, ncs, seed=seed)
    for c, (cls, what) in zip(ncs, nres):
        if cls:
            rep.add(Violation(cls, what, {"part": "nt", "args": [c[0], list(c[1]), [list(s) for s in c[2]], c[3]]}))
    nrel = 0
    for start in (0.0, 1.7):
        nrel += 2
        sig = relation_case(start)
        if sig:
            rep.add(Violation(sig, f"start={start}", {"part": "relation", "start": start}))
    kinds = ["pt-dt==caller-dt", "pt-dt-only", "pt-without-dt+caller-dt", "pt-dt!=caller-dt"]
    dres = {}
    for k in kinds:
        cls, what = dt_case(k)
        dres[k] = cls or what
        if cls:
            rep.add(Violation(cls, what, {"part": "dt", "kind": k}))
    for o_ in itertools.permutations((DT, 0.5 * DT, 0.1)):
        cls, what = shared_system_case(o_)
        dres["shared-System " + str(list(o_))] = cls or what
        if cls:
            rep.add(Violation(cls, what, {"part": "dt-shared", "order": list(o_)}))
    ntd = 0
    for order in ("ordered", "anti"):
        r = td_case(order)
        ntd += r["n"]
        for cls, what in r["bad"]:
            rep.add(Violation(cls, what, {"part": "td", "order": order}))
    pres = pmap(pttempo_case, [(s, o) for s in (0.0, 1.7) for o in ("ordered", "anti")], chunksize=1, seed=seed)
    npt = 0
    for (s, o), r in zip([(s, o) for s in (0.0, 1.7) for o in ("ordered", "anti")], pres):
        npt += r["n"]
        for cls, what in r["bad"]:
            rep.add(Violation(cls, what, {"part": "pttempo", "start": s, "order": o}))
    from . import c07_bath
    bres = c07_bath.run_bath(tier, seed)
    for v in bres["violations"]:
        rep.add(v)
    total = len(cases) + len(ncs) + nrel + len(kinds) + npt + ntd + bres["evaluations"]
    rep.coverage = {
        "states": len(resolved) + len(ncs),
        "transitions": total,
        "traces_validated_against_impl": total,
        "exhaustive": True,
        "trivial_cases": trivial,
        "grid_steps": N,
        "spec_lattice": {"ints": N + 3, "slices": (N + 4) ** 2 * 4, "lists": sum(1 for c in all_specs(0.0) if c[0] == "list"),
                         "floats": 3 * (N + 1) + 2, "intervals": (N + 1) ** 2, "start_times": [0.0, 1.7]},
        "dt_family": dres,
        "bath_dynamics": bres["summary"],
        "rule": "state = (resolved index tuple of times_a, of times_b, time order) reached from a specification; every "
                "specification of the lattice is used in both argument positions against the full grid, all pairs of "
                "ordered subsets / intervals / ints are used together; n-time correlations over a reduced product of lists "
                "and all left/right patterns; transitions = real compute_correlations(_nt) calls; trivial = empty or "
                "out-of-range selections (exception or empty result accepted)",
        "samples": [{"a": spec_json(cases[i][1]), "b": spec_json(cases[i][4]), "order": cases[i][6], "start": cases[i][7]}
                    for i in ((seed * 101) % len(cases), len(cases) // 2, len(cases) - 1)],
    }
    rep.assumptions = ["exact table from first-principles system+ancilla simulation (mc/refmodel.py)",
                       "PT-TEMPO part: reference from compute_dynamics with explicit Control (differential)",
                       "empty selections and out-of-range values may raise or return empty arrays"]
    return rep


def replay(rp):
    part = rp["part"]
    if part == "two":
        a, b = rp["a"], rp["b"]
        ea = a[2] if isinstance(a[2], str) else list(a[2])
        eb = b[2] if isinstance(b[2], str) else list(b[2])
        cls, what, _ = two_time_case((a[0], spec_from_json(a[1]), ea, b[0], spec_from_json(b[1]), eb,
                                      rp["order"], rp["start"]))
        return {"obs": [cls, what], "violation": cls}
    if part == "nt":
        g = rp["args"]
        cls, what = nt_case((g[0], tuple(g[1]), tuple(tuple(s) for s in g[2]), g[3]))
        return {"obs": [cls, what], "violation": cls}
    if part == "relation":
        sig = relation_case(rp["start"])
        return {"obs": sig, "violation": sig}
    if part == "dt-shared":
        cls, what = shared_system_case(tuple(rp["order"]))
        return {"obs": [cls, what], "violation": cls}
    if part == "dt":
        cls, what = dt_case(rp["kind"])
        return {"obs": [cls, what], "violation": cls}
    if part == "td":
        r = td_case(rp["order"])
        return {"obs": r["bad"][:5], "violation": r["bad"][0][0] if r["bad"] else None}
    if part == "pttempo":
        r = pttempo_case((rp["start"], rp["order"]))
        return {"obs": r["bad"][:5], "violation": r["bad"][0][0] if r["bad"] else None}
    if part == "bath":
        from . import c07_bath
        return c07_bath.replay(rp)
    return {"obs": None, "violation": None}
