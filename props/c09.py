"""C09  Mean-field evolution agrees across methods and integrates the field correctly.

Bounded exhaustive exploration (full Cartesian products, no sampling).  Three families:

 x / dec  MeanFieldTempo  vs  compute_dynamics_with_field on the PT-TEMPO process tensors of the same baths
          (differential, states + field at every time, both record_all settings), plus for *each* method
          separately the field against my own Heun recursion driven by that method's own returned states
          (exact for every equation of motion) and against the closed integral for equations linear in t.
          'dec' = no system depends on the field: additionally every system against a plain Tempo run /
          a plain compute_dynamics run.
 exact    compute_dynamics_with_field on hand-built exact ancilla process tensors, and MeanFieldTempo with
          uncoupled (alpha = 0) baths, against a first-principles dense simulation of the mean-field scheme
          (system (x) ancilla density matrices; propagators from the field linearised at the start of the
          step; Heun for the field) written with numpy/scipy only.

All Hamiltonians / rates are affine in t and real-linear in the field, so the library's "exponential of the
integrated Liouvillian" equals the mid-point value for both subdiv_limit settings and the oracle is exact.

Alphabet (every domain simplest first; the full product is run):
  eom {const, 1+2t (complex coefficients), -kappa a, Tavis-Cummings (-kappa a - i g sum tr(sigma^- rho)),
       'full' (explicit t, all states, a, and a non-linear a|a|^2 term)}
  systems {1: d=2 | 2: d=2, d=3 (with a time-dependent dissipator, complex non-diagonal coupling operator)
           | 3: d=2, 3, 2 (third one couples through sigma_x)}
  start_time {0, 1.0, -0.4} x dt {0.1, 0.25} x n {0, 1, (2,) 4} x baths {alpha=0, coupled} x record_all {T, F}
  x epsrel {1e-6 | thorough: 1e-5, 1e-8} x initial field {generic | thorough: + 0} x subdiv_limit {default, None}

Measured on a tree in which compute_dynamics_with_field hands the *old* grid time to the Heun stages (i.e. where
the property holds; scratch copy, see final report): cross-method deviations <= 0.007 (quick) / 0.02 (thorough) of
the bound 20*epsrel*n; exact families <= 1.4e-14 (bound 1e-10); Heun recursion on own states: 0.0 (bound 1e-11).
Every mutant field rule of RULES moves the result by >= 2e-5 where it is distinguishable at all, a late field
derivative in the propagators by >= 7e-6 (bounds 1e-11 / 1e-10).
"""
import functools
import itertools

import numpy as np
import scipy.linalg as sl

from mc.common import Report, Violation, pmap, bind_repo
from mc import refmodel as R
from mc import ancilla as A
from . import models as M

oq = bind_repo()
LEVEL = "exploration"

# tolerances (constants fixed after measuring the unchanged alphabet; see coverage: max_dev_over_tol)
C_TRUNC = 20.0          # truncation limited comparisons: C_TRUNC * epsrel * n_steps
TOL_EXACT = 1e-10       # comparisons that involve no truncation (own dense simulation, ancilla PTs)
TOL_HEUN = 1e-11        # field vs Heun recursion on the method's own states (pure float arithmetic)
TOL_TIME = 1e-12
BATH_MIN = 5e-3         # a case with coupled baths counts as non-trivial only if the bath moves the states by this much
SENS = 30.0             # a mutant rule counts as "distinguishable" if it moves the result by > SENS * tol

# ------------------------------------------------------------------------------------------------
# model data (pure numpy; used by the library objects *and* by the oracle)

CONFS = {"1": ["A"], "2": ["A", "B"], "3": ["A", "B", "C"]}
DIM = {"A": 2, "B": 3, "C": 2}
TAG = {"A": 1, "B": 2, "C": 3}
GCOUP = {"A": 0.4, "B": 0.3, "C": -0.5}
ANC_E = {"A": 2, "B": 2, "C": 3}


def low(d):
    return np.diag(np.sqrt(np.arange(1, d)), -1).astype(complex)


@functools.lru_cache(maxsize=None)
def sys_data(nm):
    d = DIM[nm]
    h0 = M.generic_herm(d, TAG[nm], 0.8)
    h1 = M.generic_herm(d, TAG[nm] + 10, 0.6)
    return d, h0, h1, low(d)


def ham(nm, coupled):
    d, h0, h1, lo = sys_data(nm)
    g = GCOUP[nm] if coupled else 0.0

    def h(t, a):
        return h0 + 0.2 * t * h1 + g * (a * lo.conj().T + np.conj(a) * lo)
    return h


def gamma_of(nm):
    """time-dependent rate (affine in t, positive on the whole alphabet) or None"""
    if nm == "B":
        return lambda t: 0.15 + 0.1 * t
    return None


def liouv(nm, coupled, t, a):
    d, h0, h1, lo = sys_data(nm)
    g = gamma_of(nm)
    return R.lindbladian(ham(nm, coupled)(t, a), [g(t)] if g else [], [lo] if g else [])


def oq_field_system(nm, coupled):
    d, h0, h1, lo = sys_data(nm)
    g = gamma_of(nm)
    kw = {}
    if g:
        kw = {"gammas": [g], "lindblad_operators": [lambda t: lo]}
    return oq.TimeDependentSystemWithField(ham(nm, coupled), **kw)


def oq_plain_system(nm):
    d, h0, h1, lo = sys_data(nm)
    g = gamma_of(nm)
    kw = {}
    if g:
        kw = {"gammas": [g], "lindblad_operators": [lambda t: lo]}
    hh = ham(nm, False)
    return oq.TimeDependentSystem(lambda t: hh(t, 0.0), **kw)


@functools.lru_cache(maxsize=None)
def _rho0(nm):
    return M.generic_state(DIM[nm], TAG[nm] + 1)


def rho0_of(nm):
    r = _rho0(nm).copy()             # the library never gets an array it could share between cases
    if nm == "B":
        r = np.asfortranarray(r)     # one of the systems always hands over a column-major array (same values)
    return r


def bath_of(nm, kind):
    s = 1.0 if kind == "ohmic" else 0.0
    if nm == "A":
        return oq.Bath(0.5 * M.SZ, oq.PowerLawSD(alpha=0.5 * s, zeta=1.0, cutoff=3.0, cutoff_type="exponential",
                                                 temperature=0.4))
    if nm == "B":
        v = M.generic_unitary(3, 4)                                       # complex, non-symmetric
        op = v @ np.diag([1.0, 0.2, -0.7]).astype(complex) @ v.conj().T     # non-diagonal, non-degenerate
        return oq.Bath(op, oq.PowerLawSD(alpha=0.4 * s, zeta=1.0, cutoff=2.5, cutoff_type="gaussian", temperature=0.0))
    return oq.Bath(0.5 * M.SX, oq.PowerLawSD(alpha=0.3 * s, zeta=3.0, cutoff=4.0, cutoff_type="exponential",
                                             temperature=1.0))


EOMS = ["const", "lin_t", "decay", "tc", "full", "zero"]       # zero: the field never moves (derivative exactly 0)
LIN_C0, LIN_C1 = (1.0 + 0.5j), (2.0 - 1.0j)
CONST_C = 0.3 - 0.2j


def make_eom(name, names):
    lows = [low(DIM[nm]) for nm in names]
    obs = [lo + 0.3 * lo.conj().T + 0.2 * np.diag(np.arange(lo.shape[0])) for lo in lows]
    w = [1.0, 0.7, -0.5][:len(names)]
    if name == "zero":
        return lambda t, s, a: 0.0
    if name == "const":
        return lambda t, s, a: CONST_C
    if name == "lin_t":
        return lambda t, s, a: LIN_C0 + LIN_C1 * t
    if name == "decay":
        return lambda t, s, a: -(0.6 + 0.9j) * a
    if name == "tc":
        return lambda t, s, a: -(0.4 + 1.1j) * a - 0.8j * sum(np.trace(lo @ r) for lo, r in zip(lows, s))
    if name == "full":
        return lambda t, s, a: (-(0.4 + 1.1j) * (1 + 0.5 * t) * a - 0.3 * a * abs(a) ** 2 + 0.5 * t
                                - 0.8j * np.cos(1.3 * t) * sum(wi * np.trace(o @ r) for wi, o, r in zip(w, obs, s)))
    raise ValueError(name)


# ------------------------------------------------------------------------------------------------
# oracles

RULES = ["heun", "time+dt", "rk2-at-t", "euler", "rk2-old-states", "rk2-no-predictor", "no-start-time"]


def heun_step(f, rule, t, dt, start, s0, s1, a):
    """One field step t -> t+dt under the named rule ('heun' is the property; the others are mutants used to
    measure how far a realistic bug would move the result)."""
    if rule == "time+dt":
        t = t + dt
    if rule == "no-start-time":
        t = t - start
    rk1 = f(t, s0, a)
    if rule == "euler":
        return a + dt * rk1
    t2 = t if rule == "rk2-at-t" else t + dt
    s2 = s0 if rule == "rk2-old-states" else s1
    a2 = a if rule == "rk2-no-predictor" else a + rk1 * dt
    rk2 = f(t2, s2, a2)
    return a + dt * (rk1 + rk2) / 2


def heun_path(f, states, a0, start, dt, rule="heun"):
    """states[k] = list of density matrices at grid point k"""
    a = complex(a0)
    out = [a]
    for k in range(len(states) - 1):
        a = heun_step(f, rule, start + k * dt, dt, start, states[k], states[k + 1], a)
        out.append(a)
    return np.array(out)


def anc_env(nm, n):
    d, e = DIM[nm], ANC_E[nm]
    p = np.arange(1, e + 1, dtype=float)
    p /= p.sum()
    u = R.random_free_unitary(e, 40 + TAG[nm])
    sigma = (u * p) @ u.conj().T
    ks = [[R.random_free_unitary(d * e, 31 * TAG[nm] + k)] for k in range(n)]
    return sigma, ks


def dense_meanfield(names, coupled, f, a0, start, dt, n, envs, rule="heun", deriv_rule="heun"):
    """First-principles mean-field scheme.  envs[i] = (sigma, kraus_per_step) or None.
    Per step: a' = f(t_n, rho_n, a_n); every system: expm(L(t_n+dt/4, a_n+a' dt/4) dt/2), environment map,
    expm(L(t_n+3dt/4, a_n+a' 3dt/4) dt/2); field by Heun with the states at both ends."""
    sims = [R.JointSim(rho0_of(nm), [env[0]] if env else []) for nm, env in zip(names, envs)]
    a = complex(a0)
    states = [[s.reduced() for s in sims]]
    fields = [a]
    for k in range(n):
        t = start + k * dt
        cur = states[-1]
        td = t + dt if deriv_rule == "time+dt" else t
        da = f(td, cur, a)
        for nm, s, env in zip(names, sims, envs):
            p1 = sl.expm(liouv(nm, coupled, t + dt / 4, a + da * dt / 4) * dt / 2)
            p2 = sl.expm(liouv(nm, coupled, t + 3 * dt / 4, a + da * 3 * dt / 4) * dt / 2)
            s.apply_sys_superop(p1)
            if env:
                s.apply_env_kraus(0, env[1][k])
            s.apply_sys_superop(p2)
        new = [s.reduced() for s in sims]
        a = heun_step(f, rule, t, dt, start, cur, new, a)
        states.append(new)
        fields.append(a)
    return states, np.array(fields)


# ------------------------------------------------------------------------------------------------
# helpers around the library

_PT = {}


def pt_tempo(nm, kind, dt, n, epsrel):
    """PT-TEMPO process tensor with max(n, 2) steps (PtTempo refuses fewer than two); runs pass num_steps=n."""
    m = max(n, 2)
    key = (nm, kind, dt, m, epsrel)
    if key not in _PT:
        prm = oq.TempoParameters(dt=dt, epsrel=epsrel, dkmax=None)
        _PT[key] = oq.pt_tempo_compute(bath_of(nm, kind), 0.0, (m + 0.5) * dt, prm, progress_type="silent")
        if len(_PT[key]) != m:
            raise RuntimeError("harness: PT-TEMPO process tensor has the wrong length")
    return _PT[key]


def unpack(dyn):
    """-> times, states[k][i], fields"""
    times = np.array(dyn.times)
    per_sys = [np.array(sd.states) for sd in dyn.system_dynamics]
    states = [[ps[k] for ps in per_sys] for k in range(len(times))]
    return times, states, np.array(dyn.fields)


def sdev(s1, s2):
    return max(float(np.abs(a - b).max()) for x, y in zip(s1, s2) for a, b in zip(x, y))


def monitor(states):
    tr = herm = 0.0
    mineig = 1.0
    for row in states:
        for r in row:
            tr = max(tr, abs(np.trace(r) - 1))
            herm = max(herm, float(np.abs(r - r.conj().T).max()))
            mineig = min(mineig, float(np.linalg.eigvalsh((r + r.conj().T) / 2).min()))
    return float(tr), herm, mineig


def case_str(c):
    keys = ("fam", "route", "eom", "conf", "start", "dt", "n", "bath", "epsrel", "a0", "subdiv")
    return " ".join(f"{k}={c[k]}" for k in keys if k in c)


def field_scale(fields):
    return max(1.0, float(np.abs(fields).max()))


def check_field_rule(tag, f, states, fields, a0, start, dt, bad, out):
    """Field returned by one method vs Heun recursion on that method's own states."""
    ref = heun_path(f, states, a0, start, dt)
    dev = float(np.abs(fields - ref).max())
    out[tag + "_heun_dev"] = dev
    tol = TOL_HEUN * field_scale(ref) * len(states)
    if dev > tol:
        sig = f"{tag}-field-not-heun"
        sh = heun_path(f, states, a0, start, dt, rule="time+dt")
        if float(np.abs(fields - sh).max()) <= tol:
            sig = f"{tag}-field-is-heun-with-eom-times-shifted-by-dt"
        k = int(np.argmax(np.abs(fields - ref) > tol))
        bad.append((sig, dev, f"first at k={k}: got {fields[k]:.6f} want {ref[k]:.6f}"))
    return ref


def check_closed_form(tag, eom, fields, a0, start, dt, bad, out):
    if eom not in ("const", "lin_t", "zero"):
        return
    tk = start + dt * np.arange(len(fields))
    if eom == "zero":
        ref = a0 + 0.0 * tk
    elif eom == "const":
        ref = a0 + CONST_C * (tk - start)
    else:
        ref = a0 + LIN_C0 * (tk - start) + LIN_C1 * (tk ** 2 - start ** 2) / 2
    dev = float(np.abs(fields - ref).max())
    out[tag + "_closed_dev"] = dev
    if dev > TOL_HEUN * field_scale(ref) * len(fields):
        k = int(np.argmax(np.abs(fields - ref) > TOL_HEUN * field_scale(ref) * len(fields)))
        bad.append((f"{tag}-field-not-exact-integral-of-linear-eom", dev,
                    f"first at k={k}: got {fields[k]:.6f} want {ref[k]:.6f}"))


def check_times(tag, times, start, dt, n, bad):
    want = start + dt * np.arange(n + 1)
    if len(times) != n + 1:
        bad.append((f"{tag}-wrong-number-of-times", float(len(times)), f"{len(times)} times instead of {n + 1}"))
        return False
    d = float(np.abs(times - want).max())
    if d > TOL_TIME * (1 + abs(start) + n * dt):
        bad.append((f"{tag}-time-axis", d, f"time axis off by {d:.2e}"))
    return True


# ------------------------------------------------------------------------------------------------
# family x / dec : the two methods against each other, each against Heun, decoupled systems against Tempo

def exc_record(ex):
    """-> bad-list entry 'exception:<Type>@<innermost oqupy function>'"""
    import traceback
    where = "?"
    for fr in traceback.extract_tb(ex.__traceback__):
        if "/oqupy/" in fr.filename:
            where = fr.name
    return {"bad": [(f"exception:{type(ex).__name__}@{where}", 0.0, f"{type(ex).__name__}: {ex}"[:160])], "exc": True}


def cls_of(c, sig):
    """violation class = input class | failure signature"""
    if sig.startswith("exception:"):
        return f"{c['fam']}|n={c['n']}|{sig}"
    return f"{c['fam']}|eom={c['eom']}|{sig}"


def run_x(case):
    try:
        return _run_x(case)
    except Exception as ex:  # noqa
        return exc_record(ex)


def _run_x(case):
    eom, names, start, dt, n = case["eom"], CONFS[case["conf"]], case["start"], case["dt"], case["n"]
    kind, epsrel, a0 = case["bath"], case["epsrel"], complex(*case["a0"])
    coupled = case["fam"] == "x"
    f = make_eom(eom, names)
    mfs = oq.MeanFieldSystem([oq_field_system(nm, coupled) for nm in names], f)
    prm = oq.TempoParameters(dt=dt, epsrel=epsrel, dkmax=None)
    baths = [bath_of(nm, kind) for nm in names]
    rho0s = [rho0_of(nm) for nm in names]
    end = start + (n + 0.5) * dt
    bad, out = [], {}
    tol_tr = C_TRUNC * epsrel * max(n, 1)

    mft = oq.MeanFieldTempo(mfs, baths, prm, rho0s, a0, start_time=start)
    tm, sm, fm = unpack(mft.compute(end, progress_type="silent"))
    pts = [pt_tempo(nm, kind, dt, n, epsrel) for nm in names]
    kw = dict(initial_field=a0, process_tensor_list=pts, initial_state_list=rho0s, start_time=start,
              num_steps=n, progress_type="silent")
    tp, sp, fp = unpack(oq.compute_dynamics_with_field(mfs, record_all=True, **kw))
    tf, sf, ff = unpack(oq.compute_dynamics_with_field(mfs, record_all=False, **kw))

    ok_m = check_times("mft", tm, start, dt, n, bad)
    ok_p = check_times("ptroute", tp, start, dt, n, bad)
    if not (ok_m and ok_p):
        return {"bad": bad}

    # (1) the two methods against each other
    out["x_state_dev"] = sdev(sm, sp)
    out["x_field_dev"] = float(np.abs(fm - fp).max())
    fs = field_scale(fm)
    if out["x_state_dev"] > tol_tr:
        bad.append(("states-differ-between-methods", out["x_state_dev"],
                    f"max |rho_MFT - rho_PT| = {out['x_state_dev']:.2e} > {tol_tr:.1e}"))
    if out["x_field_dev"] > tol_tr * fs:
        k = int(np.argmax(np.abs(fm - fp) > tol_tr * fs))
        bad.append(("fields-differ-between-methods", out["x_field_dev"],
                    f"first at k={k}: MeanFieldTempo {fm[k]:.6f} vs compute_dynamics_with_field {fp[k]:.6f}"))

    # (2) each method's field against Heun on its own states, and the closed integral
    ref_m = check_field_rule("mft", f, sm, fm, a0, start, dt, bad, out)
    check_field_rule("ptroute", f, sp, fp, a0, start, dt, bad, out)
    check_closed_form("mft", eom, fm, a0, start, dt, bad, out)
    check_closed_form("ptroute", eom, fp, a0, start, dt, bad, out)

    # (3) record_all=False
    if len(tf) != 1 or len(ff) != 1:
        bad.append(("ptroute-record_all=False-wrong-length", float(len(tf)), f"{len(tf)} entries"))
    else:
        d = max(sdev([sf[0]], [sp[-1]]), abs(ff[0] - fp[-1]))
        out["recF_dev"] = float(d)
        if d > 1e-12 * fs:
            bad.append(("ptroute-record_all=False-differs-from-last-of-record_all=True", float(d),
                        f"final state/field differ by {d:.2e}"))
        if abs(tf[0] - (start + n * dt)) > TOL_TIME * (1 + abs(start) + n * dt):
            bad.append(("ptroute-record_all=False-time-label", float(tf[0]), f"time {tf[0]} != {start + n * dt}"))

    # (4) no system depends on the field: every system as in a plain TEMPO / compute_dynamics run
    if not coupled:
        dmax_t = dmax_c = 0.0
        for i, nm in enumerate(names):
            plain = oq_plain_system(nm)
            tdyn = oq.Tempo(plain, baths[i], prm, rho0s[i], start).compute(end, progress_type="silent")
            ts = np.array(tdyn.states)
            if ts.shape[0] != n + 1:
                raise RuntimeError("harness: plain Tempo run has the wrong length")
            dmax_t = max(dmax_t, float(np.abs(ts - np.array([row[i] for row in sm])).max()))
            cdyn = oq.compute_dynamics(plain, rho0s[i], process_tensor=pts[i], start_time=start,
                                       num_steps=n, progress_type="silent")
            dmax_c = max(dmax_c, float(np.abs(np.array(cdyn.states) - np.array([row[i] for row in sp])).max()))
        out["dec_tempo_dev"], out["dec_cd_dev"] = dmax_t, dmax_c
        if dmax_t > tol_tr:
            bad.append(("mft-decoupled-system-differs-from-plain-tempo", dmax_t, f"{dmax_t:.2e} > {tol_tr:.1e}"))
        if dmax_c > TOL_EXACT:
            bad.append(("ptroute-decoupled-system-differs-from-compute_dynamics", dmax_c, f"{dmax_c:.2e}"))

    # physicality monitor (DESIGN 3.5)
    tr1, he1, me1 = monitor(sm)
    tr2, he2, me2 = monitor(sp)
    out["mon"] = (max(tr1, tr2), max(he1, he2), min(me1, me2), 2 * len(sm) * len(names))
    if max(tr1, tr2) > 5 * tol_tr or max(he1, he2) > 5 * tol_tr or min(me1, me2) < -5 * tol_tr:
        bad.append(("monitor-unphysical-state", max(tr1, tr2),
                    f"trace dev {max(tr1, tr2):.1e} herm {max(he1, he2):.1e} min eig {min(me1, me2):.1e}"))

    # vacuity: sizes of the effects, distance of every mutant rule from the property (on MFT's states)
    out["field_range"] = float(np.abs(ref_m - a0).max())
    out["state_motion"] = sdev(sm, [sm[0]] * len(sm))
    out["mutants"] = {r: float(np.abs(heun_path(f, sm, a0, start, dt, rule=r) - ref_m).max()) for r in RULES[1:]}
    out["states"] = np.array([np.concatenate([r.ravel() for r in row]) for row in sm])
    out["bad"] = bad
    return out


# ------------------------------------------------------------------------------------------------
# family exact : ancilla process tensors / uncoupled baths against the dense first-principles scheme

def run_e(case):
    try:
        return _run_e(case)
    except Exception as ex:  # noqa
        return exc_record(ex)


def _run_e(case):
    eom, names, start, dt, n = case["eom"], CONFS[case["conf"]], case["start"], case["dt"], case["n"]
    route, a0, subdiv = case["route"], complex(*case["a0"]), case["subdiv"]
    f = make_eom(eom, names)
    mfs = oq.MeanFieldSystem([oq_field_system(nm, True) for nm in names], f)
    rho0s = [rho0_of(nm) for nm in names]
    bad, out = [], {}
    skw = {} if subdiv == "default" else {"subdiv_limit": None}
    if route == "anc":
        envs = [anc_env(nm, n) for nm in names]
        pts = [A.build_pt(DIM[nm], ANC_E[nm], env[0], env[1], dt=dt) for nm, env in zip(names, envs)]
        kw = dict(initial_field=a0, process_tensor_list=pts, initial_state_list=rho0s, start_time=start,
                  progress_type="silent", **skw)
        tl, slib, fl = unpack(oq.compute_dynamics_with_field(mfs, record_all=True, **kw))
        tf, sf, ff = unpack(oq.compute_dynamics_with_field(mfs, record_all=False, **kw))
    else:
        envs = [None] * len(names)
        prm = oq.TempoParameters(dt=dt, epsrel=1e-9, dkmax=None, **skw)
        mft = oq.MeanFieldTempo(mfs, [bath_of(nm, "none") for nm in names], prm, rho0s, a0, start_time=start)
        tl, slib, fl = unpack(mft.compute(start + (n + 0.5) * dt, progress_type="silent"))
        tf = None
    if not check_times(route, tl, start, dt, n, bad):
        return {"bad": bad}
    sref, fref = dense_meanfield(names, True, f, a0, start, dt, n, envs)
    ds, df = sdev(slib, sref), float(np.abs(fl - fref).max())
    out["state_dev"], out["field_dev"] = ds, df
    fs = field_scale(fref)
    if ds > TOL_EXACT or df > TOL_EXACT * fs:
        # does it equal the scheme with the equation of motion evaluated one step late in the Heun stages?
        ssh, fsh = dense_meanfield(names, True, f, a0, start, dt, n, envs, rule="time+dt")
        late = sdev(slib, ssh) <= TOL_EXACT and float(np.abs(fl - fsh).max()) <= TOL_EXACT * fs
        if late:
            k = int(np.argmax(np.abs(fl - fref) > TOL_EXACT * fs))
            bad.append((f"{route}-equals-scheme-with-heun-stages-evaluated-one-step-late", max(ds, df),
                        f"field first off at k={k}: got {fl[k]:.6f} want {fref[k]:.6f}; states off by {ds:.2e}"))
        else:
            if df > TOL_EXACT * fs:
                k = int(np.argmax(np.abs(fl - fref) > TOL_EXACT * fs))
                bad.append((f"{route}-field-not-exact", df, f"first at k={k}: got {fl[k]:.6f} want {fref[k]:.6f}"))
            if ds > TOL_EXACT:
                bad.append((f"{route}-states-not-exact", ds, f"max |rho - exact| = {ds:.2e}"))
    if tf is not None:
        if len(tf) != 1 or len(ff) != 1:
            bad.append(("anc-record_all=False-wrong-length", float(len(tf)), f"{len(tf)} entries"))
        else:
            d = max(sdev([sf[0]], [slib[-1]]), abs(ff[0] - fl[-1]))
            if d > 1e-12 * fs:
                bad.append(("anc-record_all=False-differs-from-last-of-record_all=True", float(d), f"{d:.2e}"))
            if abs(tf[0] - (start + n * dt)) > TOL_TIME * (1 + abs(start) + n * dt):
                bad.append(("anc-record_all=False-time-label", float(tf[0]), f"time {tf[0]} != {start + n * dt}"))
    tr, he, me = monitor(slib)
    out["mon"] = (tr, he, me, len(slib) * len(names))
    if tr > 1e-9 or he > 1e-9 or me < -1e-9:
        bad.append(("monitor-unphysical-state", tr, f"trace dev {tr:.1e} herm {he:.1e} min eig {me:.1e}"))
    # vacuity: effect of the field on the systems, of the environment, of every mutant rule (all from the oracle)
    s_dec, _ = dense_meanfield(names, False, f, a0, start, dt, n, envs)
    out["feedback"] = sdev(sref, s_dec)
    if route == "anc":
        s_free, _ = dense_meanfield(names, True, f, a0, start, dt, n, [None] * len(names))
        out["env_influence"] = sdev(sref, s_free)
    out["field_range"] = float(np.abs(fref - a0).max())
    mut = {}
    for r in RULES[1:]:
        sm_, fm_ = dense_meanfield(names, True, f, a0, start, dt, n, envs, rule=r)
        mut[r] = max(float(np.abs(fm_ - fref).max()), sdev(sm_, sref))
    sm_, fm_ = dense_meanfield(names, True, f, a0, start, dt, n, envs, deriv_rule="time+dt")
    mut["propagator-derivative-at-t+dt"] = max(float(np.abs(fm_ - fref).max()), sdev(sm_, sref))
    out["mutants"] = mut
    out["bad"] = bad
    return out


# ------------------------------------------------------------------------------------------------
# alphabets

def alphabet(tier):
    q = tier == "quick"
    al = {
        "eom": EOMS,
        "conf": ["1", "2", "3"],
        "start": [0.0, 1.0, -0.4],
        "dt": [0.1, 0.25],
        "n": [1, 4] if q else [1, 2, 4],          # family exact
        "n_x": [0, 1, 4] if q else [0, 1, 2, 4],   # families x / dec (0 = no step at all)
        "bath": ["none", "ohmic"],
        "epsrel": [1e-6] if q else [1e-5, 1e-8],
        "a0": [[0.6, -0.3]] if q else [[0.6, -0.3], [0.0, 0.0]],
        "subdiv": ["default", None],
        "route": ["anc", "mft0"],
    }
    return al


def build_cases(tier):
    al = alphabet(tier)
    xs, es = [], []
    for fam in ("x", "dec"):
        for conf, bath, dt, n, epsrel, start, a0, eom in itertools.product(
                al["conf"], al["bath"], al["dt"], al["n_x"], al["epsrel"], al["start"], al["a0"], al["eom"]):
            xs.append({"fam": fam, "eom": eom, "conf": conf, "start": start, "dt": dt, "n": n, "bath": bath,
                       "epsrel": epsrel, "a0": a0})
    for route, conf, dt, n, subdiv, start, a0, eom in itertools.product(
            al["route"], al["conf"], al["dt"], al["n"], al["subdiv"], al["start"], al["a0"], al["eom"]):
        es.append({"fam": "exact", "route": route, "eom": eom, "conf": conf, "start": start, "dt": dt, "n": n,
                   "a0": a0, "subdiv": subdiv})
    return xs, es


def r3(x):
    """3 significant digits for reported floats (run-to-run float jitter of separately truncated networks)"""
    if isinstance(x, dict):
        return {k: r3(v) for k, v in x.items()}
    if isinstance(x, (list, tuple)):
        return [r3(v) for v in x]
    if isinstance(x, float):
        return float(f"{x:.3g}")
    return x


def up1(x, floor=0.0):
    """noise-level measurements (float jitter of separately truncated networks differs from run to run): rounded *up*
    to one significant digit (and to at least `floor`), so that the reported number is an upper bound and reproducible"""
    if isinstance(x, dict):
        return {k: up1(v, floor) for k, v in x.items()}
    if isinstance(x, float) and x > 0:
        x = max(x, floor)
        e = int(np.floor(np.log10(x)))
        return float(f"{np.ceil(x / 10.0 ** e * (1 - 1e-9)) * 10.0 ** e:.1g}")
    return x


def up10(x, floor):
    """per-check noise figures: upper bound rounded up to the next power of ten (the deviation between two runs of
    the *same* truncated algorithm jitters by tens of percent from run to run)"""
    if isinstance(x, dict):
        return {k: up10(v, floor) for k, v in x.items()}
    if isinstance(x, float) and x > 0:
        return float(f"{10.0 ** np.ceil(np.log10(max(x, floor)) - 1e-9):.1g}")
    return x


def ckey(c):
    return tuple((k, str(c[k])) for k in sorted(c))


def run(tier, seed):
    rep = Report(LEVEL)
    xs, es = build_cases(tier)
    xres = pmap(run_x, xs, seed=seed)
    eres = pmap(run_e, es, seed=seed)

    maxrel = {}          # check name -> (max dev / tol)
    maxdev = {}
    failing = {}

    def note(name, dev, tol):
        """head-room statistics over the cases without any violation (violating cases are reported as violations and
        counted in comparisons_over_tolerance_by_check / cases_excluded_from_headroom_statistics)"""
        if dev > tol:
            failing[name] = failing.get(name, 0) + 1
            return
        maxdev[name] = max(maxdev.get(name, 0.0), dev)
        maxrel[name] = max(maxrel.get(name, 0.0), dev / tol)

    note_all = note
    excluded = [0]

    def note_failing_only(name, dev, tol):
        if dev > tol:
            failing[name] = failing.get(name, 0) + 1

    nontrivial = set()
    monitored = 0
    mon_worst = [0.0, 0.0, 1.0]
    mutant_stats = {}
    min_eff = {}

    def eff(name, v):
        min_eff[name] = min(min_eff.get(name, 1e9), v)

    def mut_note(fam, r, dist, tol):
        st = mutant_stats.setdefault(f"{fam}:{r}", {"distinguishable": 0, "min_distance_when_distinguishable": None})
        if dist > SENS * tol:
            st["distinguishable"] += 1
            m = st["min_distance_when_distinguishable"]
            st["min_distance_when_distinguishable"] = dist if m is None else min(m, dist)

    index = {ckey(c): r for c, r in zip(xs, xres)}
    n_bath_active = n_feedback_active = 0
    infl_by_n = {}
    for c, r in zip(xs, xres):
        for sig, val, detail in r["bad"]:
            rep.add(Violation(cls_of(c, sig), f"{case_str(c)}: {detail}", dict(c, want=sig)))
        if "x_state_dev" not in r:
            continue
        tol_tr = C_TRUNC * c["epsrel"] * max(c["n"], 1)
        if r["bad"]:
            excluded[0] += 1
            note = note_failing_only
        else:
            note = note_all
        note("x_state(trunc)", r["x_state_dev"], tol_tr)
        note("x_field(trunc)", r["x_field_dev"], tol_tr)
        for tag in ("mft", "ptroute"):
            note(tag + "_heun", r[tag + "_heun_dev"], TOL_HEUN * (c["n"] + 1))
            if tag + "_closed_dev" in r:
                note(tag + "_closed", r[tag + "_closed_dev"], TOL_HEUN * (c["n"] + 1))
        if "recF_dev" in r:
            note("recF", r["recF_dev"], 1e-12)
        if "dec_tempo_dev" in r:
            note("dec_vs_tempo(trunc)", r["dec_tempo_dev"], tol_tr)
            note("dec_vs_compute_dynamics", r["dec_cd_dev"], TOL_EXACT)
        tr, he, me, cnt = r["mon"]
        monitored += cnt
        mon_worst = [max(mon_worst[0], tr), max(mon_worst[1], he), min(mon_worst[2], me)]
        for rname, dist in r["mutants"].items():
            mut_note("x", rname, dist, TOL_HEUN * max(c["n"], 1))
        # measured effects: bath influence (partner with uncoupled bath), field feedback (partner 'dec')
        infl = fb = None
        if c["bath"] == "ohmic":
            p = index.get(ckey(dict(c, bath="none")))
            if p is not None and "states" in p:
                infl = float(np.abs(r["states"] - p["states"]).max())
        if c["fam"] == "x":
            p = index.get(ckey(dict(c, fam="dec")))
            if p is not None and "states" in p:
                fb = float(np.abs(r["states"] - p["states"]).max())
        moved = r["field_range"] > 1e-2 and r["state_motion"] > 1e-2
        if infl is not None:
            k = f"n={c['n']}"
            infl_by_n[k] = [min(infl_by_n.get(k, [9, 0])[0], infl), max(infl_by_n.get(k, [9, 0])[1], infl)]
        if infl is not None and infl > 0.02:
            n_bath_active += 1
        if fb is not None and fb > 0.01:
            n_feedback_active += 1
        if c["fam"] == "x":
            active = moved and fb is not None and fb > 0.01 * (1 if c["n"] > 1 else 0.1)
        else:
            active = moved
        if c["bath"] == "ohmic":
            active = active and infl is not None and infl > BATH_MIN
        if active:
            nontrivial.add(ckey(c))
            eff("x/dec field range", r["field_range"])
            eff("x/dec state motion", r["state_motion"])
            if fb is not None:
                eff("x field feedback on states", fb)
            if infl is not None and c["n"] > 1:
                eff("x/dec bath influence (n>1, ohmic)", infl)

    for c, r in zip(es, eres):
        for sig, val, detail in r["bad"]:
            rep.add(Violation(cls_of(c, sig), f"{case_str(c)}: {detail}", dict(c, want=sig)))
        if "state_dev" not in r:
            continue
        if r["bad"]:
            excluded[0] += 1
            note = note_failing_only
        else:
            note = note_all
        note(f"exact_{c['route']}_state", r["state_dev"], TOL_EXACT)
        note(f"exact_{c['route']}_field", r["field_dev"], TOL_EXACT)
        tr, he, me, cnt = r["mon"]
        monitored += cnt
        for rname, dist in r["mutants"].items():
            mut_note("exact", rname, dist, TOL_EXACT)
        active = r["field_range"] > 1e-2 and r["feedback"] > 1e-3 and r.get("env_influence", 1.0) > 0.05
        if active:
            nontrivial.add(ckey(c))
            eff("exact field range", r["field_range"])
            eff("exact field feedback on states", r["feedback"])
            if "env_influence" in r:
                eff("exact ancilla influence", r["env_influence"])

    worst = max(maxrel.values()) if maxrel else 0.0
    wname = max(maxrel, key=maxrel.get) if maxrel else None
    al = alphabet(tier)
    rep.coverage = {
        "evaluations": len(xs) + len(es),
        "library_runs": sum((3 if c["fam"] == "x" else 3 + 2 * len(CONFS[c["conf"]])) for c in xs)
                        + sum((2 if c["route"] == "anc" else 1) for c in es),
        "distinct_nontrivial": len(nontrivial),
        "exhaustive": True,
        "alphabet": {k: v for k, v in al.items()},
        "family_sizes": {"x": len(xs) // 2, "dec": len(xs) // 2, "exact": len(es)},
        "rule": "families x (field-coupled systems) and dec (no system depends on the field): full product eom x "
                "systems(1: d=2; 2: d=2,3; 3: d=2,3,2) x start_time x dt x n x bath x epsrel x initial field, each "
                "case = MeanFieldTempo + compute_dynamics_with_field(record_all True and False) on PT-TEMPO PTs "
                "(+ Tempo and compute_dynamics per system in dec); family exact: full product route(ancilla PTs "
                "through compute_dynamics_with_field | MeanFieldTempo with alpha=0 baths) x eom x systems x start "
                "x dt x n x subdiv_limit x initial field against the dense scheme.  Non-trivial (distinct by the "
                "full parameter tuple): the field moves by >1e-2 and the states by >1e-2 and, for x, the measured "
                "difference to the decoupled partner run is >1e-2 (>1e-3 for n=1); for exact: field range >1e-2, "
                "field feedback on the states >1e-3 and (ancilla route) environment influence >0.05; x/dec cases with "
                "coupled baths additionally need a measured bath influence (difference to the alpha=0 partner run) "
                f">{BATH_MIN}",
        "samples": [xs[(seed * 37) % len(xs)],
                    next(c for c in xs if c["n"] == 4 and c["bath"] == "ohmic" and c["eom"] == "full" and c["conf"] == "3"),
                    next(c for c in es if c["n"] == 4 and c["eom"] == "tc" and c["conf"] == "2" and c["start"] == 1.0)],
        "max_dev": up1(maxdev.get(wname, 0.0)) if wname else 0.0,
        "tolerance": f"truncation-limited: {C_TRUNC}*epsrel*n; exact scheme: {TOL_EXACT}; field vs Heun on own "
                     f"states: {TOL_HEUN}*n*max(1,|a|); record_all=False vs True: 1e-12",
        "max_dev_over_tol": up1(worst),
        "worst_check": wname,
        "max_dev_by_check": up10(maxdev, 1e-13),          # upper bounds; pure rounding noise reported as 1e-13
        "max_dev_over_tol_by_check": up10(maxrel, 1e-3),
        "comparisons_over_tolerance_by_check": failing,
        "cases_excluded_from_headroom_statistics": excluded[0],
        "min_effect_sizes": r3(min_eff),
        "cases_with_bath_influence_gt_0.02": n_bath_active,
        "bath_influence_min_max_by_n(ohmic vs alpha=0 partner)": r3(infl_by_n),
        "cases_with_field_feedback_gt_0.01": n_feedback_active,
        "mutant_rules": r3(mutant_stats),
        "monitored_states": monitored,
        "monitor_worst_truncated": {"trace_dev": up1(mon_worst[0]), "herm_dev": up1(mon_worst[1]),
                                    "min_eig": r3(mon_worst[2])},
    }
    rep.assumptions = [
        "Hamiltonians and rates of the alphabet are affine in t and real-linear in the field, so that the exponential "
        "of the integrated Liouvillian (default subdiv_limit) and of the two sampled Liouvillians (subdiv_limit=None) "
        "coincide with the mid-point values used by the dense oracle",
        "documented discretisation taken as the specification: system propagators of a step use the field and its "
        "time derivative f(t_n, rho_n, a_n) at the start of the step (linearised), the field is advanced by Heun with "
        "(t_n, rho_n, a_n) and (t_n+dt, rho_n+1, a_n + dt f)",
        "cross-method comparisons are between separately truncated tensor networks: bound 20*epsrel*n_steps",
        "only the finite alphabet is decided (DESIGN sec. 7); full memory (dkmax=None) only",
        "dense oracle: mc/refmodel.JointSim (self-tested in selftest/t_refmodel.py) + scipy expm",
    ]
    return rep


def replay(rp):
    c = dict(rp)
    want = c.pop("want", None)
    r = run_e(c) if c["fam"] == "exact" else run_x(c)
    found = [(cls_of(c, sig), d) for sig, _v, d in r["bad"]]
    w = cls_of(c, want) if want else None
    found.sort(key=lambda x: x[0] != w)            # the class this replay file was written for first (stable)
    sigs = [x[0] for x in found]
    obs = {"violations": sigs, "details": [x[1] for x in found]}
    for k in ("x_state_dev", "x_field_dev", "state_dev", "field_dev"):
        if k in r:
            obs[k] = round(r[k], 10)
    return {"obs": obs, "violation": sigs[0] if sigs else None}
