"""C04  Every reported state is a physical density matrix.

Bounded exhaustive exploration: the full Cartesian product of small per-dimension alphabets (coupling strength x
temperature x coupling-operator model x initial state x system kind x memory setting x epsrel) is run through every
producer of system states (Tempo, pt_tempo_compute + compute_dynamics, MeanFieldTempo, compute_dynamics_with_field,
PT-TEBD, GibbsTempo) and the invariants  |tr rho - 1|,  max|rho - rho^dagger|,  lambda_min(rho)  (and
results['norm'] for PT-TEBD) are evaluated on EVERY reported state of EVERY run.  The oracle is the invariant
itself (no reference needed): for a physical initial state the exact discretised evolution (symmetric Trotter
splitting of CPTP half-step maps and the exact influence functional of a Gaussian bath) is trace preserving,
Hermiticity preserving and - with full memory - completely positive, so every deviation is truncation error and has
to scale with the requested epsrel: bound  C_TOL * epsrel * steps  at BOTH epsrel = 1e-5 and 1e-8.

Alphabet members and the code branch each one stands for
  alpha 0.1 / 0.5 / 1.5          weak ... strong coupling (bond dimensions 4 ... 27 at six steps)
  T 0 / 1                        zero-temperature and thermal branch of the bath correlations
  model d2x                      non-diagonal coupling operator (unitary transform of the influence tensors)
        d3                       d=3, nine distinct (difference, sum) pairs; 3 steps (see steps_of)
        d3deg-u                  d=3 with a repeated eigenvalue and unique=True (degeneracy maps)
        [thorough: d2z, d2z-u, d3rot (non-diagonal d=3)]
  state pure / mixed / rankdef   rank 1, full rank, rank d-1 without weight on the last level (d=3 only)
  system unitary                 System, complex Hamiltonian
         dissipative             + two Lindblad terms with complex non-normal jump operators
         td                      TimeDependentSystem: H(t), gamma(t), A(t) (integrated Liouvillian)
         block                   dissipative with the last level decoupled: together with 'rankdef' the exact
                                 state keeps a zero eigenvalue for ever, so positivity is tested AT the boundary
  memory full / dkmax2 / dkmax2+tau   no cut-off | dkmax=2 < steps | dkmax=2 with add_correlation_time=inf
                                 (rectangle branch of influence_matrix); positivity only claimed for 'full'
  PT-TEBD layouts edge / middle / two : 3-site chain with one PT-TEMPO process tensor at the edge / in the middle,
                                 2-site chain with two; unitary and dissipative (site + nearest-neighbour) chains
  Gibbs: model (diagonal coupling) x real/complex H x n_steps x alpha x T {2, 0.5} x epsrel

Departures from DESIGN.md sec. 4 (C04), all additions except the last: a third memory member (dkmax2+tau), the 'block'
system, coupling models with transform / degeneracy, two-site PT-TEBD density matrices; the constant of the
tolerance is 100 (not 20): PT-TEMPO traces / PT-TEBD norms deviate by up to 1.04e-4 at epsrel=1e-5 and 6 steps and
the Gibbs state is non-Hermitian by up to 4.5e-7 at epsrel=1e-8 and 24 steps (thorough tier), and 30x head-room is
required; the epsrel=1e-8 leg (bound 6e-6 at six steps) is what resolves small defects.  The mean-field producers run a reduced (alpha, memory) product in the quick tier (cost).
"""
import itertools
import os
import sys
import time

import numpy as np

from mc.common import Report, Violation, pmap, bind_repo
from . import models as M

oq = bind_repo()
LEVEL = "exploration"

N_STEPS = 6
C_TOL = 100.0         # tolerance = C_TOL * epsrel * number_of_steps  (DESIGN 2.7 policy; constant fixed by measurement)
EPS = (1e-5, 1e-8)
TIGHT = 1e-3          # a case is 'PSD-tight' when lambda_min stays within TIGHT of zero at every step
MOVE = 0.05           # the bath / dissipator must move the state by more than this for a case to count

# --------------------------------------------------------------------------------------------------------------
# invariants (also usable as a monitor by other checks, DESIGN 3.5)


def invariants(states):
    """per-state arrays: |tr-1|, max|rho-rho^dag|, smallest eigenvalue of the Hermitian part"""
    s = np.asarray(states, dtype=complex)
    tr = np.abs(np.trace(s, axis1=1, axis2=2) - 1.0)
    he = np.abs(s - s.conj().transpose(0, 2, 1)).max(axis=(1, 2))
    lm = np.array([np.linalg.eigvalsh((x + x.conj().T) / 2.0)[0] if np.isfinite(x).all() else -np.inf for x in s])
    tr = np.where(np.isfinite(tr), tr, np.inf)
    he = np.where(np.isfinite(he), he, np.inf)
    return tr, he, lm


def physicality(states, tol, psd=True):
    """Monitor: list of (signature, step, value) for the states violating the invariants at tolerance tol."""
    tr, he, lm = invariants(states)
    bad = []
    for name, arr, viol in (("trace", tr, tr > tol), ("hermiticity", he, he > tol), ("positivity", lm, lm < -tol)):
        if name == "positivity" and not psd:
            continue
        if viol.any():
            k = int(np.argmax(viol))
            bad.append((name, k, float(arr[k])))
    return bad


# --------------------------------------------------------------------------------------------------------------
# alphabets (every domain simplest first)

ALPHAS = (0.1, 0.5, 1.5)
TEMPS = (0.0, 1.0)
MEMORIES = ("full", "dkmax2", "dkmax2+tau")       # None | dkmax=2 | dkmax=2 with add_correlation_time=inf
SYSTEMS = ("unitary", "dissipative", "td", "block", "stiff")
STATES = ("pure", "mixed", "rankdef")
MODELS_Q = ("d2x", "d3", "d3deg-u")
MODELS_T = ("d2z", "d2x", "d2z-u", "d3", "d3deg-u", "d3rot")
GRIDS_Q = (("ohmic-exp", 0.2),)                            # (spectral density, dt)
GRIDS_T = (("ohmic-exp", 0.2), ("super-gauss", 0.1))
# the mean-field producers cost 0.4 s per run (adaptive integration of the field-dependent Liouvillian for two
# systems): in the quick tier they get the extreme couplings and the two memory branches that differ most
MF_ALPHAS_Q = (0.1, 1.5)
MF_MEMORIES_Q = ("full", "dkmax2+tau")
PRODUCERS_Q = ("tempo", "pt", "mf")
PRODUCERS_T = ("tempo", "pt", "mf", "ptmf")


def model_spec(model):
    """-> (d, coupling operator, unique flag)"""
    unique = model.endswith("-u")
    base = model[:-2] if unique else model
    if base == "d2z":
        return 2, 0.5 * M.SZ, unique
    if base == "d2x":
        return 2, 0.5 * M.SX, unique
    if base == "d2y":          # complex Hermitian coupling: complex eigenvectors
        return 2, 0.5 * M.SY + 0.2 * M.SX, unique
    if base == "d3":
        return 3, np.diag([1.0, 0.0, -1.0]).astype(complex), unique
    if base == "d3deg":
        return 3, np.diag([1.0, -1.0, -1.0]).astype(complex), unique
    if base == "d3rot":
        v = M.generic_unitary(3, 2)
        return 3, (v * np.array([1.0, 0.0, -1.0])) @ v.conj().T, unique
    raise ValueError(model)


def init_state(d, kind):
    if kind == "pure":
        return np.ascontiguousarray(M.generic_state(d, 2, pure=True))
    if kind == "mixed":
        return np.ascontiguousarray(M.generic_state(d, 2))
    if kind == "rankdef":            # rank d-1, no weight on the last level
        r = np.zeros((d, d), dtype=complex)
        r[:d - 1, :d - 1] = M.generic_state(d - 1, 3)
        return r
    raise ValueError(kind)


def state_ok(d, kind):
    return not (kind == "rankdef" and d < 3)


def _mask_last(a):
    a = np.array(a, dtype=complex)
    a[:-1, -1] = 0
    a[-1, :-1] = 0
    return a


def sys_parts(d, kind):
    h0 = M.generic_herm(d, 1, 0.8)
    h1 = M.generic_herm(d, 2, 0.5)
    l1 = np.diag(np.ones(d - 1), 1).astype(complex) * (1.0 + 0.5j)
    l2 = 0.6 * M.generic_herm(d, 3) + 0.4j * M.generic_herm(d, 4)
    hx = M.generic_herm(d, 5, 0.4)
    hy = M.generic_herm(d, 6, 0.3)
    if kind == "block":
        h0, h1, l1, l2, hx, hy = (_mask_last(x) for x in (h0, h1, l1, l2, hx, hy))
    return h0, h1, l1, l2, hx, hy


def _gam_stiff(t):
    return 100.0 * np.exp(-t / 0.1)


def _gam_td(t):
    return 0.2 + 0.1 * np.sin(t) ** 2


def make_system(d, kind):
    h0, h1, l1, l2, _, _ = sys_parts(d, kind)
    if kind == "unitary":
        return oq.System(h0)
    if kind in ("dissipative", "block"):
        return oq.System(h0, gammas=[0.3, 0.1], lindblad_operators=[l1, l2])
    if kind == "td":
        return oq.TimeDependentSystem(lambda t: h0 + np.cos(0.9 * t) * h1, gammas=[_gam_td],
                                      lindblad_operators=[lambda t: l1 + 0.3 * t * l2])
    if kind == "stiff":
        # a decay channel that is switched off quickly: rate * dt is 20 in the first step and < 0.1 after three steps;
        # run with sampled propagators (subdiv_limit=None), see get_params / produce
        return oq.TimeDependentSystem(lambda t: h0, gammas=[_gam_stiff], lindblad_operators=[lambda t: l1])
    raise ValueError(kind)


def make_mf_system(d, kind):
    """[system under test (model dimension, depends on the field), fixed d=2 companion], field equation"""
    h0, h1, l1, l2, hx, hy = sys_parts(d, kind)
    if kind == "unitary":
        s1 = oq.TimeDependentSystemWithField(lambda t, f: h0 + np.real(f) * hx + np.imag(f) * hy)
    elif kind in ("dissipative", "block"):
        s1 = oq.TimeDependentSystemWithField(lambda t, f: h0 + np.real(f) * hx + np.imag(f) * hy,
                                             gammas=[lambda t: 0.3, lambda t: 0.1],
                                             lindblad_operators=[lambda t: l1, lambda t: l2])
    elif kind == "td":
        s1 = oq.TimeDependentSystemWithField(
            lambda t, f: h0 + np.cos(0.9 * t) * h1 + np.real(f) * hx + np.imag(f) * hy, gammas=[_gam_td],
            lindblad_operators=[lambda t: l1 + 0.3 * t * l2])
    elif kind == "stiff":
        s1 = oq.TimeDependentSystemWithField(lambda t, f: h0 + np.real(f) * hx + np.imag(f) * hy, gammas=[_gam_stiff],
                                             lindblad_operators=[lambda t: l1])
    else:
        raise ValueError(kind)
    s2 = oq.TimeDependentSystemWithField(lambda t, f: 0.5 * M.SZ + np.real(f) * M.SX)

    def eom(t, states, field):
        return -(1.1j + 0.4) * field - 0.5j * np.trace(hx @ states[0]) - 0.3j * np.trace(M.SX @ states[1])

    return oq.MeanFieldSystem([s1, s2], eom)


_CACHE = {}


def get_sd(sd, alpha, temp):
    key = ("sd", sd, alpha, temp)
    if key not in _CACHE:
        if sd == "ohmic-exp":
            _CACHE[key] = oq.PowerLawSD(alpha=alpha, zeta=1.0, cutoff=3.0, cutoff_type="exponential",
                                        temperature=temp)
        elif sd == "super-gauss":
            _CACHE[key] = oq.PowerLawSD(alpha=alpha, zeta=3.0, cutoff=4.0, cutoff_type="gaussian", temperature=temp)
        else:
            raise ValueError(sd)
    return _CACHE[key]


def get_bath(model, sd, alpha, temp):
    """one Bath object per (model, spectral density) and worker group: the library caches the bath integrals per
    correlations object, and Bath() copies that object"""
    key = ("bath", model, sd, alpha, temp)
    if key not in _CACHE:
        _CACHE[key] = oq.Bath(model_spec(model)[1], get_sd(sd, alpha, temp))
    return _CACHE[key]


def get_params(memory, epsrel, dt, sampled=False):
    kw = {"subdiv_limit": None} if sampled else {}
    if memory == "full":
        return oq.TempoParameters(dt=dt, epsrel=epsrel, dkmax=None, **kw)
    if memory == "dkmax2":
        return oq.TempoParameters(dt=dt, epsrel=epsrel, dkmax=2, **kw)
    if memory == "dkmax2+tau":
        return oq.TempoParameters(dt=dt, epsrel=epsrel, dkmax=2, add_correlation_time=np.inf, **kw)
    raise ValueError(memory)


def steps_of(model):
    """number of time steps of a run: 6, but 3 for the coupling operators with 9 distinct (difference, sum) pairs
    (d=3 without degeneracy): Tempo's zip-up does full SVDs of 9^(n-1) x 9^(n-1) matrices before truncating, i.e.
    5 s per run at n=4 and 20 s at n=6, whatever alpha and epsrel are (dkmax=2 is still shorter than the run)"""
    return 3 if model.startswith("d3") and not model.endswith("-u") else N_STEPS


def get_pt(model, sd, alpha, temp, memory, epsrel, dt, n, file_backed=False):
    key = ("pt", model, sd, alpha, temp, memory, epsrel, dt, n, file_backed)
    if key not in _CACHE:
        unique = model_spec(model)[2]
        bath = get_bath(model, sd, alpha, temp)
        kw = {"process_tensor_file": True} if file_backed else {}       # True: a temporary HDF5 file
        _CACHE[key] = oq.pt_tempo_compute(bath, 0.0, n * dt, get_params(memory, epsrel, dt), unique=unique,
                                          progress_type="silent", **kw)
    return _CACHE[key]


def free_states(d, system, state, dt, n):
    """the same system without any bath (used only to measure how much the bath matters)"""
    key = ("free", d, system, state, dt, n)
    if key not in _CACHE:
        dyn = oq.compute_dynamics(make_system(d, system), init_state(d, state), dt=dt, num_steps=n,
                                  progress_type="silent")
        _CACHE[key] = np.array(dyn.states)
    return _CACHE[key]


def free_mf_states(d, system, state, dt, n):
    """the same mean-field system without baths (states of system 0)"""
    key = ("freemf", d, system, state, dt, n)
    if key not in _CACHE:
        dyn = oq.compute_dynamics_with_field(make_mf_system(d, system), 0.8 + 0.3j, dt=dt, num_steps=n,
                                             initial_state_list=[init_state(d, state), M.RHO_GEN2.copy()],
                                             progress_type="silent")
        _CACHE[key] = np.array(dyn.system_dynamics[0].states)
    return _CACHE[key]


# --------------------------------------------------------------------------------------------------------------
# producers


def produce(case):
    """-> list of (label, array of states [k, D, D]) and extras dict"""
    prod = case["producer"]
    alpha, temp, model, memory, eps, dt = (case[k] for k in ("alpha", "T", "model", "memory", "epsrel", "dt"))
    sd = case["sd"]
    d, op, unique = model_spec(model)
    rho0 = init_state(d, case["state"])
    n = steps_of(model)
    extras = {}
    if prod == "tempo":
        bath = get_bath(model, sd, alpha, temp)
        tempo = oq.Tempo(make_system(d, case["system"]), bath, get_params(memory, eps, dt, case["system"] == "stiff"), rho0,
                         0.0, unique=unique)
        dyn = tempo.compute(n * dt, progress_type="silent")
        out = [("system", np.array(dyn.states))]
    elif prod in ("pt", "ptfile"):
        pt = get_pt(model, sd, alpha, temp, memory, eps, dt, n, file_backed=(prod == "ptfile"))
        skw = {"subdiv_limit": None} if case["system"] == "stiff" else {}
        dyn = oq.compute_dynamics(make_system(d, case["system"]), rho0, process_tensor=pt, progress_type="silent", **skw)
        out = [("system", np.array(dyn.states))]
    elif prod in ("mf", "ptmf"):
        mfs = make_mf_system(d, case["system"])
        if prod == "mf":
            baths = [get_bath(model, sd, alpha, temp), get_bath("d2z", sd, alpha, temp)]
            mft = oq.MeanFieldTempo(mfs, baths, get_params(memory, eps, dt, case["system"] == "stiff"), [rho0, M.RHO_GEN2.copy()],
                                    0.8 + 0.3j, 0.0, unique=unique)
            dyn = mft.compute(n * dt, progress_type="silent")
        else:
            pts = [get_pt(model, sd, alpha, temp, memory, eps, dt, n),
                   get_pt("d2z", sd, alpha, temp, memory, eps, dt, n)]
            skw = {"subdiv_limit": None} if case["system"] == "stiff" else {}
            dyn = oq.compute_dynamics_with_field(mfs, 0.8 + 0.3j, process_tensor_list=pts,
                                                 initial_state_list=[rho0, M.RHO_GEN2.copy()],
                                                 progress_type="silent", **skw)
        out = [("system0", np.array(dyn.system_dynamics[0].states)),
               ("system1", np.array(dyn.system_dynamics[1].states))]
        extras["field_finite"] = bool(np.isfinite(np.array(dyn.fields)).all())
    else:
        raise ValueError(prod)
    return out, extras


def classify(case):
    return (f"{case['producer']}|{case['model']}|{case['state']}|{case['system']}|{case['memory']}|"
            f"eps{case['epsrel']:g}")


def run_dynamics_case(case):
    """One (producer, alpha, T, sd, model, memory, epsrel, dt, state, system) case -> result dict."""
    n = steps_of(case["model"])
    tol = C_TOL * case["epsrel"] * n
    psd_claimed = case["memory"] == "full"
    res = {"tr": 0.0, "he": 0.0, "lm": np.inf, "lm_abs": 0.0, "viol": [], "n_states": 0, "move": 0.0}
    try:
        out, extras = produce(case)
    except Exception as ex:  # noqa
        res["viol"].append((f"exception:{type(ex).__name__}", f"{type(ex).__name__}: {ex}"[:200]))
        return res
    d = model_spec(case["model"])[0]
    for label, st in out:
        if st.shape[0] != n + 1:
            res["viol"].append(("state-count", f"{label}: {st.shape[0]} states instead of {n + 1}"))
            continue
        tr, he, lm = invariants(st)
        res["n_states"] += st.shape[0]
        res["tr"] = max(res["tr"], float(tr.max()))
        res["he"] = max(res["he"], float(he.max()))
        if label in ("system", "system0"):
            res["lm"] = min(res["lm"], float(lm.min()))
            res["lm_abs"] = max(res["lm_abs"], float(np.abs(lm).max()))
            ref = free_states if case["producer"] in ("tempo", "pt", "ptfile") else free_mf_states
            res["move"] = float(np.abs(st - ref(d, case["system"], case["state"], case["dt"], n)).max())
        for sig, k, val in physicality(st, tol, psd=psd_claimed):
            res["viol"].append((f"{sig}-violated", f"{label} step {k}: {sig} deviation {val:.3e} > tol {tol:.1e}"))
        if not psd_claimed:
            # no positivity claim with a memory cut-off, but an O(1) negative eigenvalue is never acceptable
            res.setdefault("lm_cut", np.inf)
            res["lm_cut"] = min(res["lm_cut"], float(lm.min()))
    if extras.get("field_finite") is False:
        res["viol"].append(("field-not-finite", "field contains nan/inf"))
    return res


def group_worker(group):
    """group = (producer, alpha, T, sd, model, memory, epsrel, dt, [(state, system), ...]) -> list of results
    (cases sharing a process tensor / bath integrals are run in one worker call)"""
    prod, alpha, temp, sd, model, memory, eps, dt, inner = group
    out = []
    t0 = time.process_time()
    for state, system in inner:
        case = {"producer": prod, "alpha": alpha, "T": temp, "sd": sd, "model": model, "memory": memory,
                "epsrel": eps, "dt": dt, "state": state, "system": system}
        out.append((case, run_dynamics_case(case)))
    out[0][1]["cpu"] = time.process_time() - t0
    # keep the per-worker cache small: process tensors are only shared inside a group
    for k in [k for k in _CACHE if k[0] in ("pt", "bath")]:
        if k[0] == "pt" and k[-1] is True:
            try:
                _CACHE[k].remove()          # the temporary file of a file-backed process tensor
            except Exception:  # noqa
                pass
        del _CACHE[k]
    return out


def dynamics_groups(tier):
    thorough = tier == "thorough"
    models = MODELS_T if thorough else MODELS_Q
    grids = GRIDS_T if thorough else GRIDS_Q
    prods = PRODUCERS_T if thorough else PRODUCERS_Q
    groups = []
    for prod, (sd, dt), model, alpha, temp, memory, eps in itertools.product(prods, grids, models, ALPHAS, TEMPS,
                                                                             MEMORIES, EPS):
        if prod in ("mf", "ptmf") and not thorough and (alpha not in MF_ALPHAS_Q or memory not in MF_MEMORIES_Q):
            continue
        d = model_spec(model)[0]
        inner = [(s, y) for s in STATES if state_ok(d, s) for y in SYSTEMS]
        groups.append((prod, alpha, temp, sd, model, memory, eps, dt, inner))
    # PT-TEMPO writing straight into a file, non-diagonal real and complex coupling operators
    for (sd, dt), model, alpha, temp, memory in itertools.product(grids[:1], ("d2x", "d2y", "d3rot"), (ALPHAS[1],), TEMPS,
                                                                 ("full", "dkmax2+tau")):
        d = model_spec(model)[0]
        inner = [(s, y) for s in STATES if state_ok(d, s) for y in SYSTEMS]
        groups.append(("ptfile", alpha, temp, sd, model, memory, EPS[0], dt, inner))
        if model == "d2y":
            groups.append(("pt", alpha, temp, sd, model, memory, EPS[0], dt, inner))
            groups.append(("tempo", alpha, temp, sd, model, memory, EPS[0], dt, inner))
    return groups


# --------------------------------------------------------------------------------------------------------------
# PT-TEBD

# layout -> (which sites carry the PT-TEMPO process tensor, number of steps).  Two process tensors cost 15 s per run
# at 6 steps (0.3 s at 4 steps), one process tensor 0.1-0.6 s at 6 steps.
TEBD_LAYOUTS = {"edge": ((1, 0, 0), 6), "middle": ((0, 1, 0), 6), "two": ((1, 1), 4)}
# a long chain of strongly mixed sites: the vectorised chain state has a tiny norm (purity^(L/2)), all Schmidt values
# are far below one -- truncation thresholds must be relative.  One process tensor in the middle; run only with the
# loosest epsrel and one memory setting (see tebd_groups)
TEBD_LAYOUTS_LONG = {"long16": (tuple(1 if i == 8 else 0 for i in range(16)), 4)}


def _tebd_run(layout_name, pt, state, system, order, eps, restart_at=None):
    dt = 0.2
    layout, n = {**TEBD_LAYOUTS, **TEBD_LAYOUTS_LONG}[layout_name]
    nsites = len(layout)
    if layout_name in TEBD_LAYOUTS_LONG:
        mix = [0.55 * M.generic_state(2, 2 + i, pure=True) + 0.45 * (np.eye(2) - M.generic_state(2, 2 + i, pure=True))
               for i in range(nsites)]
        rhos = [(r + r.conj().T) / 2 for r in mix]
    elif state == "pure":
        rhos = [M.generic_state(2, 2 + i, pure=True) for i in range(nsites)]
    else:
        rhos = [M.generic_state(2, 2 + i) for i in range(nsites)]
    amps = oq.AugmentedMPS([np.ascontiguousarray(r) for r in rhos])
    chain = oq.SystemChain(hilbert_space_dimensions=[2] * nsites)
    for s in range(nsites):
        chain.add_site_hamiltonian(s, M.generic_herm(2, 1 + s, 0.6))
    coup = [(1.2, M.SZ, M.SZ), (1.3, M.SX, M.SX), (0.7, M.SY, M.SY), (0.4, M.SX, M.SY)]
    for s in range(nsites - 1):
        for j, a, b in coup:
            chain.add_nn_hamiltonian(s, 0.5 * j * a, 0.5 * b)
    if system == "dissipative":
        chain.add_site_dissipation(0, M.SM * (1.0 + 0.5j), 0.3)
        chain.add_site_dissipation(1, 0.6 * M.generic_herm(2, 3) + 0.4j * M.generic_herm(2, 4), 0.2)
        chain.add_nn_dissipation(nsites - 2, M.SM + 0.3j * M.SZ, M.SM.conj().T * (0.8 - 0.2j), 0.25)
    prm = oq.PtTebdParameters(dt=dt, order=order, epsrel=eps)
    sites = list(range(nsites)) + (list(itertools.combinations(range(nsites), 2)) if nsites <= 4 else
                                   [(i, i + 1) for i in range(0, nsites - 1, 5)])
    # trace-preserving, completely positive control operations that are neither unital nor symmetric as superoperators:
    # a reset to |0><0| (pre-measurement) and an amplitude damping (post-measurement); norm and traces must stay one
    cc = oq.ChainControl([2] * nsites)
    reset = np.outer(np.array([1, 0, 0, 0], dtype=complex), np.array([1, 0, 0, 1], dtype=complex))
    k0 = np.array([[1, 0], [0, np.sqrt(0.6)]], dtype=complex)
    k1 = np.array([[0, np.sqrt(0.4)], [0, 0]], dtype=complex)
    damp = np.kron(k0, k0.conj()) + np.kron(k1, k1.conj())
    cc.add_single_site_control(reset, site=nsites - 1, step=2, post=False)
    cc.add_single_site_control(damp, site=0, step=1, post=True)
    cc.add_single_site_control(damp, site=nsites - 1, step=n - 1, post=False)
    tebd = oq.PtTebd(initial_augmented_mps=amps, system_chain=chain,
                     process_tensors=[pt if x else None for x in layout],
                     parameters=prm, dynamics_sites=sites, chain_control=cc)
    if restart_at is None:
        return sites, tebd.compute(n, progress_type="silent")
    # checkpoint / restart: the chain state (a mixed state: explicit lambdas) exported at step k continues in a new object
    tebd.compute(restart_at, progress_type="silent")
    cont = oq.PtTebd(initial_augmented_mps=tebd.get_augmented_mps(), system_chain=chain,
                     process_tensors=[pt if x else None for x in layout], parameters=prm, dynamics_sites=sites,
                     start_step=restart_at, start_time=restart_at * dt, chain_control=cc)
    return sites, cont.compute(n, progress_type="silent")


def free_tebd_states(layout_name, state, system, order):
    """single-site states of the same chain without any process tensor"""
    key = ("freetebd", layout_name, state, system, order)
    if key not in _CACHE:
        sites, r = _tebd_run(layout_name, None, state, system, order, 1e-8)
        _CACHE[key] = {s: np.array(r["dynamics"][s].states) for s in sites if isinstance(s, int)}
    return _CACHE[key]


def tebd_case(case):
    alpha, temp, memory, eps, state, system, order = (case[k] for k in ("alpha", "T", "memory", "epsrel", "state",
                                                                         "system", "order"))
    layout, n = {**TEBD_LAYOUTS, **TEBD_LAYOUTS_LONG}[case["layout"]]
    tol = C_TOL * eps * n
    res = {"tr": 0.0, "he": 0.0, "lm": np.inf, "norm": 0.0, "viol": [], "n_states": 0, "move": 0.0, "tr_vs_norm": 0.0}
    try:
        pt = get_pt("d2z", "ohmic-exp", alpha, temp, memory, eps, 0.2, n)
        sites, r = _tebd_run(case["layout"], pt, state, system, order, eps)
    except Exception as ex:  # noqa
        res["viol"].append((f"exception:{type(ex).__name__}", f"{type(ex).__name__}: {ex}"[:200]))
        return res
    norm = np.asarray(r["norm"])
    if norm.shape[0] != n + 1:
        res["viol"].append(("state-count", f"{norm.shape[0]} norms instead of {n + 1}"))
        return res
    ndev = np.abs(norm - 1.0)
    ndev = np.where(np.isfinite(ndev), ndev, np.inf)
    res["norm"] = float(ndev.max())
    if (ndev > tol).any():
        k = int(np.argmax(ndev > tol))
        res["viol"].append(("norm-violated", f"results['norm'][{k}] = {norm[k]:.8f}, |norm-1| > tol {tol:.1e}"))
    psd_claimed = memory == "full"
    for s in sites:
        st = np.array(r["dynamics"][s].states)
        if st.shape[0] != n + 1:
            res["viol"].append(("state-count", f"site {s}: {st.shape[0]} states instead of {n + 1}"))
            continue
        tr, he, lm = invariants(st)
        res["n_states"] += st.shape[0]
        res["tr"] = max(res["tr"], float(tr.max()))
        res["he"] = max(res["he"], float(he.max()))
        res["lm"] = min(res["lm"], float(lm.min()))
        res["tr_vs_norm"] = max(res["tr_vs_norm"], float(np.abs(np.trace(st, axis1=1, axis2=2) - norm).max()))
        if isinstance(s, int):
            res["move"] = max(res["move"], float(np.abs(st - free_tebd_states(case["layout"], state, system, order)[s]).max()))
        for sig, k, val in physicality(st, tol, psd=psd_claimed):
            res["viol"].append((f"{sig}-violated", f"site {s} step {k}: {sig} deviation {val:.3e} > tol {tol:.1e}"))
    # the same invariants on the part of the run that continues from an exported chain state
    k0 = n // 2
    try:
        sites2, r2 = _tebd_run(case["layout"], pt, state, system, order, eps, restart_at=k0)
    except Exception as ex:  # noqa
        res["viol"].append((f"restart-exception:{type(ex).__name__}", f"{type(ex).__name__}: {ex}"[:200]))
        return res
    norm2 = np.asarray(r2["norm"])
    nd2 = np.abs(norm2 - 1.0)
    nd2 = np.where(np.isfinite(nd2), nd2, np.inf)
    if norm2.shape[0] != n - k0 + 1:
        res["viol"].append(("restart-state-count", f"{norm2.shape[0]} norms instead of {n - k0 + 1} after the restart at {k0}"))
    elif (nd2 > tol).any():
        k = int(np.argmax(nd2 > tol))
        res["viol"].append(("restart-norm-violated", f"restart at step {k0}: results['norm'][{k}] = {norm2[k]:.8f}"))
    for s_ in sites2:
        st = np.array(r2["dynamics"][s_].states)
        res["n_states"] += st.shape[0]
        for sig, k, val in physicality(st, tol, psd=psd_claimed):
            res["viol"].append((f"restart-{sig}-violated", f"restart at step {k0}: site {s_} record {k}: {sig} deviation {val:.3e}"))
            break
    return res


def tebd_classify(case):
    return (f"pttebd|{case['layout']}|order{case['order']}|{case['state']}|{case['system']}|{case['memory']}|"
            f"eps{case['epsrel']:g}")


def tebd_group_worker(group):
    alpha, temp, memory, eps, inner = group
    out = []
    t0 = time.process_time()
    for layout, state, system, order in inner:
        case = {"producer": "pttebd", "alpha": alpha, "T": temp, "memory": memory, "epsrel": eps, "layout": layout,
                "state": state, "system": system, "order": order}
        out.append((case, tebd_case(case)))
    out[0][1]["cpu"] = time.process_time() - t0
    for k in [k for k in _CACHE if k[0] in ("pt", "bath")]:
        if k[0] == "pt" and k[-1] is True:
            try:
                _CACHE[k].remove()          # the temporary file of a file-backed process tensor
            except Exception:  # noqa
                pass
        del _CACHE[k]
    return out


def tebd_groups(tier):
    orders = (2, 1) if tier == "thorough" else (2,)
    inner = [(lay, s, y, o) for lay in TEBD_LAYOUTS for s in ("pure", "mixed") for y in ("unitary", "dissipative")
             for o in orders]
    groups = [(a, t, m, e, inner) for a, t, m, e in itertools.product(ALPHAS, TEMPS, MEMORIES, EPS)]
    groups.append((ALPHAS[0], TEMPS[1], "full", max(EPS), [("long16", "mixed", y, 2) for y in ("unitary", "dissipative")]))
    return groups


# --------------------------------------------------------------------------------------------------------------
# Gibbs

GIBBS_TEMPS = (2.0, 0.5)
GIBBS_MODELS = ("d2z", "d3", "d3deg")
GIBBS_H = ("real", "complex")
GIBBS_STEPS_Q = (4, 12)
GIBBS_STEPS_T = (2, 4, 12, 24)


def gibbs_case(case):
    alpha, temp, model, hk, nst, eps = (case[k] for k in ("alpha", "T", "model", "h", "n_steps", "epsrel"))
    tol = C_TOL * eps * nst
    res = {"tr": 0.0, "he": 0.0, "lm": np.inf, "viol": [], "n_states": 0, "move": 0.0}
    d, op, _ = model_spec(model)
    h = M.generic_herm(d, 1, 0.8)
    if hk == "real":
        h = h.real.astype(complex)
    try:
        sd = oq.PowerLawSD(alpha=alpha, zeta=1.0, cutoff=3.0, cutoff_type="exponential", temperature=temp)
        gt = oq.GibbsTempo(oq.System(h), oq.Bath(op, sd), oq.GibbsParameters(n_steps=nst, epsrel=eps))
        gt.compute(progress_type="silent")
        st = np.array([gt.get_state()])
    except Exception as ex:  # noqa
        res["viol"].append((f"exception:{type(ex).__name__}", f"{type(ex).__name__}: {ex}"[:200]))
        return res
    tr, he, lm = invariants(st)
    res.update(tr=float(tr.max()), he=float(he.max()), lm=float(lm.min()), n_states=1)
    import scipy.linalg as sl
    bare = sl.expm(-h / temp)
    bare /= np.trace(bare)
    res["move"] = float(np.abs(st[0] - bare).max())
    for sig, k, val in physicality(st, tol, psd=True):
        res["viol"].append((f"{sig}-violated", f"Gibbs state: {sig} deviation {val:.3e} > tol {tol:.1e}"))
    return res


def gibbs_classify(case):
    return f"gibbs|{case['model']}|H-{case['h']}|n{case['n_steps']}|eps{case['epsrel']:g}"


def gibbs_worker(case):
    t0 = time.process_time()
    r = gibbs_case(case)
    r["cpu"] = time.process_time() - t0
    return case, r


def gibbs_cases(tier):
    steps = GIBBS_STEPS_T if tier == "thorough" else GIBBS_STEPS_Q
    return [{"producer": "gibbs", "alpha": a, "T": t, "model": m, "h": h, "n_steps": n, "epsrel": e}
            for m, h, n, a, t, e in itertools.product(GIBBS_MODELS, GIBBS_H, steps, ALPHAS, GIBBS_TEMPS, EPS)]


# --------------------------------------------------------------------------------------------------------------


def self_test():
    """the inputs themselves must be physical, and the invariant functions must see planted defects"""
    for d in (2, 3):
        for k in STATES:
            if state_ok(d, k):
                r = init_state(d, k)
                tr, he, lm = invariants([r])
                assert tr[0] < 1e-13 and he[0] < 1e-13 and lm[0] > -1e-13, (d, k)
                rk = int((np.linalg.eigvalsh(r) > 1e-12).sum())
                assert rk == {"pure": 1, "mixed": d, "rankdef": d - 1}[k]
    r = init_state(3, "mixed")
    assert physicality([r * 1.01], 1e-3)[0][0] == "trace"
    r2 = r.copy()
    r2[0, 1] += 0.01
    assert physicality([r2], 1e-3)[0][0] == "hermiticity"
    r3 = init_state(3, "pure") * 1.2 - 0.2 * np.eye(3) / 3
    assert physicality([r3], 1e-3)[0][0] == "positivity"
    assert physicality([r * np.nan], 1e-3)


def prime_references(groups, tgroups):
    """bath-free reference runs (only used to measure how much the environment matters) are computed once in the
    parent so that the forked workers inherit them; a worker that misses one computes it itself"""
    for prod, _a, _t, _sd, model, _m, _e, dt, inner in groups:
        d, n = model_spec(model)[0], steps_of(model)
        for state, system in inner:
            (free_states if prod in ("tempo", "pt") else free_mf_states)(d, system, state, dt, n)
    for grp in tgroups:
        for layout, state, system, order in grp[-1]:
            free_tebd_states(layout, state, system, order)


def _r3(x):
    """3 significant digits: the maxima are O(epsrel) truncation noise and differ in the trailing digits between runs"""
    return float("%.3g" % x) if np.isfinite(x) else str(x)


def _case_replay(case):
    return {k: case[k] for k in case}


def run(tier, seed):
    rep = Report(LEVEL)
    self_test()
    only = [x for x in os.environ.get("C04_PRODUCERS", "").split(",") if x]   # debugging aid; unset in real runs
    groups = [g for g in dynamics_groups(tier) if not only or g[0] in only]
    prime_references(groups, tebd_groups(tier) if not only or "pttebd" in only else [])
    gres = pmap(group_worker, groups, chunksize=1, seed=seed)
    tgroups = tebd_groups(tier) if not only or "pttebd" in only else []
    tres = pmap(tebd_group_worker, tgroups, chunksize=1, seed=seed)
    gcs = gibbs_cases(tier) if not only or "gibbs" in only else []
    bres = pmap(gibbs_worker, gcs, seed=seed)

    evaluations = 0
    n_states = 0
    nontrivial = set()
    tight = set()
    stats = {}

    def stat(prod, eps, key, val, mode=max):
        s = stats.setdefault(prod, {}).setdefault(f"{eps:g}", {})
        s[key] = mode(s[key], val) if key in s else val

    max_ratio = 0.0
    worst = [None]
    cpu = {}
    max_dev = {f"{e:g}": 0.0 for e in EPS}
    min_move = np.inf
    gap = np.inf
    trivial = set()

    def account(case, r, cls, nsteps):
        nonlocal evaluations, n_states, max_ratio, min_move, gap
        evaluations += 1
        n_states += r["n_states"]
        cpu[case["producer"]] = cpu.get(case["producer"], 0.0) + r.get("cpu", 0.0)
        eps = case["epsrel"]
        tol = C_TOL * eps * nsteps
        for sig, what in r["viol"]:
            rep.add(Violation(f"{cls}|{sig}", f"alpha={case['alpha']} T={case['T']}: {what}", _case_replay(case)))
        if any(s.startswith(("exception", "state-count")) for s, _ in r["viol"]):
            return
        prod = case["producer"]
        psd = case.get("memory", "full") == "full"
        devs = [r["tr"], r["he"]] + ([max(0.0, -r["lm"])] if psd else []) + ([r["norm"]] if "norm" in r else [])
        dev = max(devs)
        stat(prod, eps, "trace", r["tr"])
        stat(prod, eps, "hermiticity", r["he"])
        if psd:
            stat(prod, eps, "neg_eigenvalue", max(0.0, -r["lm"]))
        else:
            stat(prod, eps, "neg_eigenvalue_with_cutoff_not_claimed", max(0.0, -r.get("lm_cut", r["lm"])))
        if "norm" in r:
            stat(prod, eps, "norm", r["norm"])
            stat(prod, eps, "trace_minus_norm", r["tr_vs_norm"])
        if np.isfinite(dev):
            max_dev[f"{eps:g}"] = max(max_dev[f"{eps:g}"], dev)
            if dev / tol > max_ratio:
                max_ratio = dev / tol
                worst[0] = dict(case, dev=float("%.2g" % dev), tol=float("%.3g" % tol))
        # non-triviality is decided on the epsrel=1e-8 leg only (its truncation noise is ~1e-7, so the count does not
        # depend on run-to-run floating point differences); both legs of a non-trivial key are checked anyway
        key = tuple(sorted((k, str(v)) for k, v in case.items() if k != "epsrel"))
        if eps == min(EPS):
            gap = min(gap, abs(r["move"] - MOVE))
            if r["move"] > MOVE:
                nontrivial.add(key)
                min_move = min(min_move, r["move"])
                if psd and r.get("lm_abs", 1.0) < TIGHT:
                    tight.add(key)
            else:
                trivial.add(key)

    for grp in gres:
        for case, r in grp:
            account(case, r, classify(case), steps_of(case["model"]))
    for grp in tres:
        for case, r in grp:
            account(case, r, tebd_classify(case), {**TEBD_LAYOUTS, **TEBD_LAYOUTS_LONG}[case["layout"]][1])
    for case, r in bres:
        account(case, r, gibbs_classify(case), case["n_steps"])

    if os.environ.get("C04_DUMP"):           # debugging aid
        import json
        with open(os.environ["C04_DUMP"], "w") as fh:
            json.dump({str(sorted(c.items())): r["move"] for c, r in
                       [x for g in gres for x in g] + [x for g in tres for x in g] + list(bres)}, fh, indent=0)
    print("[C04] cpu seconds by producer:", {k: round(v, 1) for k, v in cpu.items()}, "worst:", worst[0], file=sys.stderr)
    all_cases = [c for grp in gres for c, _ in grp]
    tol_hi = C_TOL * EPS[0] * N_STEPS
    rep.coverage = {
        "evaluations": evaluations,
        "distinct_nontrivial": len(nontrivial),
        "states_checked": n_states,
        "psd_tight_cases": len(tight),
        "rule": "full product producer x (spectral density, dt) x coupling model x alpha x T x memory x epsrel x "
                "initial state x system kind (rank-deficient state only for d=3) for Tempo / PT-TEMPO+compute_dynamics "
                "/ MeanFieldTempo with two systems [/ compute_dynamics_with_field in the thorough tier] (quick tier: "
                "mean-field producers over alpha {0.1,1.5} x memory {full, dkmax2+tau} only); layout x alpha x T x "
                "memory x epsrel x state x system [x order] for PT-TEBD chains (3 sites with a PT-TEMPO process tensor "
                "on the edge or in the middle, 2 sites with two process tensors; all single sites, all pairs and "
                "results['norm']); model x H x n_steps x alpha x T x epsrel for GibbsTempo.get_state(). Every reported state of every run is checked (trace, Hermiticity, and "
                "positivity when no memory cut-off is set). A case is non-trivial when the environment (bath vs the "
                "same system without bath for Tempo/PT-TEMPO; total change of the state for mean-field/PT-TEBD; Gibbs "
                "state vs bare exp(-H/T)/Z) moves the state by > 0.05 in max-norm; distinct by the parameter tuple "
                "without epsrel. psd_tight_cases: non-trivial full-memory cases in which the smallest eigenvalue stays "
                "within 1e-3 of zero at every step (block system + rank-deficient state), so positivity is tested at "
                "the boundary.",
        "samples": ([all_cases[0], all_cases[len(all_cases) // 2]] if all_cases else [])
        + ([tres[-1][-1][0]] if tres else []) + ([gcs[-1]] if gcs else []),
        "exhaustive": not only,
        "alphabet": {"alpha": ALPHAS, "T": TEMPS, "memory": MEMORIES, "systems": SYSTEMS, "states": STATES,
                     "models": MODELS_T if tier == "thorough" else MODELS_Q, "epsrel": EPS,
                     "sd_dt": GRIDS_T if tier == "thorough" else GRIDS_Q,
                     "mean_field_restriction": None if tier == "thorough" else {"alpha": MF_ALPHAS_Q,
                                                                                "memory": MF_MEMORIES_Q},
                     "producers": (PRODUCERS_T if tier == "thorough" else PRODUCERS_Q) + ("pttebd", "gibbs"),
                     "steps": N_STEPS, "gibbs": {"T": GIBBS_TEMPS, "models": GIBBS_MODELS, "H": GIBBS_H}},
        "max_dev": _r3(max_dev[f"{EPS[0]:g}"]),
        "max_dev_by_epsrel": {k: _r3(v) for k, v in max_dev.items()},
        "tolerance": tol_hi,
        "tolerance_rule": f"{C_TOL:g} * epsrel * steps for |tr-1|, max|rho-rho^dag|, -lambda_min, |norm-1|",
        "max_dev_over_tol": _r3(max_ratio),
        "headroom": _r3(1.0 / max_ratio) if max_ratio > 0 else None,
        "worst_case": worst[0],
        "min_environment_effect": None if not np.isfinite(min_move) else _r3(min_move),
        "trivial_distinct": len(trivial),
        "nontrivial_threshold": MOVE,
        "closest_effect_to_threshold": None if not np.isfinite(gap) else _r3(gap),
        "per_producer_max": {p_: {e_: {k_: _r3(v_) for k_, v_ in d_.items()} for e_, d_ in x_.items()}
                             for p_, x_ in stats.items()},
    }
    rep.assumptions = [
        "oracle = the invariant itself: trace one, Hermitian, (full memory) positive semidefinite, each up to "
        f"{C_TOL:g}*epsrel*steps; both epsrel legs (1e-5, 1e-8) must hold, so an error that does not shrink with epsrel "
        f"is caught from {C_TOL * min(EPS) * N_STEPS:.1e} on",
        "positivity is only asserted when no memory cut-off is set (dkmax=None); with a cut-off the smallest eigenvalue "
        "is recorded but not judged",
        "PT-TEBD site density matrices are reported unnormalised by the library (their trace equals results['norm']); "
        "both are required to be one within tolerance",
        "GibbsTempo: only get_state() is claimed to be a density matrix (the intermediate imaginary-time states in "
        "its Dynamics are unnormalised by construction and are not judged)",
        "coupling operators with repeated eigenvalues are used in diagonal form only (non-diagonal degenerate "
        "operators are the subject of C05)",
    ]
    return rep


def replay(rp):
    case = dict(rp)
    prod = case["producer"]
    if prod == "pttebd":
        r = tebd_case(case)
        cls = tebd_classify(case)
    elif prod == "gibbs":
        r = gibbs_case(case)
        cls = gibbs_classify(case)
    else:
        r = run_dynamics_case(case)
        cls = classify(case)
    _CACHE.clear()
    # observation = the violated signatures only: the numbers themselves are O(epsrel) truncation noise that is not
    # bitwise reproducible between two executions
    obs = {"violated": sorted({v[0] for v in r["viol"]})}
    return {"obs": obs, "violation": f"{cls}|{r['viol'][0][0]}" if r["viol"] else None}
