"""C12 oracles, written independently of oqupy (numpy / math only).

Bath:  J(w) = j(w) X(w, wc),  C(tau) = int_0^inf dw J(w) [coth(w/2T) cos(w tau) - i sin(w tau)].

A 2D cell integral  int int_cell C(t'-t'') dt'' dt'  is evaluated *in frequency space* with the exact,
well-conditioned kernel of the cell (never as a second difference of eta):

    K_cell(w) = int int_cell exp(-i w (t'-t'')) dt'' dt'
    cell      = int_0^inf dw J(w) [coth(w/2T) Re K_cell(w) + i Im K_cell(w)]

    rectangle t' in [a,b], t'' in [0,D]:  K = E(a,b) conj(E(0,D)),  E(a,b) = (b-a) e^{-iw(a+b)/2} sinc(w(b-a)/2)
    triangle  0 < t'' < t' < D         :  K = D^2/2 sinc^2(wD/2) - i D^2 g(wD),  g(x) = (x - sin x)/x^2

The frequency integral uses the substitution w = u^m with m*zeta integer (removes the w^(zeta-1) end-point
behaviour: the integrand becomes analytic in u) and composite
Gauss-Legendre panels that are doubled until two successive results agree (self-check, reported).
"""
import math

import numpy as np

_GL = {}


def gl(order):
    if order not in _GL:
        _GL[order] = np.polynomial.legendre.leggauss(order)
    return _GL[order]


def sinc(x):
    return np.sinc(x / np.pi)


def g_fun(x):
    """(x - sin x)/x^2, stable for small x."""
    x = np.asarray(x, dtype=float)
    out = np.empty_like(x)
    small = np.abs(x) < 0.5
    xs = x[small]
    # x/6 - x^3/120 + x^5/5040 - ...
    term = xs / 6.0
    acc = term.copy()
    for n in range(1, 9):
        term = -term * xs * xs / ((2 * n + 2) * (2 * n + 3))
        acc += term
    out[small] = acc
    xl = x[~small]
    out[~small] = (xl - np.sin(xl)) / xl ** 2
    return out


def h_fun(x):
    """(x - 1 + exp(-x))/x^2 for x >= 0, stable for small x."""
    x = np.asarray(x, dtype=float)
    out = np.empty_like(x)
    small = np.abs(x) < 0.5
    xs = x[small]
    term = np.full_like(xs, 0.5)
    acc = term.copy()
    for n in range(1, 16):
        term = -term * xs / (n + 2)
        acc += term
    out[small] = acc
    xl = x[~small]
    out[~small] = (xl + np.expm1(-xl)) / xl ** 2
    return out


# ------------------------------------------------------------------------------------------------
# spectral densities (own formulas)

def j_powerlaw(alpha, zeta, wc):
    return lambda w: 2.0 * alpha * wc * (w / wc) ** zeta


def j_twopeak(alpha, wc):
    """A custom, non power-law j: super-ohmic rise with a Lorentzian resonance."""
    return lambda w: alpha * w ** 3 / (wc ** 2) * (1.0 + 2.0 / (1.0 + 4.0 * (w / wc - 0.7) ** 2))


def cutoff(ctype, wc):
    if ctype == "hard":
        return lambda w: (w < wc) * 1.0
    if ctype == "exponential":
        return lambda w: np.exp(-w / wc)
    if ctype == "gaussian":
        return lambda w: np.exp(-(w / wc) ** 2)
    raise ValueError(ctype)


def w_upper(ctype, wc):
    # exp(-70) * 70^4 = 1e-23, exp(-8.5^2) * 8.5^4 = 2e-28 relative to the peak: below double precision
    return {"hard": wc, "exponential": 70.0 * wc, "gaussian": 8.5 * wc}[ctype]


def coth_half(w, temp):
    """coth(w / 2T); 1 for T = 0."""
    if temp == 0.0:
        return np.ones_like(w)
    x = w / (2.0 * temp)
    with np.errstate(over="ignore", divide="ignore"):
        return 1.0 / np.tanh(x)


# ------------------------------------------------------------------------------------------------
# cell kernels (real time)

def _e(a, b, w):
    return (b - a) * np.exp(-0.5j * w * (a + b)) * sinc(0.5 * w * (b - a))


def k_rect(a, b, delta):
    return lambda w: _e(a, b, w) * np.conj(_e(0.0, delta, w))


def k_tri(delta, t1=0.0):
    """documented triangle: t' in [t1, t1+D], t'' in [0, t'-t1]  ->  int_0^D (D-s) exp(-iw(t1+s)) ds"""
    def k(w):
        x = w * delta
        base = 0.5 * delta ** 2 * sinc(0.5 * x) ** 2 - 1j * delta ** 2 * g_fun(x)
        return base * np.exp(-1j * w * t1) if t1 != 0.0 else base
    return k


def k_eta(t):
    """eta(t) = full triangle of side t"""
    return k_tri(t)


def k_point(tau):
    """C(tau) itself"""
    return lambda w: np.exp(-1j * w * tau)


# imaginary time (Matsubara), beta = 1/T:  D(tau) = int J [e^{-w tau} + e^{-w(beta-tau)}] / (1 - e^{-beta w}).
# Kernels return the two terms separately: (forward e^{-w tau} part, backward e^{-w(beta-tau)} part), both without
# the common factor 1/(1 - e^{-beta w}).
def km_point(tau, beta):
    return lambda w: (np.exp(-w * tau), np.exp(-w * (beta - tau)))


def km_rect(a, b, delta, beta):
    """t' in [a,b], t'' in [0,D], a >= D, b <= beta."""
    def k(w):
        f1 = -np.expm1(-w * (b - a)) / w     # int_a^b e^{-w t'} dt' = e^{-w a} f1 ; int_a^b e^{w t'} dt' = e^{w b} f1
        f2 = -np.expm1(-w * delta) / w       # int_0^D e^{w t''} dt'' = e^{w D} f2 ; int_0^D e^{-w t''} dt'' = f2
        return f1 * f2 * np.exp(-w * (a - delta)), f1 * f2 * np.exp(-w * (beta - b))
    return k


def km_tri(delta, beta):
    """int_0^D (D-s) e^{-ws} ds = D^2 h(wD);  int_0^D (D-s) e^{-w(beta-s)} ds = e^{-w(beta-D)} D^2 h2(wD)."""
    def k(w):
        x = w * delta
        return delta ** 2 * h_fun(x), delta ** 2 * np.exp(-w * (beta - delta)) * _h2(x)
    return k


def _h2(x):
    """(1 - (1+x) exp(-x))/x^2, stable for small x (= 1/2 - x/3 + x^2/8 - ...)."""
    x = np.asarray(x, dtype=float)
    out = np.empty_like(x)
    small = np.abs(x) < 0.5
    xs = x[small]
    # series: sum_{n>=0} (-1)^n x^n (n+1)/(n+2)!
    acc = np.zeros_like(xs)
    term = np.ones_like(xs)          # x^n / n!
    for n in range(0, 18):
        acc += (-1) ** n * term / ((n + 2))      # x^n (n+1)/(n+2)! = x^n/n! * 1/(n+2)
        term = term * xs / (n + 1)
    out[small] = acc
    xl = x[~small]
    out[~small] = (1.0 - (1.0 + xl) * np.exp(-xl)) / xl ** 2
    return out


# ------------------------------------------------------------------------------------------------
# frequency integration

class Spectrum:
    """int_0^W dw J(w) [coth Re K + i Im K]  (real time)   /   int_0^W dw J(w) K(w)  (imaginary time)."""

    def __init__(self, jf, ctype, wc, temp, power=2, order=24, p0=48, rtol=2e-13, pmax=6144):
        """power m: substitution w = u^m; choose m with m*zeta integer so that the integrand is analytic in u."""
        self.jf, self.ctype, self.wc, self.temp = jf, ctype, wc, temp
        self.cut = cutoff(ctype, wc)
        self.m = int(power)
        self.umax = w_upper(ctype, wc) ** (1.0 / self.m)
        self.order, self.p0, self.rtol, self.pmax = order, p0, rtol, pmax
        self._grid = {}
        self.worst_selfcheck = 0.0

    def grid(self, p):
        if p not in self._grid:
            x, wt = gl(self.order)
            edges = np.linspace(0.0, self.umax, p + 1)
            mid = 0.5 * (edges[1:] + edges[:-1])
            half = 0.5 * (edges[1:] - edges[:-1])
            u = (mid[:, None] + half[:, None] * x[None, :]).ravel()
            wu = (half[:, None] * wt[None, :]).ravel()
            w = u ** self.m
            jw = self.jf(w) * self.cut(w) * self.m * u ** (self.m - 1) * wu      # dw = m u^(m-1) du
            self._grid[p] = (w, jw, jw * coth_half(w, self.temp))
        return self._grid[p]

    def _once(self, kern, p, imaginary_time):
        w, jw, jwc = self.grid(p)
        k = kern(w)
        return complex(np.sum(jwc * k.real), np.sum(jw * k.imag))

    def _range_m(self, kern, ua, ub, mode):
        """imaginary-time integrand over u in [ua, ub]; mode 'full' or 'fwd' (forward term only, no Bose denominator)."""
        x, wt = gl(self.order)

        def once(p):
            edges = np.linspace(ua, ub, p + 1)
            mid = 0.5 * (edges[1:] + edges[:-1])
            half = 0.5 * (edges[1:] - edges[:-1])
            u = (mid[:, None] + half[:, None] * x[None, :]).ravel()
            wu = (half[:, None] * wt[None, :]).ravel()
            w = u ** self.m
            jw = self.jf(w) * self.cut(w) * self.m * u ** (self.m - 1) * wu
            fwd, bwd = kern(w)
            val = fwd if mode == "fwd" else (fwd + bwd) / (-np.expm1(-w / self.temp))
            return float(np.sum(jw * val))

        p = self.p0 * 2
        prev = once(p)
        while True:
            p *= 2
            cur = once(p)
            err = abs(cur - prev)
            if err <= self.rtol * abs(cur) + 1e-300 or p >= self.pmax:
                return cur, err
            prev = cur

    def integrate_m(self, kern, drop_above=None):
        """imaginary time.  drop_above = w0 reproduces a guard that keeps only the forward term (and no Bose
        denominator) for w > w0; the integral is split at w0 exactly."""
        wmax = self.umax ** self.m
        if drop_above is None or drop_above >= wmax:
            val, err = self._range_m(kern, 0.0, self.umax, "full")
            self.worst_selfcheck = max(self.worst_selfcheck, err / (abs(val) + 1e-300))
            return val
        u0 = drop_above ** (1.0 / self.m)
        v1, e1 = self._range_m(kern, 0.0, u0, "full")
        v2, e2 = self._range_m(kern, u0, self.umax, "fwd")
        return v1 + v2

    def integrate(self, kern, imaginary_time=False, tmax=1.0):
        # enough panels to resolve cos(u^m t): local frequency m u^(m-1) t
        p = self.p0
        need = int(self.m * self.umax ** self.m * max(tmax, 1e-9) / 6.0) + 1
        while p < need:
            p *= 2
        if imaginary_time:
            raise ValueError("use integrate_m")
        prev = self._once(kern, p, imaginary_time)
        while True:
            p *= 2
            cur = self._once(kern, p, imaginary_time)
            err = abs(cur - prev)
            if err <= self.rtol * abs(cur) + 1e-300 or p >= self.pmax:
                self.worst_selfcheck = max(self.worst_selfcheck, err / (abs(cur) + 1e-300))
                return cur
            prev = cur


# ------------------------------------------------------------------------------------------------
# closed forms: power law, exponential cut-off, T = 0

def closed_c(alpha, zeta, wc, tau):
    a = 2.0 * alpha * wc ** (1.0 - zeta) * math.gamma(zeta + 1.0)
    return a / (1.0 / wc + 1j * tau) ** (zeta + 1.0)


def closed_eta(alpha, zeta, wc, t):
    """eta(t) = int_0^t (t-s) C(s) ds for the closed form above."""
    a = 2.0 * alpha * wc ** (1.0 - zeta) * math.gamma(zeta + 1.0)
    if zeta == 1.0:
        return a * (np.log(1.0 + 1j * wc * t) - 1j * wc * t)
    z = 1.0 / wc + 1j * t
    return a / (zeta * (1.0 - zeta)) * (z ** (1.0 - zeta) - wc ** (zeta - 1.0)) - 1j * t * a * wc ** zeta / zeta


def closed_cell(alpha, zeta, wc, shape, delta, t1, t2=None):
    e = lambda t: closed_eta(alpha, zeta, wc, t)
    if shape == "upper-triangle":   # only for t1 == 0
        return e(delta)
    if shape == "square":
        return e(t1 + delta) - 2 * e(t1) + e(t1 - delta)
    return e(t2) - e(t1) - e(t2 - delta) + e(t1 - delta)


# single mode  C(tau) = g^2 [coth(w0/2T) cos(w0 tau) - i sin(w0 tau)]  (custom correlation callable)
def mode_c(g, w0, temp):
    ct = 1.0 if temp == 0 else 1.0 / math.tanh(w0 / (2 * temp))
    return lambda tau: g * g * (ct * np.cos(w0 * tau) - 1j * np.sin(w0 * tau))


def mode_cell(g, w0, temp, kern):
    ct = 1.0 if temp == 0 else 1.0 / math.tanh(w0 / (2 * temp))
    k = complex(kern(np.array([w0]))[0])
    return g * g * (ct * k.real + 1j * k.imag)


# ------------------------------------------------------------------------------------------------
# overlap weights for 1D integration of a correlation function

def weight_rect(a, b, delta):
    return lambda s: np.maximum(0.0, np.minimum(b, s + delta) - np.maximum(a, s))


def weight_tri(delta, t1=0.0):
    return lambda s: np.where((s >= t1) & (s <= t1 + delta), delta - (s - t1), 0.0)


def power_for(zeta):
    """smallest m in 2..8 with m*zeta integer (m >= 2 also regularises custom j's that are smooth in w)."""
    for m in range(2, 9):
        if abs(m * zeta - round(m * zeta)) < 1e-12:
            return m
    raise ValueError(f"zeta={zeta}: no substitution power <= 8 makes the integrand analytic")
