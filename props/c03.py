"""C03  Contracting any process tensor reproduces the exact joint evolution.

Exhaustive product of small alphabets; every case is a hand-built exact ancilla process tensor (or a
list of them, in every order) run through the real compute_dynamics and compared at every step with a
first-principles density-matrix simulation of system (x) ancillas (mc.refmodel.JointSim)."""
import itertools

import numpy as np
import scipy.linalg as sl

from mc.common import Report, Violation, pmap, bind_repo
from mc import refmodel as R
from mc import ancilla as A
from . import models as M

oq = bind_repo()
LEVEL = "exploration"
TOL = 1e-10
DT = 0.2


def anc_state(e, tag):
    p = np.arange(1, e + 1, dtype=float) ** (1 + 0.3 * tag)
    p /= p.sum()
    u = R.random_free_unitary(e, 7 + tag)
    return (u * p) @ u.conj().T


def _file_cls(**kw):
    from oqupy.process_tensor import FileProcessTensor
    return FileProcessTensor(mode="write", filename=None, **kw)


def env_spec(kind, d, e, n, tag, transform, caps, file=False, scribble=False):
    """Returns dict(pt=..., kraus=lambda k: physical Kraus list, sigma=ancilla state)."""
    v = M.generic_unitary(d, 3 + tag) if transform and transform != "G" else None
    g = None
    if transform == "G":
        # a general invertible change of operator basis (not a unitary conjugation, not trace preserving)
        rng = np.random.default_rng(900 + tag + d)
        g = np.eye(d * d) + 0.35 * (rng.standard_normal((d * d, d * d)) + 1j * rng.standard_normal((d * d, d * d)))
    if file and g is not None:
        import functools
        build = functools.partial(A.build_pt, cls=_file_cls, basis_g=g)
    elif g is not None:
        import functools
        build = functools.partial(A.build_pt, basis_g=g)
    elif file:
        import functools
        orig = A.build_pt
        build = functools.partial(orig, cls=_file_cls)
    elif scribble:
        import functools
        build = functools.partial(A.build_pt, scribble=True)
    else:
        build = A.build_pt
    sigma = anc_state(e, tag)
    if kind == "unitary":
        ks_int = [[R.random_free_unitary(d * e, 10 * tag + k)] for k in range(n)]
        pt = build(d, e, sigma, ks_int, dt=DT, basis_v=v, caps=caps)
        ks = [A.physical_kraus(k, v, e) for k in ks_int]
    elif kind == "cptp":
        ks_int = [R.amplitude_damping_kraus_joint(d, e, 10 * tag + k, p=0.3 + 0.1 * k) for k in range(n)]
        pt = build(d, e, sigma, ks_int, dt=DT, basis_v=v, caps=caps)
        ks = [A.physical_kraus(k, v, e) for k in ks_int]
    elif kind == "rank3":
        us = [[R.random_free_unitary(e, 100 * tag + 10 * k + t) for t in range(d)] for k in range(n)]
        pt = build(d, e, sigma, None, dt=DT, rank3_us=us, basis_v=v, caps=caps)
        ks = [A.physical_kraus(R.controlled_kraus(u), v, e) for u in us]
    elif kind == "trivial":
        from oqupy.process_tensor import TrivialProcessTensor
        return {"pt": TrivialProcessTensor(hilbert_space_dimension=d), "kraus": None, "sigma": None}
    else:
        raise ValueError(kind)
    return {"pt": pt, "kraus": ks, "sigma": sigma}


def system_spec(kind, d, start):
    """Returns (oqupy system, props(k))."""
    h0 = M.generic_herm(d, 1, 0.8)
    h1 = M.generic_herm(d, 2, 0.5)
    lop = np.diag(np.ones(d - 1), 1).astype(complex)
    if kind == "zero":
        sysm = oq.System(np.zeros((d, d), dtype=complex))
        p = R.half_props(np.zeros((d, d)), DT)
        return sysm, (lambda k: p)
    if kind == "H":
        sysm = oq.System(h0)
        p = R.half_props(h0, DT)
        return sysm, (lambda k: p)
    if kind == "H+L":
        sysm = oq.System(h0, gammas=[0.3, 0.1], lindblad_operators=[lop, h1])
        p = R.half_props(h0, DT, [0.3, 0.1], [lop, h1])
        return sysm, (lambda k: p)
    if kind == "H(t)":
        def f(t):
            return 0.4 * np.floor((t - start) / (DT / 2) + 1e-9)

        sysm = oq.TimeDependentSystem(lambda t: h0 + f(t) * h1, gammas=[lambda t: 0.2 + 0.1 * f(t)],
                                      lindblad_operators=[lambda t: lop])

        def props(k):
            fa, fb = 0.4 * (2 * k), 0.4 * (2 * k + 1)
            return (sl.expm(R.lindbladian(h0 + fa * h1, [0.2 + 0.1 * fa], [lop]) * DT / 2),
                    sl.expm(R.lindbladian(h0 + fb * h1, [0.2 + 0.1 * fb], [lop]) * DT / 2))
        return sysm, props
    raise ValueError(kind)


def control_spec(kind, d, n, start=0.0):
    ctrl = oq.Control(d)
    pre, post = {}, {}
    if kind == "none":
        return None, pre, post
    u = M.generic_unitary(d, 9)
    kick = R.conj_super(u)
    step = min(1, n)
    if kind == "pre":
        ctrl.add_single(step, kick, post=False)
        pre[step] = kick
    elif kind == "post":
        ctrl.add_single(0, kick, post=True)
        post[0] = kick
    elif kind == "pre-float":
        # the same control given by float time (relative to a possibly non-zero start time, slightly off grid)
        ctrl.add_single(float(start + (step + 0.2) * DT), kick, post=False)
        pre[step] = kick
    elif kind == "pre-last":
        ctrl.add_single(n, kick, post=False)
        pre[n] = kick
    elif kind == "post-late":
        ctrl.add_single(max(n - 1, 0), kick, post=True)
        post[max(n - 1, 0)] = kick
    elif kind == "float-then-int":
        # two non-commuting controls on one step: the first given by float time, the second by step number
        kick2 = R.conj_super(M.generic_unitary(d, 4))
        ctrl.add_single(float(start + (step + 0.2) * DT), kick, post=False)
        ctrl.add_single(step, kick2, post=False)
        pre[step] = kick2 @ kick
    elif kind == "int-then-float":
        kick2 = R.conj_super(M.generic_unitary(d, 4))
        ctrl.add_single(step, kick, post=False)
        ctrl.add_single(float(start + (step - 0.2) * DT), kick2, post=False)
        pre[step] = kick2 @ kick
    elif kind == "pre+post":
        kick2 = R.conj_super(M.generic_unitary(d, 4))
        ctrl.add_single(step, kick, post=False)
        ctrl.add_single(step if step < n else 0, kick2, post=True)
        pre[step] = kick
        post[step if step < n else 0] = kick2
    return ctrl, pre, post


def run_case(case):
    """case: dict(d, n, envs=[(kind,e,tag,transform,caps)...], system, control, start, num_steps, subdiv)"""
    d, n = case["d"], case["n"]
    envs = [env_spec(k, d, e, n, tag, tr, caps, file=bool(case.get("file")), scribble=bool(case.get("scribble")))
            for (k, e, tag, tr, caps) in case["envs"]]
    start = case.get("start", 0.0)
    sysm, props = system_spec(case["system"], d, start)
    ns = case.get("num_steps") or n
    ctrl, pre, post = control_spec(case["control"], d, ns, start)
    rho0 = M.generic_state(d, 2)
    lay = case.get("rho_layout")
    if lay == "F":
        rho0 = np.asfortranarray(rho0)                     # same values, column-major memory
    elif lay == "T-view":
        rho0 = np.ascontiguousarray(rho0.T).T              # a transposed view (F-contiguous, not owning its data)
    elif lay == "strided":
        big = np.zeros((2 * d, 2 * d), dtype=complex)
        big[::2, ::2] = rho0
        rho0 = big[::2, ::2]
    kw = {}
    if case.get("subdiv", "default") is None:
        kw["subdiv_limit"] = None
    bare = not any(x["kraus"] is not None for x in envs)
    if bare:
        kw["dt"] = DT
    try:
        dyn = oq.compute_dynamics(sysm, rho0, process_tensor=[x["pt"] for x in envs], control=ctrl,
                                  start_time=start, num_steps=ns if bare else case.get("num_steps"),
                                  progress_type="silent", record_all=not case.get("final_only"), **kw)
    except Exception as ex:  # noqa
        return {"dev": None, "exc": f"{type(ex).__name__}: {ex}"[:200]}
    finally:
        if case.get("file"):
            for x in envs:
                try:
                    x["pt"].remove()
                except Exception:  # noqa
                    pass
    real = [x for x in envs if x["kraus"] is not None]
    ref = R.simulate(rho0, [x["sigma"] for x in real], lambda j, k: real[j]["kraus"][k], props, ns, pre, post)
    got = np.array(dyn.states)
    if case.get("final_only"):
        # record_all=False: exactly one state, the final one, labelled with the final time
        if got.shape[0] != 1:
            return {"dev": None, "exc": f"{got.shape[0]} states recorded with record_all=False"}
        dev1 = float(np.abs(got[0] - np.array(ref)[ns]).max())
        tdev = float(abs(dyn.times[0] - (start + DT * ns)))
        infl = float(np.abs(np.array(ref)[ns] - rho0).max())
        return {"dev": dev1, "first_bad": ns if dev1 > TOL else None, "tdev": tdev, "infl": infl, "states": got}
    if got.shape[0] != ns + 1:
        return {"dev": None, "exc": f"{got.shape[0]} states instead of {ns + 1}"}
    dev = np.abs(got - np.array(ref)).max(axis=(1, 2))
    tdev = np.abs(np.array(dyn.times) - (start + DT * np.arange(ns + 1))).max()
    infl = max(np.abs(np.array(ref)[k] - rho0).max() for k in range(ns + 1))
    return {"dev": float(dev.max()), "first_bad": int(np.argmax(dev > TOL)) if (dev > TOL).any() else None,
            "tdev": float(tdev), "infl": float(infl), "states": got}


def cases_single(tier):
    out = []
    des = [(2, 2), (2, 3), (3, 2)] + ([(3, 3)] if tier == "thorough" else [])
    for (d, e), n, kind, tr, caps, sysk, ck in itertools.product(
            des, [1, 2, 4], ["unitary", "rank3", "cptp"], [False, True], ["explicit", "computed"],
            ["zero", "H", "H+L", "H(t)"], ["none", "pre", "post", "pre-last"]):
        out.append({"fam": "single", "d": d, "n": n, "envs": [(kind, e, 1, tr, caps)], "system": sysk, "control": ck})
    # file-backed process tensors (FileProcessTensor) with the same content
    for (d, e), kind, tr, caps, sysk in itertools.product([(2, 3), (3, 2)], ["unitary", "rank3", "cptp"], [False, True],
                                                          ["explicit", "computed"], ["H", "H(t)"]):
        out.append({"fam": "file", "d": d, "n": 3, "envs": [(kind, e, 1, tr, caps)], "system": sysk, "control": "pre",
                    "file": True})
    # only the final state recorded (record_all=False): pre- and post-measurement controls must still all act
    for (d, e), n, kind, sysk, ck in itertools.product([(2, 3), (3, 2)], [1, 2, 4], ["unitary", "rank3", "cptp"], ["H", "H(t)"],
                                                       ["none", "pre", "post", "pre-last", "post-late", "pre+post"]):
        out.append({"fam": "final-only", "d": d, "n": n, "envs": [(kind, e, 1, True, "explicit")], "system": sysk,
                    "control": ck, "final_only": True})
        if ck in ("post-late", "pre+post"):
            out.append({"fam": "single", "d": d, "n": n, "envs": [(kind, e, 1, True, "explicit")], "system": sysk,
                        "control": ck})
    # process tensors built by a caller that re-uses one work buffer per tensor shape and overwrites it afterwards;
    # stacked controls whose times are given in mixed ways
    for (d, e), n, kind, caps, ck in itertools.product([(2, 3), (3, 2)], [2, 4], ["unitary", "rank3", "cptp"],
                                                       ["explicit", "computed"], ["pre", "float-then-int", "int-then-float"]):
        out.append({"fam": "work-buffers", "d": d, "n": n, "envs": [(kind, e, 1, True, caps)], "system": "H",
                    "control": ck, "scribble": True})
    # process tensors stored in a general (non-unitary, non-trace-preserving) operator basis, in memory and file-backed
    for (d, e), n, kind, caps, fil in itertools.product([(2, 3), (3, 2)], [1, 3], ["unitary", "rank3", "cptp"],
                                                        ["explicit", "computed"], [False, True]):
        c_ = {"fam": "general-basis", "d": d, "n": n, "envs": [(kind, e, 1, "G", caps)], "system": "H", "control": "pre"}
        if fil:
            c_["file"] = True
        out.append(c_)
    # the initial state handed over in other memory layouts (same values)
    for (d, e), kind, sysk, lay in itertools.product([(2, 3), (3, 2)], ["unitary", "rank3", "cptp"], ["zero", "H(t)"],
                                                     ["F", "T-view", "strided"]):
        out.append({"fam": "state-layout", "d": d, "n": 2, "envs": [(kind, e, 1, True, "explicit")], "system": sysk,
                    "control": "pre", "rho_layout": lay})
    # first n' steps of a longer PT, non-zero start time with H(t), both subdivision settings
    for (d, e), kind, nsub, start, sub in itertools.product([(2, 3), (3, 2)], ["unitary", "rank3", "cptp"],
                                                            [1, 2, 3], [0.0, 1.7, -0.3], ["default", None]):
        out.append({"fam": "prefix", "d": d, "n": 4, "envs": [(kind, e, 2, True, "explicit")], "system": "H(t)",
                    "control": "pre", "num_steps": nsub, "start": start, "subdiv": sub})
        out.append({"fam": "prefix", "d": d, "n": 4, "envs": [(kind, e, 2, True, "explicit")], "system": "H(t)",
                    "control": "pre-float", "num_steps": nsub, "start": start, "subdiv": sub})
    return out


POOL = [("unitary", 2, 1, False, "explicit"), ("rank3", 3, 2, True, "explicit"), ("cptp", 2, 3, False, "computed"),
        ("trivial", 1, 0, False, "explicit")]


def cases_multi(tier):
    out = []
    lists = [()]
    for r in (1, 2, 3):
        lists += list(itertools.permutations(range(len(POOL)), r))
    ns = [1, 2, 4] if tier == "thorough" else [1, 3]
    for d, n, lst, sysk, ck in itertools.product([2, 3], ns, lists, ["zero", "H", "H+L", "H(t)"],
                                                 ["none", "pre", "post"]):
        out.append({"fam": "multi", "d": d, "n": n, "envs": [POOL[i] for i in lst], "system": sysk, "control": ck,
                    "order": list(lst)})
    return out


def commuting_case(args):
    """rank-3 environments in a common (system) basis commute: every order must give *identical* results."""
    d, n, sysk = args
    specs = [("rank3", 2, 4, False, "explicit"), ("rank3", 3, 5, False, "computed"), ("rank3", 2, 6, False, "explicit")]
    res = {}
    for perm in itertools.permutations(range(3)):
        r = run_case({"d": d, "n": n, "envs": [specs[i] for i in perm], "system": sysk, "control": "pre"})
        res[perm] = r
    base = res[(0, 1, 2)]
    out = []
    for perm, r in res.items():
        if r["dev"] is None:
            out.append((perm, "exception", r["exc"]))
            continue
        if r["dev"] > TOL:
            out.append((perm, "oracle", r["dev"]))
        if base["dev"] is not None:
            dd = float(np.abs(r["states"] - base["states"]).max())
            if dd > 1e-12:
                out.append((perm, "order-dependence", dd))
    return {"n": len(res), "bad": out, "infl": min(r["infl"] for r in res.values() if r["dev"] is not None)}


def summed_bath_case(args):
    """Two baths with the same coupling operator == one bath with the summed spectral density."""
    idx, epsrel = args
    pairs = [((0.10, 1.0, 3.0, "exponential"), (0.05, 3.0, 2.0, "gaussian"), 0.0),
             ((0.15, 1.0, 4.0, "gaussian"), (0.10, 1.0, 2.0, "exponential"), 0.8),
             ((0.08, 0.5, 2.0, "exponential"), (0.12, 2.0, 5.0, "exponential"), 0.3)]
    (a1, z1, c1, t1), (a2, z2, c2, t2), temp = pairs[idx]
    op = 0.5 * M.SZ if idx != 1 else 0.5 * M.SX
    sd1 = oq.PowerLawSD(a1, z1, c1, t1, temperature=temp)
    sd2 = oq.PowerLawSD(a2, z2, c2, t2, temperature=temp)
    cmax = max(c1, c2) * 12
    sd12 = oq.CustomSD(lambda w: sd1.spectral_density(w) + sd2.spectral_density(w), cutoff=cmax,
                       cutoff_type="hard", temperature=temp)
    n, dt = 5, 0.2
    prm = oq.TempoParameters(dt=dt, epsrel=epsrel, dkmax=None)
    pts = [oq.pt_tempo_compute(oq.Bath(op, s), 0.0, n * dt + 0.05, prm, progress_type="silent")
           for s in (sd1, sd2, sd12)]
    sysm = oq.System(0.5 * M.SX + 0.3 * M.SY)
    rho0 = M.RHO_GEN2
    d12 = oq.compute_dynamics(sysm, rho0, process_tensor=[pts[0], pts[1]], progress_type="silent")
    d21 = oq.compute_dynamics(sysm, rho0, process_tensor=[pts[1], pts[0]], progress_type="silent")
    ds = oq.compute_dynamics(sysm, rho0, process_tensor=pts[2], progress_type="silent")
    free = oq.compute_dynamics(sysm, rho0, dt=dt, num_steps=n, progress_type="silent")
    s12, s21, ss, sf = (np.array(x.states) for x in (d12, d21, ds, free))
    return {"dev_sum": float(np.abs(s12 - ss).max()), "dev_order": float(np.abs(s12 - s21).max()),
            "infl": float(np.abs(ss - sf).max()), "epsrel": epsrel, "idx": idx}


def resolution_case(order):
    """ONE System object contracted with ancilla process tensors built for different time steps (a convergence scan),
    in the given order; every run against the joint simulation with the half-step propagators of ITS time step."""
    d, e, n = 2, 3, 3
    h = M.generic_herm(d, 1, 0.8)
    sysm = oq.System(h, gammas=[0.2], lindblad_operators=[np.diag(np.ones(d - 1), 1).astype(complex)])
    sigma = anc_state(e, 1)
    ks = [[R.random_free_unitary(d * e, 10 + k)] for k in range(n)]
    rho0 = M.generic_state(d, 2)
    bad = []
    for i, dt in enumerate(order):
        pt = A.build_pt(d, e, sigma, ks, dt=dt)
        dyn = oq.compute_dynamics(sysm, rho0, process_tensor=pt, progress_type="silent")
        pr = R.half_props(h, dt, [0.2], [np.diag(np.ones(d - 1), 1).astype(complex)])
        ref = np.array(R.simulate(rho0, [sigma], lambda j, k: ks[k], lambda k: pr, n))
        dev = float(np.abs(np.array(dyn.states) - ref).max())
        tdev = float(np.abs(np.array(dyn.times) - dt * np.arange(n + 1)).max())
        if dev > TOL or tdev > 1e-12:
            bad.append((f"resolution|time-step-{'first' if i == 0 else 'after-other-time-steps'}|state-mismatch",
                        f"one System object, process tensors with dt={list(order[:i + 1])}: run at dt={dt} deviates from the "
                        f"joint evolution by {dev:.2e}"))
    return {"bad": bad, "n": len(order)}


def _worker(case):
    r = run_case(case)
    r.pop("states", None)
    return r


def run(tier, seed):
    rep = Report(LEVEL)
    ro = list(itertools.permutations((0.4, 0.2, 0.1)))
    for o_, r_ in zip(ro, pmap(resolution_case, ro, chunksize=1, seed=seed)):
        for cls, what in r_["bad"]:
            rep.add(Violation(cls, what, {"fam": "resolution", "order": list(o_)}))
    cases = cases_single(tier) + cases_multi(tier)
    res = pmap(_worker, cases, seed=seed)
    keys = set()
    maxdev = 0.0
    min_infl = 1e9
    for c, r in zip(cases, res):
        key = (c["fam"], c["d"], c["n"], tuple(c["envs"]), c["system"], c["control"], c.get("num_steps"),
               c.get("start"), c.get("subdiv"))
        desc = "+".join(f"{k}{'T' if tr else ''}" for (k, e, tag, tr, caps) in c["envs"]) or "none"
        if r["dev"] is None:
            rep.add(Violation(f"{c['fam']}|{desc}|{c['system']}|{c['control']}|exception", r["exc"], c))
            continue
        if c["envs"] and any(k != "trivial" for (k, *_r) in c["envs"]) and r["infl"] > 0.05:
            keys.add(key)
        min_infl = min(min_infl, r["infl"]) if c["envs"] else min_infl
        maxdev = max(maxdev, r["dev"])
        if r["dev"] > TOL:
            rep.add(Violation(f"{c['fam']}|{desc}|{c['system']}|{c['control']}|state-mismatch",
                              f"d={c['d']} N={c['n']} envs={desc}: |rho - exact| = {r['dev']:.2e} first at step "
                              f"{r['first_bad']}", c))
        if r["tdev"] > 1e-12:
            rep.add(Violation(f"{c['fam']}|{desc}|times", f"time axis off by {r['tdev']:.2e}", c))
    comm = [(d, n, s) for d in (2, 3) for n in (1, 3) for s in ("zero", "H", "H(t)")]
    cres = pmap(commuting_case, comm, seed=seed)
    ncomm = 0
    for c, r in zip(comm, cres):
        ncomm += r["n"]
        for perm, what, val in r["bad"]:
            rep.add(Violation(f"commuting|rank3x3|{c[2]}|{what}", f"d={c[0]} N={c[1]} order={perm}: {what} {val}",
                              {"fam": "commuting", "args": list(c)}))
    eps = [1e-5, 1e-8]
    sb = [(i, e) for i in range(3) for e in eps]
    sres = pmap(summed_bath_case, sb, chunksize=1, seed=seed)
    for r in sres:
        tol = 30 * r["epsrel"] * 5
        if r["infl"] < 0.02:
            rep.add(Violation("summed-bath|vacuous", f"baths barely influence the system ({r['infl']:.1e})",
                              {"fam": "summed", "args": [r["idx"], r["epsrel"]]}))
        if r["dev_sum"] > tol:
            rep.add(Violation("summed-bath|sum", f"pair {r['idx']} epsrel={r['epsrel']}: [pt1,pt2] vs pt(J1+J2) differ by "
                                                  f"{r['dev_sum']:.2e} > {tol:.1e}", {"fam": "summed", "args": [r["idx"], r["epsrel"]]}))
        if r["dev_order"] > tol:
            rep.add(Violation("summed-bath|order", f"pair {r['idx']} epsrel={r['epsrel']}: [pt1,pt2] vs [pt2,pt1] differ by "
                                                    f"{r['dev_order']:.2e}", {"fam": "summed", "args": [r["idx"], r["epsrel"]]}))
    rep.coverage = {
        "evaluations": len(cases) + ncomm + 3 * len(sb),
        "distinct_nontrivial": len(keys),
        "rule": "full product of (d,e) x N x env kind x transforms x caps style x system x control (single), all ordered "
                "sub-lists of a 4-environment pool (multi), all 6 orders of 3 commuting rank-3 environments, 3 summed-bath "
                "pairs x 2 epsrel; a case is non-trivial if it has a real environment and the exact states move by >0.05; "
                "distinct by the full parameter tuple",
        "samples": [cases[seed % len(cases)], cases[(seed + 777) % len(cases)]],
        "exhaustive": True,
        "max_dev": maxdev, "tolerance": TOL, "max_dev_over_tol": maxdev / TOL,
        "min_environment_influence": min_infl,
        "summed_bath": sres,
    }
    rep.assumptions = ["reference: first-principles density-matrix simulation of system (x) ancillas (mc/refmodel.py), "
                       "self-tested against a second formulation (selftest/t_refmodel.py)",
                       "order of non-commuting environments: sequential semantics in list order is what is checked; exact "
                       "order independence only for commuting environments (DESIGN sec. 4 C03)"]
    return rep


def replay(rp):
    if rp.get("fam") == "resolution":
        r = resolution_case(tuple(rp["order"]))
        return {"obs": r["bad"], "violation": r["bad"][0][0] if r["bad"] else None}
    fam = rp.get("fam")
    if fam == "commuting":
        r = commuting_case(tuple(rp["args"]))
        return {"obs": r["bad"], "violation": f"commuting|rank3x3|{rp['args'][2]}|{r['bad'][0][1]}" if r["bad"] else None}
    if fam == "summed":
        r = summed_bath_case(tuple(rp["args"]))
        tol = 150 * r["epsrel"]
        v = "summed-bath|sum" if r["dev_sum"] > tol else ("summed-bath|order" if r["dev_order"] > tol else None)
        return {"obs": {k: r[k] for k in ("dev_sum", "dev_order")}, "violation": v}
    c = dict(rp)
    c["envs"] = [tuple(x) for x in c["envs"]]
    r = run_case(c)
    desc = "+".join(f"{k}{'T' if tr else ''}" for (k, e, tag, tr, caps) in c["envs"]) or "none"
    if r["dev"] is None:
        return {"obs": r["exc"], "violation": f"{c['fam']}|{desc}|{c['system']}|{c['control']}|exception"}
    v = f"{c['fam']}|{desc}|{c['system']}|{c['control']}|state-mismatch" if r["dev"] > TOL else None
    return {"obs": {"dev": round(r["dev"], 14)}, "violation": v}
