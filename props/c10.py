"""C10  PT-TEBD chain dynamics are exact where checkable, in every execution mode.

(1) Exactness (bounded-exhaustive product): uncoupled chains vs single-site compute_dynamics with the same
    process tensors; 2-site chains with generic coupling and longer chains whose gates all commute vs a dense
    simulation of the full chain Liouvillian (with the ancillas of exact ancilla PTs attached); partial-trace
    consistency of all recorded site subsets; total norm one.
(2) Execution modes: backend_config {'parallel': absent | 'multithread' | 'multiprocess'} each in a FRESH interpreter
    must run and agree with the sequential result.
(3) Schedules (model checking): the executors seen by the back-end are replaced by a virtual executor whose tasks are
    logical threads under the cooperative scheduler (mc/sched.py); all completion orders of the gates of a layer and
    all line-level interleavings of the gate tasks inside pt_tebd_backend.py with <= B preemptions are executed and
    every result must equal the sequential one.
"""
import itertools
import os
import pickle
import subprocess
import sys

import numpy as np
import scipy.linalg as sl

from mc.common import Report, Violation, pmap, bind_repo, VERIF, REPO
from mc import refmodel as R
from mc import ancilla as A
from mc import sched as S
from . import models as M

oq = bind_repo()
LEVEL = "model_checking"
DT = 0.2
TOL = 1e-8


# ------------------------------------------------------------------------------------------------
# chain descriptions (pure data) -> oqupy SystemChain and dense Liouvillian

def site_ops(d, tag):
    return M.generic_herm(d, tag, 0.6)


def chain_desc(kind, dims, diss):
    """kind: 'uncoupled' | 'zz' (all terms commute) | 'generic' (L=2 only) | 'zz-hom' (commuting, every site and every
    bond identical) | 'zz-hom0' (the same without single-site Hamiltonians)"""
    L = len(dims)
    hom = kind.startswith("zz-hom")
    kind0 = kind
    if hom:
        kind = "zz"
    cplx = kind == "generic-c"      # 'generic' with complex, non-normal Lindblad operators, built through every add_* method
    if cplx:
        kind = "generic"
    desc = {"dims": list(dims), "site_h": [], "site_l": [], "nn_h": [], "nn_l": []}
    for s, d in enumerate(dims):
        if kind == "zz":
            h = np.diag(np.linspace(0.4 + (0.0 if hom else 0.1 * s), -0.3, d)).astype(complex)
        else:
            h = site_ops(d, s + 1)
        if kind0 != "zz-hom0":
            desc["site_h"].append((s, h))
        if diss and kind != "zz":
            a = np.diag(np.ones(d - 1), 1).astype(complex)
            desc["site_l"].append((s, a, 0.15 + 0.05 * s))
        if diss and kind == "zz":
            z = np.diag(np.linspace(1, -1, d)).astype(complex)     # dephasing commutes with everything diagonal
            desc["site_l"].append((s, z, 0.1))
    for b in range(L - 1):
        dl, dr = dims[b], dims[b + 1]
        if kind == "zz":
            zl = np.diag(np.linspace(1, -1, dl)).astype(complex)
            zr = np.diag(np.linspace(1, -1, dr)).astype(complex)
            desc["nn_h"].append((b, 0.7 * zl, zr))
        elif kind == "generic":
            desc["nn_h"].append((b, M.generic_herm(dl, 7, 0.5), M.generic_herm(dr, 8, 1.0)))
            desc["nn_h"].append((b, 0.3 * np.diag(np.linspace(1, -1, dl)).astype(complex),
                                 np.diag(np.linspace(1, -1, dr)).astype(complex)))
            if diss:
                desc["nn_l"].append((b, np.diag(np.ones(dl - 1), 1).astype(complex),
                                     np.diag(np.ones(dr - 1), -1).astype(complex), 0.2))
    if cplx:
        desc["site_l"] = [(q, a + 0.3j * np.diag(np.linspace(1, -1, a.shape[0])), g) for (q, a, g) in desc["site_l"]]
        desc["nn_l"] = [(b, al * (0.8 + 0.5j) + 0.2j * np.diag(np.linspace(1, -1, al.shape[0])),
                         ar + 0.4j * np.diag(np.linspace(-1, 1, ar.shape[0])), g) for (b, al, ar, g) in desc["nn_l"]]
        desc["build"] = "liouvillians"
    return desc


def _two_site_super(al, bl, ar, br):
    """rho -> (al x ar) rho (bl x br) on vec(rho_l) x vec(rho_r), row-major vectorisation"""
    return np.kron(np.kron(al, bl.T), np.kron(ar, br.T))


def oq_chain_liouvillians(desc):
    """The same chain assembled through all five add_* methods of SystemChain, the ready-made Liouvillians being added
    *between* the other terms of the same site / bond (terms given as Liouvillians are built here, not by oqupy)."""
    dims = desc["dims"]
    ch = oq.SystemChain(hilbert_space_dimensions=dims)
    for s, h in desc["site_h"]:
        ch.add_site_hamiltonian(site=s, hamiltonian=h)
    for i, (s, a, g) in enumerate(desc["site_l"]):
        if i % 2 == 0:
            ch.add_site_dissipation(site=s, lindblad_operator=a, gamma=g)
        else:
            ch.add_site_liouvillian(site=s, liouvillian=R.lindbladian(np.zeros_like(a), [g], [a]))
    first = set()
    for b, hl, hr in desc["nn_h"]:
        if b not in first:
            first.add(b)
            ch.add_nn_hamiltonian(site=b, hamiltonian_l=hl, hamiltonian_r=hr)
    for b, al, ar, g in desc["nn_l"]:
        one_l, one_r = np.eye(dims[b]), np.eye(dims[b + 1])
        nl, nr = al.conj().T @ al, ar.conj().T @ ar
        ch.add_nn_liouvillian(site=b, liouvillian_l_r=g * (
            _two_site_super(al, al.conj().T, ar, ar.conj().T) - 0.5 * _two_site_super(nl, one_l, nr, one_r)
            - 0.5 * _two_site_super(one_l, nl, one_r, nr)))
    seen = set()
    for b, hl, hr in desc["nn_h"]:
        if b not in seen:       # the first Hamiltonian term of each bond was added above
            seen.add(b)
            continue
        one_l, one_r = np.eye(dims[b]), np.eye(dims[b + 1])
        ch.add_nn_liouvillian(site=b, liouvillian_l_r=-1j * (_two_site_super(hl, one_l, hr, one_r)
                                                             - _two_site_super(one_l, hl, one_r, hr)))
    return ch


def oq_chain(desc):
    if desc.get("build") == "liouvillians":
        return oq_chain_liouvillians(desc)
    ch = oq.SystemChain(hilbert_space_dimensions=desc["dims"])
    for s, h in desc["site_h"]:
        ch.add_site_hamiltonian(site=s, hamiltonian=h)
    for s, a, g in desc["site_l"]:
        ch.add_site_dissipation(site=s, lindblad_operator=a, gamma=g)
    for b, hl, hr in desc["nn_h"]:
        ch.add_nn_hamiltonian(site=b, hamiltonian_l=hl, hamiltonian_r=hr)
    for b, al, ar, g in desc["nn_l"]:
        ch.add_nn_dissipation(site=b, lindblad_operator_l=al, lindblad_operator_r=ar, gamma=g)
    return ch


def embed(op, s, dims):
    mats = [np.eye(d, dtype=complex) for d in dims]
    mats[s] = op
    out = mats[0]
    for m in mats[1:]:
        out = np.kron(out, m)
    return out


def dense_liouvillian(desc):
    dims = desc["dims"]
    D = int(np.prod(dims))
    H = np.zeros((D, D), dtype=complex)
    gam, ops = [], []
    for s, h in desc["site_h"]:
        H += embed(h, s, dims)
    for b, hl, hr in desc["nn_h"]:
        H += embed(hl, b, dims) @ embed(hr, b + 1, dims)
    for s, a, g in desc["site_l"]:
        gam.append(g)
        ops.append(embed(a, s, dims))
    for b, al, ar, g in desc["nn_l"]:
        gam.append(g)
        ops.append(embed(al, b, dims) @ embed(ar, b + 1, dims))
    return R.lindbladian(H, gam, ops)


def site_kraus_to_chain(kraus, s, dims, e):
    """Kraus operator on (site s (x) ancilla) -> operator on (chain (x) ancilla)."""
    out = []
    n = len(dims)
    D = int(np.prod(dims))
    for k in kraus:
        k4 = k.reshape(dims[s], e, dims[s], e)          # [i_s, a, j_s, b]
        full = np.zeros(tuple(dims) + (e,) + tuple(dims) + (e,), dtype=complex)
        rest = [r for r in range(n) if r != s]
        for idx in itertools.product(*[range(dims[r]) for r in rest]):
            sl_out = [slice(None)] * (2 * n + 2)
            for r, v in zip(rest, idx):
                sl_out[r] = v
                sl_out[n + 1 + r] = v
            full[tuple(sl_out)] = k4
        out.append(full.reshape(D * e, D * e))
    return out


def site_pt(kind, d, n, tag):
    """-> (oqupy PT or None, kraus per step or None, sigma, e)"""
    if kind == "none":
        return None, None, None, None
    e = 2
    sigma = np.diag([0.65, 0.35]).astype(complex)
    if kind == "ancilla":
        ks = [[R.random_free_unitary(d * e, 200 + 10 * tag + k)] for k in range(n)]
        return A.build_pt(d, e, sigma, ks, dt=DT), ks, sigma, e
    if kind == "ancilla3":
        us = [[R.random_free_unitary(e, 300 + 10 * tag + 3 * k + t) for t in range(d)] for k in range(n)]
        return A.build_pt(d, e, sigma, None, dt=DT, rank3_us=us, caps="computed"), [R.controlled_kraus(u) for u in us], sigma, e
    raise ValueError(kind)


_TPT = {}


def tempo_pt(n):
    if n not in _TPT:
        bath = oq.Bath(0.5 * M.SZ, M.ohmic(alpha=0.3, temperature=0.3))
        _TPT[n] = oq.pt_tempo_compute(bath, 0.0, (n + 0.4) * DT, oq.TempoParameters(dt=DT, epsrel=1e-9), progress_type="silent")
    return _TPT[n]


def initial_states(dims):
    return [M.generic_state(d, 2 + s) for s, d in enumerate(dims)]


def run_tebd(desc, pts, n, order, sites, config=None, epsrel=1e-12):
    dims = desc["dims"]
    t = oq.PtTebd(oq.AugmentedMPS(initial_states(dims)), oq_chain(desc), pts,
                  oq.PtTebdParameters(dt=DT, order=order, epsrel=epsrel), dynamics_sites=sites,
                  backend_config=config)
    r = t.compute(n, progress_type="silent")
    return r


def ptrace(rho, dims, keep):
    n = len(dims)
    t = rho.reshape(tuple(dims) + tuple(dims))
    letters = "abcdefghijkl"
    up = list(letters[:n])
    lo = [c.upper() for c in up]
    for s in range(n):
        if s not in keep:
            lo[s] = up[s]
    expr = "".join(up) + "".join(lo) + "->" + "".join(up[s] for s in keep) + "".join(lo[s] for s in keep)
    dk = int(np.prod([dims[s] for s in keep]))
    return np.einsum(expr, t).reshape(dk, dk)


def exact_case(case):
    kind, dims, diss, ptkinds, order, n = case
    dims = list(dims)
    L = len(dims)
    desc = chain_desc(kind, dims, diss)
    pts, kraus, sigmas, es = [], [], [], []
    for s, pk in enumerate(ptkinds):
        if pk == "tempo":
            pts.append(tempo_pt(n))
            kraus.append(None)
            sigmas.append(None)
            es.append(None)
            continue
        pt, ks, sg, e = site_pt(pk, dims[s], n, s)
        pts.append(pt)
        kraus.append(ks)
        sigmas.append(sg)
        es.append(e)
    singles = list(range(L))
    subsets = singles + [(0, 1)] + ([(0, L - 1)] if L > 2 else []) + ([tuple(range(L))] if 2 < L <= 4 else [])
    subsets = list(dict.fromkeys(subsets))
    out = {"bad": [], "n": 1, "infl": 0.0}
    try:
        r = run_tebd(desc, pts, n, order, subsets)
    except Exception as ex:  # noqa
        out["bad"].append((f"exact|{kind}|exception:{type(ex).__name__}", str(ex)[:150]))
        return out
    norm = np.asarray(r["norm"])
    if np.abs(norm - 1).max() > 1e-8:
        out["bad"].append((f"exact|{kind}|norm", f"norm deviates by {np.abs(norm - 1).max():.2e}"))
    dyn = r["dynamics"]
    # partial-trace consistency of recorded subsets
    for sub in subsets:
        if isinstance(sub, tuple):
            big = np.asarray(dyn[sub].states)
            sdims = [dims[s] for s in sub]
            for j, s in enumerate(sub):
                red = np.array([ptrace(b, sdims, [j]) for b in big])
                dev = np.abs(red - np.asarray(dyn[s].states)).max()
                if dev > 1e-9:
                    out["bad"].append((f"exact|{kind}|partial-trace-inconsistent", f"subset {sub} site {s}: {dev:.2e}"))
    rho0 = initial_states(dims)
    if kind == "uncoupled":
        for s in range(L):
            sysm = oq.System(desc["site_h"][s][1], gammas=[g for (q, a, g) in desc["site_l"] if q == s],
                             lindblad_operators=[a for (q, a, g) in desc["site_l"] if q == s])
            kw = dict(process_tensor=pts[s]) if pts[s] is not None else dict(dt=DT)
            d1 = oq.compute_dynamics(sysm, rho0[s], num_steps=n, progress_type="silent", **kw)
            dev = np.abs(np.asarray(d1.states) - np.asarray(dyn[s].states)).max()
            tol = 1e-6 if ptkinds[s] == "tempo" else TOL
            if dev > tol:
                out["bad"].append((f"exact|uncoupled|site-differs-from-single-site-run({ptkinds[s]})",
                                   f"dims={dims} site {s} pt={ptkinds[s]} order={order}: {dev:.2e}"))
            out["infl"] = max(out["infl"], np.abs(np.asarray(d1.states) - rho0[s]).max())
        return out
    # dense reference of the full chain with ancillas
    if any(k == "tempo" for k in ptkinds):
        return out
    D = int(np.prod(dims))
    half = sl.expm(dense_liouvillian(desc) * DT / 2)
    joint0 = rho0[0]
    for x in rho0[1:]:
        joint0 = np.kron(joint0, x)
    real = [s for s in range(L) if kraus[s] is not None]

    def envk(j, k):
        s = real[j]
        return site_kraus_to_chain(kraus[s][k], s, dims, es[s])
    states = R.simulate(joint0, [sigmas[s] for s in real], envk, lambda k: (half, half), n)
    for sub in subsets:
        keep = list(sub) if isinstance(sub, tuple) else [sub]
        ref = np.array([ptrace(x, dims, keep) for x in states])
        dev = np.abs(ref - np.asarray(dyn[sub].states)).max()
        if dev > TOL:
            out["bad"].append((f"exact|{kind}|state-mismatch", f"dims={dims} diss={diss} pts={ptkinds} order={order} "
                                                              f"subset {sub}: {dev:.2e}"))
    out["infl"] = max(np.abs(ptrace(states[-1], dims, [0]) - rho0[0]).max(), 0)
    return out


def exact_cases(tier):
    out = []
    for dims, diss, order in itertools.product([(2, 2), (2, 3), (2, 2, 2), (2, 3, 2), (2, 2, 2, 2)], [False, True], [1, 2]):
        L = len(dims)
        for ptk in (["none"] * L, ["ancilla"] + ["none"] * (L - 1), ["none"] * (L - 1) + ["ancilla3"],
                    ["tempo"] + ["none"] * (L - 2) + ["ancilla"]):
            if any(k == "tempo" for k in ptk) and dims[0] != 2:
                continue
            out.append(("uncoupled", dims, diss, tuple(ptk), order, 3))
    out.append(("uncoupled", (2,) * 6, False, ("ancilla", "none", "none", "tempo", "none", "ancilla3"), 2, 3))
    for dims, diss, order in itertools.product([(2, 2), (2, 3), (3, 2)], [False, True], [1, 2]):
        for ptk in (("none", "none"), ("ancilla", "none"), ("none", "ancilla3"), ("ancilla", "ancilla")):
            out.append(("generic", dims, diss, ptk, order, 3))
    for dims, order in itertools.product([(2, 2), (2, 3), (3, 2)], [1, 2]):
        for ptk in (("none", "none"), ("ancilla", "none"), ("none", "ancilla3")):
            out.append(("generic-c", dims, True, ptk, order, 3))
    for dims, diss, order in itertools.product([(2, 2, 2), (2, 3, 2), (2, 2, 2, 2)], [False, True], [1, 2]):
        L = len(dims)
        for ptk in (["none"] * L, ["none", "ancilla"] + ["none"] * (L - 2)):
            out.append(("zz", dims, diss, tuple(ptk), order, 3))
    # homogeneous chains: all sites and all bonds identical (several bonds with byte-identical Liouvillians)
    for (kind, dims), diss, order in itertools.product([("zz-hom0", (2, 2, 2)), ("zz-hom0", (2, 2, 2, 2)), ("zz-hom", (2,) * 5),
                                                         ("zz-hom", (3, 3, 3, 3))], [False, True], [1, 2]):
        L = len(dims)
        out.append((kind, dims, diss, tuple(["none"] * L), order, 3))
        if dims[0] == 2:
            out.append((kind, dims, diss, tuple(["none", "ancilla"] + ["none"] * (L - 2)), order, 3))
    return out


# ------------------------------------------------------------------------------------------------
# execution modes in a fresh interpreter

MODE_SCRIPT = r"""
import sys, pickle
sys.path.insert(0, %r); sys.path.insert(0, %r)
import numpy as np
from props import c10
r = c10.mode_run(%r)
pickle.dump(r, open(%r, "wb"))
print("MODE-DONE")
"""


def mode_desc():
    dims = [2, 2, 2, 2]
    desc = chain_desc("uncoupled", dims, True)
    for b in range(3):
        desc["nn_h"].append((b, M.generic_herm(2, 7 + b, 0.5), M.generic_herm(2, 8 + b, 1.0)))
    return desc


def mode_run(parallel):
    desc = mode_desc()
    n = 2
    pt, _, _, _ = site_pt("ancilla", 2, n, 0)
    cfg = {} if parallel is None else {"parallel": parallel}
    r = run_tebd(desc, [pt, None, None, None], n, 2, [0, 1, 2, 3, (1, 2)], config=cfg, epsrel=1e-10)
    return {k if not isinstance(k, tuple) else str(k): np.asarray(v.states) for k, v in r["dynamics"].items()}, np.asarray(r["norm"])


def mode_case(parallel):
    import tempfile
    f = tempfile.mktemp(prefix="c10m_", suffix=".pkl")
    code = MODE_SCRIPT % (REPO, VERIF, parallel, f)
    env = dict(os.environ, VERIF_REPO=REPO)
    try:
        r = subprocess.run([sys.executable, "-c", code], capture_output=True, text=True, timeout=600, env=env)
    except subprocess.TimeoutExpired:
        return {"parallel": parallel, "error": "timeout"}
    if "MODE-DONE" not in r.stdout:
        err = [l for l in r.stderr.strip().splitlines() if l.strip()]
        return {"parallel": parallel, "error": err[-1][:200] if err else "no output"}
    res = pickle.load(open(f, "rb"))
    os.remove(f)
    return {"parallel": parallel, "result": res}


# ------------------------------------------------------------------------------------------------
# schedules: virtual executor

class VFuture:
    def __init__(self):
        self.value = None
        self.exc = None
        self.done_flag = False

    def result(self, timeout=None):
        s = S.VTimer.sched
        s.block_until(lambda: self.done_flag)
        if self.exc:
            raise self.exc
        return self.value

    def done(self):
        return self.done_flag


class VExecutor:
    """Stand-in for concurrent.futures.{Thread,Process}PoolExecutor: tasks are logical threads of the scheduler."""
    flavour = "thread"
    completion_log = None

    def __init__(self, *a, **k):
        self.futs = []

    def __enter__(self):
        return self

    def __exit__(self, *a):
        for f in self.futs:
            try:
                f.result()
            except Exception:  # noqa
                pass
        return False

    def submit(self, fn, *args):
        s = S.VTimer.sched
        fut = VFuture()
        if VExecutor.flavour == "process":
            args = pickle.loads(pickle.dumps(args))

        def body():
            try:
                v = fn(*args)
                if VExecutor.flavour == "process":
                    v = pickle.loads(pickle.dumps(v))
                fut.value = v
            except BaseException as ex:  # noqa
                fut.exc = ex
            fut.done_flag = True
            if VExecutor.completion_log is not None:
                VExecutor.completion_log.append(len(self.futs) and self.futs.index(fut))
        self.futs.append(fut)
        s.spawn_runnable(body, f"task{len(self.futs) - 1}")
        return fut

    def map(self, fn, *iterables):
        futs = [self.submit(fn, *args) for args in zip(*iterables)]

        def gen():
            for f in futs:
                yield f.result()
        return gen()

    def shutdown(self, wait=True):
        self.__exit__()


class _Futures:
    ThreadPoolExecutor = VExecutor
    ProcessPoolExecutor = VExecutor

    @staticmethod
    def as_completed(fs):
        s = S.VTimer.sched
        fs = list(fs)
        seen = set()
        while len(seen) < len(fs):
            progressed = False
            for f in fs:
                if f.done_flag and id(f) not in seen:
                    seen.add(id(f))
                    progressed = True
                    yield f
            if not progressed:
                s.block_until(lambda: any(f.done_flag and id(f) not in seen for f in fs))

    @staticmethod
    def wait(fs, timeout=None, return_when=None):
        for f in fs:
            f.result()
        return set(fs), set()


class _Concurrent:
    futures = _Futures


def sched_desc():
    return mode_desc()


def sched_execute(prefix, flavour, nsteps=1):
    import oqupy.backends.pt_tebd_backend as B
    s = S.Scheduler(("oqupy/backends/pt_tebd_backend.py",), prefix=prefix, max_firings=0, max_points=20000)
    S.VTimer.sched = s
    saved = B.concurrent
    B.concurrent = _Concurrent
    VExecutor.flavour = flavour
    VExecutor.completion_log = []
    box = {}
    try:
        def main():
            desc = sched_desc()
            pt, _, _, _ = site_pt("ancilla", 2, nsteps, 0)
            r = run_tebd(desc, [pt, None, None, None], nsteps, 2, [0, 1, 2, 3, (1, 2)],
                         config={"parallel": "multithread" if flavour == "thread" else "multiprocess"}, epsrel=1e-10)
            box["res"] = np.concatenate([np.asarray(r["dynamics"][k].states).ravel() for k in (0, 1, 2, 3, (1, 2))])
        s.run(main)
    finally:
        B.concurrent = saved
    s.result = box.get("res")
    s.completion = list(VExecutor.completion_log)
    return s


def layer_setup(nsites):
    from oqupy.mps_mpo import compute_tebd_propagator
    dims = [2] * nsites
    desc = chain_desc("uncoupled", dims, True)
    for b in range(nsites - 1):
        desc["nn_h"].append((b, M.generic_herm(2, 7 + b, 0.5), M.generic_herm(2, 8 + b, 1.0)))
    prop = compute_tebd_propagator(system_chain=oq_chain(desc), time_step=DT / 2, epsrel=1e-10, order=2)
    layers = [l for l in prop.gate_layers if len(l.gates) == nsites // 2]
    mps = oq.AugmentedMPS(initial_states(dims))
    return mps, layers[0]


def layer_apply(nsites, config):
    from oqupy.backends.pt_tebd_backend import PtTebdBackend
    mps, layer = layer_setup(nsites)
    be = PtTebdBackend(gammas=mps.gammas, lambdas=mps.lambdas, epsrel=1e-10, config=config)
    be.apply_nn_gate_layer(layer)
    # second application: the tensors produced by the first one are consumed again
    be.apply_nn_gate_layer(layer)
    out = [be.get_gamma(i).ravel() for i in range(nsites)] + [be.get_lambda(i).ravel() for i in range(nsites - 1)]
    return np.concatenate(out)


_LSEQ = {}


def layer_seq(nsites):
    if nsites not in _LSEQ:
        _LSEQ[nsites] = layer_apply(nsites, {})
    return _LSEQ[nsites]


def layer_execute(prefix, flavour, nsites):
    import oqupy.backends.pt_tebd_backend as B
    s = S.Scheduler(("oqupy/backends/pt_tebd_backend.py",), prefix=prefix, max_firings=0, max_points=20000)
    S.VTimer.sched = s
    saved = B.concurrent
    B.concurrent = _Concurrent
    VExecutor.flavour = flavour
    VExecutor.completion_log = []
    box = {}
    try:
        def main():
            box["res"] = layer_apply(nsites, {"parallel": "multithread" if flavour == "thread" else "multiprocess"})
        s.run(main)
    finally:
        B.concurrent = saved
    s.result = box.get("res")
    s.completion = list(VExecutor.completion_log)
    s.ref = layer_seq(nsites)
    return s


_SEQ = {}


def seq_result(nsteps=1):
    if nsteps not in _SEQ:
        desc = sched_desc()
        pt, _, _, _ = site_pt("ancilla", 2, nsteps, 0)
        r = run_tebd(desc, [pt, None, None, None], nsteps, 2, [0, 1, 2, 3, (1, 2)], config={}, epsrel=1e-10)
        _SEQ[nsteps] = np.concatenate([np.asarray(r["dynamics"][k].states).ravel() for k in (0, 1, 2, 3, (1, 2))])
    return _SEQ[nsteps]


def sched_check(x):
    v = []
    if x.deadlock:
        v.append("deadlock")
    if x.capped:
        v.append("did-not-terminate")
    for t in x.threads:
        if t.exc is not None:
            v.append(f"exception:{type(t.exc).__name__}")
    if x.result is None:
        v.append("no-result")
    elif x.result.shape != getattr(x, "ref", seq_result()).shape or \
            np.abs(x.result - getattr(x, "ref", seq_result())).max() > 1e-9:
        v.append("result-differs-from-sequential")
    return v


def _exec(driver, flavour, prefix):
    if driver == "step":
        return sched_execute(prefix, flavour)
    return layer_execute(prefix, flavour, int(driver[5:]))


def sched_job(args):
    driver, flavour, bound, prefix = args
    orders = set()

    def mk(p):
        x = _exec(driver, flavour, p)
        orders.add(tuple(x.completion))
        return x
    found, stats = S.explore(mk, bound, sched_check, prefix=prefix)
    out = {}
    wit = {}
    for ch, v in found:
        k = "+".join(sorted(set(v)))
        out[k] = out.get(k, 0) + 1
        if k not in wit or len(ch) < len(wit[k]):
            wit[k] = ch
    return {"stats": stats, "out": out, "wit": wit, "orders": sorted(orders)}


def schedule_part(tier, seed):
    vio, summary = [], {}
    nexec = npts = 0
    if tier == "quick":
        plan = [("layer4", "thread", 1), ("layer6", "thread", 0), ("layer4", "process", 0), ("step", "thread", 0)]
    else:
        # bound 2 on the 2-gate layer would be ~3e5 executions (hours); the thorough tier completes bound 1 for every driver
        plan = [("layer4", "thread", 1), ("layer6", "thread", 1), ("layer4", "process", 1), ("layer6", "process", 0),
                ("step", "thread", 0), ("step", "process", 0)]
    for driver, flavour, bound in plan:
        orders = set()

        def mk(p):
            x = _exec(driver, flavour, p)
            orders.add(tuple(x.completion))
            return x
        found, stats, prefixes = S.split_frontier(mk, bound, sched_check)
        jobs = [(driver, flavour, bound, p) for p in prefixes]
        res = pmap(sched_job, jobs, chunksize=max(1, len(jobs) // 256), seed=seed)
        ne = stats["executions"] + sum(r["stats"]["executions"] for r in res)
        nexec += ne
        npts += stats["points"] + sum(r["stats"]["points"] for r in res)
        out, wit = {}, {}
        for ch, v in found:
            k = "+".join(sorted(set(v)))
            out[k] = out.get(k, 0) + 1
            if k not in wit or len(ch) < len(wit[k]):
                wit[k] = ch
        for r in res:
            orders.update(tuple(o) for o in r["orders"])
            for k, c in r["out"].items():
                out[k] = out.get(k, 0) + c
                if k not in wit or len(r["wit"][k]) < len(wit[k]):
                    wit[k] = r["wit"][k]
        summary[f"{driver}/{flavour}/bound{bound}"] = {"executions": ne, "violating": out,
                                                      "distinct_completion_orders": len(orders)}
        for k, c in out.items():
            vio.append(Violation(f"schedule|{driver}|{flavour}|{k}", f"{c} of {ne} schedules (<= {bound} preemptions): {k}; witness {wit[k][:40]}",
                                 {"part": "schedule", "driver": driver, "flavour": flavour, "choices": wit[k]}))
    return vio, summary, nexec, npts, plan


def _exact_worker(case):
    return exact_case(case)


def run(tier, seed):
    rep = Report(LEVEL)
    tempo_pt(3)
    cases = exact_cases(tier)
    res = pmap(_exact_worker, cases, seed=seed)
    nontriv = 0
    for c, r in zip(cases, res):
        if r["infl"] > 0.02 or c[0] != "uncoupled":
            nontriv += 1
        for cls, what in r["bad"]:
            rep.add(Violation(cls, what, {"part": "exact", "case": [c[0], list(c[1]), c[2], list(c[3]), c[4], c[5]]}))
    modes = [None, "multithread", "multiprocess"]
    mres = pmap(mode_case, modes, chunksize=1, seed=seed)
    base = next((m for m in mres if m["parallel"] is None), None)
    msum = {}
    for m in mres:
        name = str(m["parallel"])
        if "error" in m:
            msum[name] = "error: " + m["error"]
            rep.add(Violation(f"mode|parallel={name}|fresh-interpreter|unusable:{m['error'].split(':')[0][:40]}",
                              f"backend_config={{'parallel': {m['parallel']!r}}} in a fresh interpreter: {m['error']}",
                              {"part": "mode", "parallel": m["parallel"]}))
            continue
        msum[name] = "ran"
        if base is not None and "result" in base and m is not base:
            dev = max(np.abs(base["result"][0][k] - m["result"][0][k]).max() for k in base["result"][0])
            msum[name] = f"ran, max deviation from sequential {dev:.1e}"
            if dev > 1e-9:
                rep.add(Violation(f"mode|parallel={name}|differs-from-sequential", f"dev {dev:.2e}", {"part": "mode", "parallel": m["parallel"]}))
    svio, ssum, nexec, npts, plan = schedule_part(tier, seed)
    for v in svio:
        rep.add(v)
    rep.coverage = {
        "states": npts,
        "transitions": nexec,
        "traces_validated_against_impl": nexec + len(cases) + len(modes),
        "exactness_cases": len(cases), "exactness_nontrivial": nontriv,
        "execution_modes": msum,
        "schedules": ssum, "schedule_plan(driver,flavour,preemption_bound)": [list(p) for p in plan],
        "exhaustive": True,
        "rule": "exactness: full product of chain family x site dimensions x dissipators x process tensors per site x Trotter "
                "order, every step and every recorded subset compared with single-site runs (uncoupled) or a dense simulation of "
                "the full Liouvillian incl. ancillas (2-site generic, commuting zz chains); schedules: states = scheduling points "
                "(source lines of pt_tebd_backend.py at which a gate task or the caller parked), transitions = complete "
                "executions with the virtual executor of (a) two applications of a parallel gate layer on a 4-site (2 gates) or 6-site (3 "
                "gates) chain through PtTebdBackend.apply_nn_gate_layer and (b) one full PtTebd step of a 4-site chain; all schedules "
                "with <= B preemptions per the plan (bound 0 = all completion orders, every task running to completion once started)",
        "samples": [{"exact_case": [cases[(5 * seed) % len(cases)][0], list(cases[(5 * seed) % len(cases)][1])]},
                    {"schedule": {"flavour": "thread", "choices": [0, 0, 1]}}],
    }
    rep.assumptions = ["scheduling points are source lines of oqupy/backends/pt_tebd_backend.py; tensornetwork/BLAS run atomically",
                       "real executors are exercised once each in a fresh interpreter (function + pickling), not for schedules",
                       "dense reference mc/refmodel.py; PT-TEMPO sites compared with single-site runs to 1e-6"]
    return rep


def replay(rp):
    if rp["part"] == "exact":
        c = rp["case"]
        r = exact_case((c[0], tuple(c[1]), c[2], tuple(c[3]), c[4], c[5]))
        return {"obs": r["bad"], "violation": r["bad"][0][0] if r["bad"] else None}
    if rp["part"] == "mode":
        m = mode_case(rp["parallel"])
        if "error" in m:
            return {"obs": m["error"], "violation": f"mode|parallel={rp['parallel']}|fresh-interpreter|unusable:{m['error'].split(':')[0][:40]}"}
        return {"obs": "ran", "violation": None}
    x = _exec(rp.get("driver", "step"), rp["flavour"], rp["choices"])
    v = sched_check(x)
    return {"obs": {"completion": x.completion, "n_points": len(x.points)},
            "violation": f"schedule|{rp.get('driver', 'step')}|{rp['flavour']}|" + "+".join(sorted(set(v))) if v else None}
