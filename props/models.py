"""Small physical set-ups shared by the checks (built on the real oqupy of the tree under test)."""
import numpy as np

from mc.common import bind_repo

oq = bind_repo()

SX = np.array([[0, 1], [1, 0]], dtype=complex)
SY = np.array([[0, -1j], [1j, 0]], dtype=complex)
SZ = np.array([[1, 0], [0, -1]], dtype=complex)
SM = np.array([[0, 0], [1, 0]], dtype=complex)
I2 = np.eye(2, dtype=complex)

RHO_PLUS = np.array([[0.5, 0.5], [0.5, 0.5]], dtype=complex)
RHO_GEN2 = np.array([[0.7, 0.2 - 0.1j], [0.2 + 0.1j, 0.3]], dtype=complex)


def generic_unitary(d, tag=1):
    """Fixed (not random) generic complex unitary expm(iA)."""
    import scipy.linalg as sl
    k = np.arange(d)
    a = np.cos(1.3 * tag + np.add.outer(k, 2.1 * k)) + 1j * np.sin(0.7 * tag + np.add.outer(1.7 * k, k))
    a = a + a.conj().T
    return sl.expm(1j * a)


def generic_herm(d, tag=1, scale=1.0):
    k = np.arange(d)
    a = np.sin(0.9 * tag + np.add.outer(1.1 * k, 2.3 * k)) + 1j * np.cos(1.9 * tag + np.add.outer(k, 0.6 * k))
    return scale * (a + a.conj().T) / 2


def generic_state(d, tag=1, pure=False):
    u = generic_unitary(d, tag + 5)
    if pure:
        p = np.zeros(d)
        p[0] = 1
    else:
        p = np.arange(1, d + 1, dtype=float) ** 1.5
        p /= p.sum()
    return (u * p) @ u.conj().T


def ohmic(alpha=0.1, zeta=1.0, cutoff=2.0, cutoff_type="exponential", temperature=0.5):
    return oq.PowerLawSD(alpha=alpha, zeta=zeta, cutoff=cutoff, cutoff_type=cutoff_type,
                         temperature=temperature)


def td_hamiltonian(t):
    return 0.5 * np.cos(0.9 * t) * SX + 0.3 * (1 + 0.5 * t) * SZ


def spin_boson(alpha=0.1, temperature=0.5, td=False):
    bath = oq.Bath(0.5 * SZ, ohmic(alpha=alpha, temperature=temperature))
    if td:
        system = oq.TimeDependentSystem(td_hamiltonian)
    else:
        system = oq.System(0.5 * SX + 0.2 * SZ)
    return system, bath
