"""C13  Computations cover exactly the requested time grid and label states correctly.

Model checking of the step-count / time-label arithmetic: the complete (dt, start, end-form, m)
lattice is enumerated, m = 0..M, against an oracle computed in exact decimal arithmetic.

Part A (lattice, M = 1000): real Tempo / MeanFieldTempo objects whose tensor-network back-end is
  replaced by a stub that just counts steps (so a compute() costs microseconds); the public
  compute(end_time) of one continuing object per (dt, start, form) is called for m = 0, 1, 2, ...
  and after each call len(dynamics), all time labels, sortedness and the alignment of states with
  times (the stub writes the step number into the state) are compared with the oracle.
  PtTempo: one real object is constructed per lattice point and its step count read.
Part B (public route, m <= MB): fresh real objects, real tensor networks, every API of the property.
Part C: tcut -> dkmax on the lattice.
"""
import itertools
from decimal import Decimal
from fractions import Fraction
import math

import numpy as np

from mc.common import Report, Violation, pmap, bind_repo
from . import models as M

oq = bind_repo()
LEVEL = "model_checking"
# separately run truncated tensor networks agree only to ~epsrel (1e-9 here); a misplaced state differs by >1e-2
ALIGN_TOL = 1e-6

DTS = ["0.1", "0.05", "0.2", "0.3", "0.25", "0.01", "0.7", "third"]
STARTS = ["0", "0.1", "-0.3", "1.7", "-2500"]       # -2500: |t|/dt up to 2.5e5 (relative comparisons of times break there)
FORMS = ["literal", "floatexpr", "off0.4", "off0.6", "off0.999", "mixed"]


def dtval(s):
    return 1.0 / 3.0 if s == "third" else float(s)


def end_time(dts, starts, form, m):
    """Returns (end_time float, expected n)."""
    dt, st = dtval(dts), float(starts)
    if form == "mixed":
        # targets whose position inside the grid cell changes from call to call: off-grid for even m, grid point for odd m
        return end_time(dts, starts, "off0.6" if m % 2 == 0 else "floatexpr", m)
    if form == "literal":
        if dts == "third":
            return None
        e = Decimal(starts) + m * Decimal(dts)
        return float(str(e)), m
    if form == "floatexpr":
        return st + m * dt, m
    frac = float(form[3:])
    e = st + (m + frac) * dt
    # exact-arithmetic oracle on the float actually passed (Fractions of the decimal reprs)
    if dts == "third":
        q = (Fraction(e) - Fraction(st)) / Fraction(dt)
    else:
        q = (Fraction(repr(e)) - Fraction(starts)) / Fraction(dts)
    n = math.floor(q)
    # only keep unambiguous off-grid points (well inside the cell)
    if not (Fraction(1, 10) < q - n < Fraction(9999, 10000)):
        return None
    return e, n


def ulps(x, n=4):
    return n * np.spacing(max(abs(x), 1e-300))


# ------------------------------------------------------------------------------------------------
# stubs

class StubBackend:
    def __init__(self, dim):
        self._step = None
        self.dim = dim

    @property
    def step(self):
        return self._step

    def _state(self):
        s = np.zeros(self.dim ** 2, dtype=complex)
        s[0] = self._step
        return s

    def initialize(self):
        self._step = 0
        return 0, self._state()

    def compute_step(self):
        self._step += 1
        return self._step, self._state()


class StubMFBackend(StubBackend):
    def initialize(self):
        self._step = 0
        return 0, [self._state().reshape(self.dim, self.dim)], complex(0)

    def compute_step(self):
        self._step += 1
        return self._step, [self._state()], complex(self._step)


_SB = {}


def _setup():
    if not _SB:
        system, bath = M.spin_boson()
        _SB["system"], _SB["bath"] = system, bath
        fsys = oq.TimeDependentSystemWithField(lambda t, a: 0.5 * M.SZ + np.real(a) * M.SX)
        _SB["mfs"] = oq.MeanFieldSystem([fsys], lambda t, states, a: -0.1 * a)
    return _SB


def _check_series(kind, key, times, stepvals, n_exp, start, dt, vio, m):
    """times: list of floats, stepvals: step number stored in each state."""
    n_obs = len(times) - 1
    if n_obs != n_exp:
        sig = "dropped-last-step" if n_obs == n_exp - 1 else f"n_obs-n_exp={n_obs - n_exp:+d}"
        vio.append((f"{kind}|{key[2]}|{sig}", f"{kind} dt={key[0]} start={key[1]} {key[2]} m={m}: "
                    f"{n_obs} steps instead of {n_exp}", m))
        return
    t = np.asarray(times, dtype=float)
    exp = start + np.arange(len(t)) * dt
    bad = np.abs(t - exp) > [ulps(max(abs(x), abs(start)) , 4 + k // 8) for k, x in enumerate(exp)]
    if bad.any():
        vio.append((f"{kind}|{key[2]}|time-label", f"{kind} dt={key[0]} start={key[1]} m={m}: time labels "
                    f"{t[bad][:3]} != {exp[bad][:3]}", m))
    if (np.diff(t) <= 0).any():
        vio.append((f"{kind}|{key[2]}|unsorted", f"{kind} times not strictly increasing", m))
    if list(stepvals) != list(range(len(t))):
        vio.append((f"{kind}|{key[2]}|misaligned", f"{kind} state k is not the state of step k", m))


def lattice_shard(args):
    """One continuing object per (kind, dt, start, form); m ascending."""
    dts, starts, form, mmax = args
    S = _setup()
    dt, st = dtval(dts), float(starts)
    vio = []
    n_eval = 0
    params = oq.TempoParameters(dt=dt, epsrel=1e-5, dkmax=2)
    tempo = oq.Tempo(S["system"], S["bath"], params, M.RHO_PLUS, st)
    tempo._backend_instance = StubBackend(2)
    mft = oq.MeanFieldTempo(S["mfs"], [S["bath"]], params, [M.RHO_PLUS], 1.0, start_time=st)
    mft._backend_instance = StubMFBackend(2)
    key = (dts, starts, form)
    outcomes = set()
    n_max_seen = {"Tempo": 0, "MeanFieldTempo": 0}
    for m in range(mmax + 1):
        r = end_time(dts, starts, form, m)
        if r is None:
            continue
        e, n_exp = r
        # -- Tempo
        dyn = tempo.compute(e, progress_type="silent")
        n_eval += 1
        n_exp_c = max(n_exp, n_max_seen["Tempo"])
        _check_series("Tempo", key, list(dyn.times), [int(round(s[0, 0].real)) for s in dyn.states]
                      if m % 50 == 0 or m < 20 else range(len(dyn.times)), n_exp_c, st, dt, vio, m)
        n_max_seen["Tempo"] = max(n_max_seen["Tempo"], len(dyn.times) - 1)
        outcomes.add(("T", len(dyn.times) - 1 - n_exp))
        if m % 7 == 3:
            # a target that lies BEFORE the time already reached changes nothing
            back = end_time(dts, starts, "floatexpr", m - 2)
            nb = len(tempo.compute(back[0], progress_type="silent").times)
            nm = len(mft.compute(back[0], progress_type="silent").times) if False else None
            n_eval += 1
            if nb != len(dyn.times):
                vio.append((f"Tempo|{form}|earlier-target-advances-the-computation",
                            f"Tempo dt={dts} start={starts} {form} m={m}: compute(target of m-2) after m changed the number "
                            f"of states from {len(dyn.times)} to {nb}", m))
        # -- MeanFieldTempo
        mdyn = mft.compute(e, progress_type="silent")
        n_eval += 1
        n_exp_c = max(n_exp, n_max_seen["MeanFieldTempo"])
        t = list(mdyn.times)
        _check_series("MeanFieldTempo", key, t, [int(round(abs(f))) for f in mdyn.fields]
                      if m % 50 == 0 or m < 20 else range(len(t)), n_exp_c, st, dt, vio, m)
        n_max_seen["MeanFieldTempo"] = max(n_max_seen["MeanFieldTempo"], len(t) - 1)
        outcomes.add(("M", len(t) - 1 - n_exp))
        # -- PtTempo (construction)
        try:
            ptt = oq.PtTempo(S["bath"], st, e, params)
            n_pt = ptt._backend_instance.num_steps
            if n_pt != n_exp:
                sig = "dropped-last-step" if n_pt == n_exp - 1 else f"n_obs-n_exp={n_pt - n_exp:+d}"
                vio.append((f"PtTempo|{form}|{sig}", f"PtTempo dt={dts} start={starts} {form} m={m}: "
                            f"{n_pt} steps instead of {n_exp}", m))
            outcomes.add(("P", n_pt - n_exp))
        except AssertionError:
            if n_exp >= 2:
                sig = "dropped-last-step" if n_exp == 2 else "rejected"
                vio.append((f"PtTempo|{form}|{sig}", f"PtTempo dt={dts} start={starts} {form} m={m}: "
                            f"construction rejected although {n_exp} steps fit", m))
            outcomes.add(("P", "assert"))
        n_eval += 1
    return {"key": key, "evals": n_eval, "vio": vio, "outcomes": sorted(map(str, outcomes))}


# ------------------------------------------------------------------------------------------------
# Part B: public route with real tensor networks

def _mf_objects():
    fsys = oq.TimeDependentSystemWithField(
        lambda t, a: 0.5 * M.SZ + (0.3 * np.cos(t) + np.real(a)) * M.SX)
    mfs = oq.MeanFieldSystem([fsys], lambda t, states, a: -0.3 * a - 0.2j * np.trace(M.SM @ states[0]) + 0.1 * t)
    return mfs


def public_case(args):
    dts, starts, mb = args
    dt, st = dtval(dts), float(starts)
    vio = []
    evals = 0
    system, bath = M.spin_boson(td=True)
    params = oq.TempoParameters(dt=dt, epsrel=1e-9, dkmax=3, subdiv_limit=None)
    mfs = _mf_objects()
    # references, stepped through the back-end's own off-grid end time
    e_ref = st + (mb + 0.4) * dt
    ref = oq.Tempo(system, bath, params, M.RHO_PLUS, st).compute(e_ref, progress_type="silent")
    mref = oq.MeanFieldTempo(mfs, [bath], params, [M.RHO_PLUS], 0.5, start_time=st).compute(
        e_ref, progress_type="silent")
    if len(ref.times) != mb + 1 or len(mref.times) != mb + 1:
        vio.append(("reference|off0.4|length", f"reference run to (mb+0.4)dt has {len(ref.times)} points", mb))
        return {"evals": 1, "vio": vio}
    rstates = np.array(ref.states)
    mstates = np.array(mref.system_dynamics[0].states)
    mfields = np.array(mref.fields)
    for form in ["literal", "floatexpr", "off0.4"]:
        for m in range(mb + 1):
            r = end_time(dts, starts, form, m)
            if r is None:
                continue
            e, n_exp = r
            key = (dts, starts, form)
            # Tempo
            dyn = oq.Tempo(system, bath, params, M.RHO_PLUS, st).compute(e, progress_type="silent")
            evals += 1
            st_ok = len(dyn.times) - 1 == n_exp
            _check_series("Tempo.public", key, list(dyn.times), range(len(dyn.times)), n_exp, st, dt, vio, m)
            k = min(len(dyn.times), mb + 1)
            if np.abs(np.array(dyn.states)[:k] - rstates[:k]).max() > ALIGN_TOL:
                vio.append((f"Tempo.public|{form}|state-misaligned", f"dt={dts} start={starts} m={m}", m))
            # MeanFieldTempo
            md = oq.MeanFieldTempo(mfs, [bath], params, [M.RHO_PLUS], 0.5, start_time=st).compute(
                e, progress_type="silent")
            evals += 1
            _check_series("MeanFieldTempo.public", key, list(md.times), range(len(md.times)), n_exp, st, dt, vio, m)
            k = min(len(md.times), mb + 1)
            if np.abs(np.array(md.system_dynamics[0].states)[:k] - mstates[:k]).max() > ALIGN_TOL or \
                    np.abs(np.array(md.fields)[:k] - mfields[:k]).max() > ALIGN_TOL:
                vio.append((f"MeanFieldTempo.public|{form}|state-misaligned", f"dt={dts} start={starts} m={m}", m))
            # PtTempo: length of the computed process tensor
            if n_exp >= 2 and m <= 6:
                try:
                    pt = oq.PtTempo(bath, st, e, params).get_process_tensor(progress_type="silent")
                    evals += 1
                    if len(pt) != n_exp:
                        sig = "dropped-last-step" if len(pt) == n_exp - 1 else f"n_obs-n_exp={len(pt) - n_exp:+d}"
                        vio.append((f"PtTempo.public|{form}|{sig}",
                                    f"len(pt)={len(pt)} for dt={dts} start={starts} {form} m={m}", m))
                except AssertionError:
                    vio.append((f"PtTempo.public|{form}|" + ("dropped-last-step" if n_exp == 2 else "rejected"),
                                f"PtTempo rejected dt={dts} start={starts} {form} m={m}", m))
    return {"evals": evals, "vio": vio}


def labels_case(args):
    """compute_dynamics / _with_field / gradient / PtTebd: time labels for record_all in {T, F}."""
    dts, starts = args
    dt, st = dtval(dts), float(starts)
    vio = []
    evals = 0
    system, bath = M.spin_boson(td=True)
    params = oq.TempoParameters(dt=dt, epsrel=1e-9, dkmax=3, subdiv_limit=None)
    NPT = 4
    pt = oq.PtTempo(bath, st, st + (NPT + 0.4) * dt, params).get_process_tensor(progress_type="silent")
    if len(pt) != NPT:
        vio.append(("reference|off0.4|length", f"PT for (4+0.4)dt has length {len(pt)}", 0))
        return {"evals": 1, "vio": vio}
    mfs = _mf_objects()
    psys = oq.ParameterizedSystem(hamiltonian=lambda x: 0.5 * x * M.SX + 0.2 * M.SZ)

    pts = {NPT: pt}

    def chk(kind, ra, ns, times, states, ref_states):
        nonlocal vio
        key = (dts, starts, f"record_all={ra}")
        if ra:
            _check_series(kind, key, list(times), range(len(times)), ns, st, dt, vio, ns)
            if np.abs(np.array(states) - np.array(ref_states)[:len(states)]).max() > ALIGN_TOL:
                vio.append((f"{kind}|record_all=True|state-misaligned", f"{kind} ns={ns}", ns))
        else:
            if len(times) != 1 or len(states) != 1:
                vio.append((f"{kind}|record_all=False|count", f"{len(times)} entries", ns))
                return
            exp = st + ns * dt
            if abs(times[0] - exp) > ulps(max(abs(exp), abs(st)), 8):
                sig = "labelled-start+dt" if abs(times[0] - (st + dt)) <= ulps(max(abs(exp), abs(st)), 8) \
                    else "wrong-label"
                vio.append((f"{kind}|record_all=False|{sig}",
                            f"{kind} dt={dts} start={starts} num_steps={ns}: single state labelled "
                            f"{times[0]!r}, belongs to {exp!r}", ns))
            if np.abs(states[0] - np.array(ref_states)[ns]).max() > ALIGN_TOL:
                vio.append((f"{kind}|record_all=False|wrong-state", f"{kind} ns={ns}", ns))

    full = oq.compute_dynamics(system, M.RHO_PLUS, process_tensor=pt, start_time=st,
                               subdiv_limit=None, progress_type="silent")
    fullf = oq.compute_dynamics_with_field(mfs, 0.5, process_tensor_list=[pt], initial_state_list=[M.RHO_PLUS],
                                           start_time=st, subdiv_limit=None, progress_type="silent")
    # default num_steps (None): the run covers the whole process tensor, also when the list of process tensors contains
    # the placeholder for "no environment" in either position
    from oqupy.process_tensor import TrivialProcessTensor
    for tag, plist in (("[pt]", [pt]), ("[pt,trivial]", [pt, TrivialProcessTensor(hilbert_space_dimension=2)]),
                       ("[trivial,pt]", [TrivialProcessTensor(hilbert_space_dimension=2), pt])):
        for ra in (True, False):
            d = oq.compute_dynamics(system, M.RHO_PLUS, process_tensor=plist, start_time=st, record_all=ra,
                                    subdiv_limit=None, progress_type="silent")
            evals += 1
            chk(f"compute_dynamics(num_steps=None,{tag})", ra, NPT, d.times, d.states, full.states)
    for ns in range(0, NPT + 1):
        xs = np.linspace(0.5, 1.5, max(2 * ns, 2)).reshape(max(2 * ns, 2), 1)
        gfull = None
        for ra in (True, False):
            d = oq.compute_dynamics(system, M.RHO_PLUS, process_tensor=pt, start_time=st, num_steps=ns,
                                    record_all=ra, subdiv_limit=None, progress_type="silent")
            evals += 1
            chk("compute_dynamics", ra, ns, d.times, d.states, full.states)
            d = oq.compute_dynamics_with_field(mfs, 0.5, process_tensor_list=[pt],
                                               initial_state_list=[M.RHO_PLUS], start_time=st, num_steps=ns,
                                               record_all=ra, subdiv_limit=None, progress_type="silent")
            evals += 1
            chk("compute_dynamics_with_field", ra, ns, d.times, d.system_dynamics[0].states,
                fullf.system_dynamics[0].states)
            if ra:
                if np.abs(np.array(d.fields) - np.array(fullf.fields)[:ns + 1]).max() > ALIGN_TOL:
                    vio.append(("compute_dynamics_with_field|record_all=True|field-misaligned", f"ns={ns}", ns))
            else:
                if len(d.fields) != 1 or abs(d.fields[0] - fullf.fields[ns]) > ALIGN_TOL:
                    vio.append(("compute_dynamics_with_field|record_all=False|wrong-field", f"ns={ns}", ns))
            if ns >= 2:
                # the adjoint pass needs a process tensor of exactly ns steps
                from oqupy.gradient import compute_gradient_and_dynamics
                if ns not in pts:
                    pts[ns] = oq.PtTempo(bath, st, st + (ns + 0.4) * dt, params).get_process_tensor(
                        progress_type="silent")
                if len(pts[ns]) != ns:
                    vio.append(("reference|off0.4|length", f"PT for ({ns}+0.4)dt has length {len(pts[ns])}", 0))
                    continue
                _, gd = compute_gradient_and_dynamics(psys, M.RHO_PLUS, M.RHO_GEN2.T.copy(), [pts[ns]], xs,
                                                      start_time=st, num_steps=ns, record_all=ra,
                                                      progress_type="silent")
                evals += 1
                if ra:
                    gfull = gd.states
                chk("compute_gradient_and_dynamics", ra, ns, gd.times, gd.states,
                    gfull if gfull is not None else gd.states)
    # PtTebd time stamps
    chain = oq.SystemChain(hilbert_space_dimensions=[2, 2])
    chain.add_site_hamiltonian(site=0, hamiltonian=0.5 * M.SX)
    chain.add_nn_hamiltonian(site=0, hamiltonian_l=0.3 * M.SZ, hamiltonian_r=M.SZ)
    for ns in range(0, NPT + 1):
        tebd = oq.PtTebd(oq.AugmentedMPS([M.RHO_PLUS, M.RHO_PLUS]), chain, [pt, None],
                         oq.PtTebdParameters(dt=dt, order=2, epsrel=1e-7), start_time=st, dynamics_sites=[0])
        r = tebd.compute(ns, progress_type="silent")
        evals += 1
        _check_series("PtTebd", (dts, starts, "end_step"), list(r["time"]), range(len(r["time"])), ns, st, dt, vio, ns)
        dtimes = list(r["dynamics"][0].times)
        if len(dtimes) != ns + 1 or np.abs(np.array(dtimes) - np.array(r["time"])).max() > 0:
            vio.append(("PtTebd|end_step|dynamics-times", f"ns={ns}", ns))
        # a computation that starts at a later step of the process tensors: start_time labels the first record
        if ns >= 1:
            k0 = NPT - ns
            tebd = oq.PtTebd(oq.AugmentedMPS([M.RHO_PLUS, M.RHO_PLUS]), chain, [None, None],
                             oq.PtTebdParameters(dt=dt, order=2, epsrel=1e-7), start_time=st, start_step=k0,
                             dynamics_sites=[0])
            r = tebd.compute(k0 + ns, progress_type="silent")
            evals += 1
            _check_series("PtTebd", (dts, starts, f"start_step"), list(r["time"]), range(len(r["time"])), ns, st, dt, vio, ns)
    return {"evals": evals, "vio": vio}


def tcut_case(args):
    dts, kmax = args
    dt = dtval(dts)
    vio = []
    for k in range(0, kmax + 1):
        tc = float(str(Decimal(dts) * k)) if dts != "third" else dt * k
        p = oq.TempoParameters(dt=dt, epsrel=1e-5, tcut=tc)
        if p.dkmax != k:
            vio.append((f"TempoParameters|tcut-literal|dkmax-{'low' if p.dkmax < k else 'high'}",
                        f"tcut={tc!r} dt={dts}: dkmax={p.dkmax}, expected {k}", k))
    return {"evals": kmax + 1, "vio": vio}


# ------------------------------------------------------------------------------------------------
# result containers: whatever the order in which (time, state[, field]) entries are put in -- by add() or through the
# constructor -- times come out sorted and every state / field stays with its own time

def container_case(perm):
    from oqupy.dynamics import Dynamics, MeanFieldDynamics
    ts = [0.5 * k - 0.7 for k in perm]                       # distinct times, in the order of insertion

    def st(t, j=0):                                          # self-identifying payloads
        return np.array([[t + j, 1j * t], [-1j * t, 2.0 - t]], dtype=complex)

    def fld(t):
        return complex(t, 2 * t + 1)
    vio = []

    def check(kind, how, times, states_list, fields):
        if list(times) != sorted(times):
            vio.append((f"container|{kind}|{how}|times-not-sorted", f"insertion order {ts}: times {list(times)}"))
            return
        for j, states in enumerate(states_list):
            if len(states) != len(times) or any(np.abs(states[i] - st(times[i], j)).max() > 0 for i in range(len(times))):
                vio.append((f"container|{kind}|{how}|state-not-at-its-time", f"insertion order {ts}, system {j}"))
                return
        if fields is not None and (len(fields) != len(times) or any(fields[i] != fld(times[i]) for i in range(len(times)))):
            vio.append((f"container|{kind}|{how}|field-not-at-its-time",
                        f"insertion order {ts}: fields {list(fields)} for times {list(times)}"))
    try:
        d = Dynamics()
        for t in ts:
            d.add(t, st(t))
        check("Dynamics", "add", d.times, [d.states], None)
        d = Dynamics(times=list(ts), states=[st(t) for t in ts])
        check("Dynamics", "constructor", d.times, [d.states], None)
        m = MeanFieldDynamics()
        for t in ts:
            m.add(t, [st(t, 0), st(t, 1)], fld(t))
        check("MeanFieldDynamics", "add", m.times, [x.states for x in m.system_dynamics], m.fields)
        ft, fe = m.field_expectations()
        check("MeanFieldDynamics", "add+field_expectations", ft, [], fe)
        for x in m.system_dynamics:
            if list(x.times) != list(m.times):
                vio.append(("container|MeanFieldDynamics|add|system-times-differ-from-times", f"insertion order {ts}"))
        m = MeanFieldDynamics(times=list(ts), system_states_list=[[st(t, 0), st(t, 1)] for t in ts], fields=[fld(t) for t in ts])
        check("MeanFieldDynamics", "constructor", m.times, [x.states for x in m.system_dynamics], m.fields)
    except Exception as ex:  # noqa
        vio.append((f"container|exception:{type(ex).__name__}", f"insertion order {ts}: {ex}"[:160]))
    return {"vio": vio, "evals": 5}


def run(tier, seed):
    rep = Report(LEVEL)
    mmax = 1000
    mb = 6 if tier == "quick" else 12
    shards = [(d, s, f, mmax) for d in DTS for s in STARTS for f in FORMS
              if not (d == "third" and f == "literal")]
    resA = pmap(lattice_shard, shards, chunksize=1, seed=seed)
    pubs = [(d, s, mb) for d in DTS for s in STARTS]
    resB = pmap(public_case, pubs, chunksize=1, seed=seed)
    resL = pmap(labels_case, [(d, s) for d in DTS for s in STARTS], chunksize=1, seed=seed)
    resT = pmap(tcut_case, [(d, 400) for d in DTS], chunksize=1, seed=seed)
    states = 0
    transitions = 0
    outcomes = set()
    for sh, r in zip(shards, resA):
        transitions += r["evals"]
        states += r["evals"]
        outcomes.update(r["outcomes"])
        for cls, what, m in r["vio"]:
            rep.add(Violation(cls, what, {"part": "A", "dt": sh[0], "start": sh[1], "form": sh[2], "m": m,
                                          "kind": cls.split("|")[0]}))
    for sh, r in zip(pubs, resB):
        transitions += r["evals"]
        for cls, what, m in r["vio"]:
            rep.add(Violation(cls, what, {"part": "B", "dt": sh[0], "start": sh[1], "mb": sh[2], "m": m, "cls": cls}))
    for sh, r in zip([(d, s) for d in DTS for s in STARTS], resL):
        transitions += r["evals"]
        for cls, what, m in r["vio"]:
            rep.add(Violation(cls, what, {"part": "L", "dt": sh[0], "start": sh[1], "m": m, "cls": cls}))
    for sh, r in zip(DTS, resT):
        transitions += r["evals"]
        for cls, what, m in r["vio"]:
            rep.add(Violation(cls, what, {"part": "T", "dt": sh, "m": m, "cls": cls}))
    perms = [p_ for L in (2, 3, 4, 5) for p_ in itertools.permutations(range(L))]
    resC = pmap(container_case, perms, seed=seed)
    for p_, r in zip(perms, resC):
        transitions += r["evals"]
        states += 1
        for cls, what in r["vio"]:
            rep.add(Violation(cls, what, {"part": "C", "perm": list(p_), "cls": cls}))
    rep.violations.sort(key=lambda v: (v["replay"].get("m", 0)))
    rep.coverage = {
        "states": states,
        "transitions": transitions,
        "traces_validated_against_impl": transitions,
        "exhaustive": True,
        "lattice": {"dt": DTS, "start": STARTS, "end_forms": FORMS, "m": [0, mmax]},
        "public_route_m_max": mb, "container_insertion_orders": len(perms),
        "distinct_outcomes": sorted(outcomes),
        "rule": "state = (object kind, dt, start, end form, m) lattice point; every point of the product is run "
                "(off-grid forms only where the exact quotient lies in (n+0.1, n+0.9999)); transitions = real "
                "compute()/constructor calls; oracle n = floor((end-start)/dt) in exact rational arithmetic of the "
                "decimal literals, grid points included",
        "samples": [{"dt": "0.1", "start": "0", "form": "literal", "m": 3, "end_time": 0.3, "expected_steps": 3},
                    {"dt": sh[0], "start": sh[1], "form": sh[2], "m": 7,
                     "end_time": (end_time(sh[0], sh[1], sh[2], 7) or [None])[0]} if (sh := shards[seed % len(shards)]) else None],
    }
    rep.assumptions = ["step counting of Tempo/MeanFieldTempo is independent of the tensor-network back-end "
                       "(stub back-end used for the m<=1000 lattice; real back-end for m<=%d)" % mb,
                       "PtTempo step count read from the object's back-end (num_steps) for the lattice; "
                       "len(process tensor) on the public route for m<=6"]
    return rep


def replay(rp):
    part = rp["part"]
    if part == "A":
        # fresh objects, single call: no history needed to reproduce a count error at lattice point m
        S = _setup()
        dts, starts, form, m = rp["dt"], rp["start"], rp["form"], rp["m"]
        e, n_exp = end_time(dts, starts, form, m)
        dt, st = dtval(dts), float(starts)
        params = oq.TempoParameters(dt=dt, epsrel=1e-5, dkmax=2)
        obs = {"end_time": e, "expected_steps": n_exp}
        vio = []
        kind = rp.get("kind", "Tempo")
        def earlier_targets(obj):
            # form 'mixed' is a property of the call history: replay the earlier targets on the same object
            if form == "mixed":
                for mm in range(m):
                    r_ = end_time(dts, starts, form, mm)
                    if r_ is not None:
                        obj.compute(r_[0], progress_type="silent")
        if kind == "Tempo":
            t = oq.Tempo(S["system"], S["bath"], params, M.RHO_PLUS, st)
            t._backend_instance = StubBackend(2)
            earlier_targets(t)
            d = t.compute(e, progress_type="silent")
            obs["steps"] = len(d.times) - 1
            _check_series("Tempo", (dts, starts, form), list(d.times), range(len(d.times)), n_exp, st, dt, vio, m)
        elif kind == "MeanFieldTempo":
            t = oq.MeanFieldTempo(S["mfs"], [S["bath"]], params, [M.RHO_PLUS], 1.0, start_time=st)
            t._backend_instance = StubMFBackend(2)
            earlier_targets(t)
            d = t.compute(e, progress_type="silent")
            obs["steps"] = len(d.times) - 1
            _check_series("MeanFieldTempo", (dts, starts, form), list(d.times), range(len(d.times)), n_exp, st, dt, vio, m)
        else:
            try:
                obs["steps"] = oq.PtTempo(S["bath"], st, e, params)._backend_instance.num_steps
            except AssertionError:
                obs["steps"] = "AssertionError"
            if obs["steps"] != n_exp and not (obs["steps"] == "AssertionError" and n_exp < 2):
                vio.append((f"PtTempo|{form}|" + ("dropped-last-step" if obs["steps"] in (n_exp - 1, "AssertionError")
                                                  else "other"), "", m))
        return {"obs": obs, "violation": vio[0][0] if vio else None}
    if part == "C":
        r = container_case(tuple(rp["perm"]))
        hit = [v for v in r["vio"] if v[0] == rp.get("cls")] or r["vio"]
        return {"obs": r["vio"], "violation": hit[0][0] if hit else None}
    if part == "B":
        r = public_case((rp["dt"], rp["start"], rp["mb"]))
    elif part == "L":
        r = labels_case((rp["dt"], rp["start"]))
    else:
        r = tcut_case((rp["dt"], 400))
    hit = [v for v in r["vio"] if v[0] == rp.get("cls") and v[2] == rp.get("m")] or \
        [v for v in r["vio"] if v[0] == rp.get("cls")] or r["vio"]
    return {"obs": [v[:2] for v in r["vio"]], "violation": hit[0][0] if hit else None}
