"""C17  An interrupted process-tensor file is never mistaken for a complete one.

Fault enumeration over ALL crash points of the two writers (SimpleProcessTensor.export of a 4-step PT and a
file-backed PT-TEMPO run closed with close()):
 * hard death (SIGKILL-like): the writer runs unmodified under strace; the complete ordered list of
   pwrite64/write/ftruncate calls on the file is recorded and for EVERY prefix the file image is materialised and
   handed to a reader process (import as 'file' and as 'simple').  The prefix model is validated against the
   implementation: writers that really die with os._exit at every file-operation index must leave a file that is
   byte-identical to one of the prefix images.
 * orderly death (unhandled exception or sys.exit -> interpreter teardown flushes and closes the HDF5 file): the
   writer dies at EVERY file-operation index (after creation, after each tensor, after each cap, before close()).
Oracle for every surviving file: the reader raises, or warns 'may be corrupt', or the content is complete and
compute_dynamics reproduces the reference.  A cleanly closed file opens without warning and complete.
Plus the mode machine: all histories up to depth 3 over {create write/overwrite/temp, open read, close, remove,
export(overwrite F/T)} against a reference model of 'who may replace/delete what'.
"""
import itertools
import json
import os
import re
import shutil
import subprocess
import sys
import tempfile

import numpy as np

from mc.common import Report, Violation, pmap, bind_repo, VERIF, REPO

oq = bind_repo()
LEVEL = "fault_enumeration"
PY = sys.executable
WRITER = os.path.join(VERIF, "mc", "pt_writer.py")
READER = os.path.join(VERIF, "mc", "pt_reader.py")


def child_env(extra=None):
    env = dict(os.environ)
    env["VERIF_REPO"] = REPO
    env["PYTHONHASHSEED"] = "0"
    env["HDF5_USE_FILE_LOCKING"] = env.get("HDF5_USE_FILE_LOCKING", "TRUE")
    if extra:
        env.update(extra)
    return env


def unhex(s):
    return bytes(int(x, 16) for x in re.findall(r"\\x([0-9a-f]{2})", s))


def strace_log(mode, workdir):
    """Runs the writer under strace; returns list of ops on the target file: ('w', offset, bytes) / ('t', length)."""
    target = os.path.join(workdir, "target.hdf5")
    _precreate(mode, target)
    log = os.path.join(workdir, "strace.log")
    cmd = ["strace", "-f", "-y", "-xx", "-s", "100000000", "-e", "trace=pwrite64,write,ftruncate", "-o", log,
           PY, WRITER, mode, target]
    r = subprocess.run(cmd, env=child_env(), capture_output=True, text=True, timeout=600)
    if r.returncode != 0 or "WRITER-DONE" not in r.stdout:
        raise RuntimeError("writer under strace failed: " + r.stderr[-500:])
    ops = []
    tb = target.encode()
    pos = 0
    for line in open(log):
        m = re.match(r"^\d+\s+(pwrite64|write|ftruncate)\((\d+)<([^>]*)>, (.*)$", line)
        if not m:
            continue
        call, fd, path, rest = m.groups()
        if unhex(path) != tb:
            continue
        if "= -1" in line.rsplit(")", 1)[-1]:
            continue
        if call == "ftruncate":
            ops.append(("t", int(rest.split(")")[0])))
            continue
        dm = re.match(r'^"((?:\\x[0-9a-f]{2})*)"(?:\.\.\.)?, (\d+)(?:, (\d+))?\)\s+= (\d+)', rest)
        if not dm:
            raise RuntimeError("cannot parse strace line: " + line[:120])
        data = unhex(dm.group(1))
        n = int(dm.group(4))
        if call == "pwrite64":
            off = int(dm.group(3))
        else:
            off = pos
            pos += n
        ops.append(("w", off, data[:n]))
    final = open(target, "rb").read()
    return ops, final


def materialise(ops, k):
    img = bytearray()
    for op in ops[:k]:
        if op[0] == "t":
            if op[1] < len(img):
                del img[op[1]:]
            else:
                img.extend(b"\0" * (op[1] - len(img)))
        else:
            _, off, data = op
            if off + len(data) > len(img):
                img.extend(b"\0" * (off + len(data) - len(img)))
            img[off:off + len(data)] = data
    return bytes(img)


def read_files(mode, files):
    """-> dict file -> reader result (runs readers in a child process; falls back to one process per file)."""
    out = {}
    r = subprocess.run([PY, READER, mode] + files, env=child_env(), capture_output=True, text=True, timeout=1200)
    for line in r.stdout.splitlines():
        if line.startswith("READER "):
            j = json.loads(line[7:])
            out[j["file"]] = j["res"]
    for f in files:
        if f not in out:
            r = subprocess.run([PY, READER, mode, f], env=child_env(), capture_output=True, text=True, timeout=600)
            got = [json.loads(l[7:]) for l in r.stdout.splitlines() if l.startswith("READER ")]
            out[f] = got[0]["res"] if got else {"file": {"verdict": "raises", "exc": f"reader-died:{r.returncode}"},
                                                "simple": {"verdict": "raises", "exc": f"reader-died:{r.returncode}"}}
    return out


def judge(res):
    """-> None or signature for one file's reader result"""
    for typ in ("file", "simple", "class"):
        if typ not in res:
            continue
        v = res[typ]["verdict"]
        if v == "silent-INCOMPLETE":
            return f"import-{typ}:opens-silently-with-{res[typ].get('len')}-mpo-{res[typ].get('caps')}-caps({res[typ].get('dyn', '')})"
    return None


def hard_part(mode, shard_info):
    work = tempfile.mkdtemp(prefix="c17h_")
    try:
        ops, final = strace_log(mode, work)
        L = len(ops)
        assert materialise(ops, L) == final, "prefix model does not reproduce the final file"
        files = []
        for k in range(L + 1):
            f = os.path.join(work, f"prefix_{k:03d}.hdf5")
            open(f, "wb").write(materialise(ops, k))
            files.append(f)
        chunks = [files[i::8] for i in range(8)]
        results = {}
        for d in pmap(_read_chunk, [(mode, c) for c in chunks if c], chunksize=1):
            results.update(d)
        vio, hist = [], {}
        for k, f in enumerate(files):
            res = results[f]
            key = res["file"]["verdict"] + "/" + res["simple"]["verdict"]
            hist[key] = hist.get(key, 0) + 1
            sig = judge(res)
            if k == L and any(res[t_]["verdict"] != "silent-complete" for t_ in ("file", "simple", "class") if t_ in res):
                vio.append((f"{mode}|clean-close|{key}", f"cleanly closed file: {res}", {"mode": mode, "death": "none"}))
            elif sig:
                vio.append((f"{mode}|hard-death|{sig}", f"{mode}: writer killed after {k} of {L} write calls: {res}",
                            {"mode": mode, "death": "hard-prefix", "k": k}))
        # conformance of the prefix model: really die with os._exit at every file-operation index
        nops = _count_fileops(mode, work)
        images = {materialise(ops, k) for k in range(L + 1)}
        conf = 0
        jobs = [(mode, str(k), "hard", os.path.join(work, f"die_{k}.hdf5")) for k in list(range(nops)) + ["before_close"]]
        for (m, k, dm, f), rc in zip(jobs, pmap(_run_writer, jobs, chunksize=1)):
            data = open(f, "rb").read() if os.path.exists(f) else b""
            if data in images:
                conf += 1
            else:
                vio.append((f"{mode}|prefix-model-nonconformance", f"os._exit at op {k}: file not among prefix images",
                            {"mode": mode, "death": "hard", "k": k}))
        return {"vio": vio, "L": L, "hist": hist, "conformance": conf, "fileops": nops}
    finally:
        shutil.rmtree(work, ignore_errors=True)


def _read_chunk(args):
    return read_files(*args)


def _precreate(mode, fname):
    """export_over: the target already exists (an older complete file written by an undisturbed writer)."""
    if mode == "export_over" and not os.path.exists(fname):
        subprocess.run([PY, WRITER, "export", fname], env=child_env(), capture_output=True, text=True, timeout=600)


def _run_writer(args):
    mode, die_at, die_mode, fname = args
    _precreate(mode, fname)
    r = subprocess.run([PY, WRITER, mode, fname], env=child_env({"DIE_AT": die_at, "DIE_MODE": die_mode}),
                       capture_output=True, text=True, timeout=600)
    return r.returncode


def _count_fileops(mode, work):
    f = os.path.join(work, "count.hdf5")
    _precreate(mode, f)
    r = subprocess.run([PY, WRITER, mode, f], env=child_env(), capture_output=True, text=True, timeout=600)
    m = re.search(r"WRITER-DONE calls (\d+)", r.stdout)
    os.remove(f)
    return int(m.group(1))


def orderly_part(mode):
    work = tempfile.mkdtemp(prefix="c17o_")
    try:
        nops = _count_fileops(mode, work)
        points = [str(k) for k in range(nops)] + ["before_close"]
        jobs = [(mode, k, dm, os.path.join(work, f"{dm}_{k}.hdf5")) for dm in ("exception", "exit") for k in points]
        rcs = pmap(_run_writer, jobs, chunksize=1)
        files = [j[3] for j in jobs if os.path.exists(j[3])]
        chunks = [files[i::8] for i in range(8)]
        results = {}
        for d in pmap(_read_chunk, [(mode, c) for c in chunks if c], chunksize=1):
            results.update(d)
        vio, hist = [], {}
        for (m, k, dm, f), rc in zip(jobs, rcs):
            if rc == 0:
                vio.append((f"{mode}|harness|writer-did-not-die", f"{dm} at {k}", {"mode": mode, "death": dm, "k": k}))
                continue
            if f not in results:
                hist["no-file"] = hist.get("no-file", 0) + 1
                continue
            res = results[f]
            key = res["file"]["verdict"] + "/" + res["simple"]["verdict"]
            hist[key] = hist.get(key, 0) + 1
            sig = judge(res)
            if sig:
                where = "before-close" if k == "before_close" else "mid-write"
                vio.append((f"{mode}|orderly-death({dm})|{where}|{sig.split(':')[0]}:opens-silently-incomplete",
                            f"{mode}: writer died ({dm}) after {k} file operations: {res}",
                            {"mode": mode, "death": dm, "k": k}))
        return {"vio": vio, "points": len(jobs), "hist": hist}
    finally:
        shutil.rmtree(work, ignore_errors=True)


# ------------------------------------------------------------------------------------------------
# mode machine

OPS = ["W", "O", "T", "R", "C", "X", "E0", "E1", "P0", "P1"]


def mode_history(args):
    hist, pre_exists = args[:2]
    loc = args[2] if len(args) > 2 else "subdir"
    import h5py
    from oqupy.process_tensor import FileProcessTensor, SimpleProcessTensor
    work = tempfile.mkdtemp(prefix="c17m_")
    F = os.path.join(work, "f.hdf5")
    saved_tempdir = tempfile.tempdir
    if loc == "tempdir":
        # the named file lies directly in the directory that is the system temp directory for this process
        tempfile.tempdir = work
    counter = [100]
    live = []
    vio = []

    def new_tag():
        counter[0] += 1
        return counter[0]

    def tagged_simple(tag):
        s = SimpleProcessTensor(hilbert_space_dimension=2, dt=0.1, name=str(tag))
        s.set_mpo_tensor(0, np.full((1, 1, 4), float(tag), dtype=complex))
        s.compute_caps()
        return s

    model = {"tag": None}
    if pre_exists:
        t = new_tag()
        tagged_simple(t).export(F)
        model["tag"] = t
    cur = None          # dict(obj, name, entitled, open)
    nops = 0
    try:
        for i, op in enumerate(hist):
            exists = model["tag"] is not None
            held = any(l["open"] and l["name"] == F for l in live)
            raised = None
            tag = None
            try:
                if op in ("W", "O"):
                    tag = new_tag()
                    o = FileProcessTensor(mode="write" if op == "W" else "overwrite", filename=F, hilbert_space_dimension=2, dt=0.1,
                                          name=str(tag))
                    o.set_mpo_tensor(0, np.full((1, 1, 4), float(tag), dtype=complex))
                    cur = {"obj": o, "name": F, "entitled": op == "O", "open": True, "writer": True}
                    live.append(cur)
                elif op == "T":
                    o = FileProcessTensor(mode="write", filename=None, hilbert_space_dimension=2, dt=0.1)
                    cur = {"obj": o, "name": o.filename, "entitled": True, "open": True}
                    live.append(cur)
                elif op == "R":
                    o = oq.import_process_tensor(F)
                    cur = {"obj": o, "name": F, "entitled": False, "open": True}
                    live.append(cur)
                elif op == "C":
                    if cur is None:
                        continue
                    cur["obj"].close()
                    cur["open"] = False
                elif op == "X":
                    if cur is None:
                        continue
                    was_open = cur["open"]
                    try:
                        cur["obj"].remove()
                        cur["open"] = False
                    except BaseException:
                        # a refused remove() must not have any effect: an unfinished file stays marked as being written
                        if was_open and cur.get("writer") and not cur["entitled"]:
                            try:
                                still = bool(cur["obj"]._f.attrs["writing"])
                            except Exception:  # noqa  (file object closed by the refused call)
                                still = False
                            if not still:
                                vio.append(("mode|remove-not-entitled|refusal-marks-the-unfinished-file-complete",
                                            f"history {hist} pre_exists={pre_exists}: the refused remove() closed the file and "
                                            f"cleared its 'writing' flag although the writer never called close()"))
                            cur["open"] = still
                        else:
                            cur["open"] = False
                        raise
                elif op in ("E0", "E1"):
                    tag = new_tag()
                    tagged_simple(tag).export(F, overwrite=(op == "E1"))
                elif op in ("P0", "P1"):
                    # the shortcut pt_tempo_compute writing straight into the file; the degeneracy flag must not matter
                    tag = new_tag()
                    from props import models as M_
                    bath = oq.Bath(0.5 * M_.SZ, M_.ohmic(alpha=0.1, temperature=0.2))
                    o = oq.pt_tempo_compute(bath, 0.0, 0.25, oq.TempoParameters(dt=0.1, epsrel=1e-4), unique=(op == "P0"),
                                            process_tensor_file=F, overwrite=(op == "P1"), progress_type="silent",
                                            name=str(tag))
                    cur = {"obj": o, "name": F, "entitled": op == "P1", "open": True}
                    live.append(cur)
            except BaseException as ex:  # noqa
                raised = type(ex).__name__
            nops += 1
            # ---- reference model
            if op in ("W", "E0", "P0"):
                if exists and raised is None:
                    vio.append((f"mode|{op}-on-existing-file|no-exception", f"history {hist} pre_exists={pre_exists}: op {i} replaced or reopened an existing file without overwrite"))
                if raised is None:
                    model["tag"] = tag
            elif op in ("O", "E1", "P1"):
                if raised is None:
                    model["tag"] = tag
            elif op == "X":
                if cur["entitled"]:
                    if raised is None and cur["name"] == F:
                        model["tag"] = None
                    if raised is None and os.path.exists(cur["name"]):
                        vio.append((f"mode|remove-entitled|file-still-there", f"history {hist}"))
                else:
                    if raised is None:
                        vio.append((f"mode|remove-not-entitled|no-exception", f"history {hist} pre_exists={pre_exists}: remove() of a "
                                                                              f"file the object may not delete succeeded"))
                    if not os.path.exists(cur["name"]) and model["tag"] is not None:
                        vio.append((f"mode|remove-not-entitled|file-deleted", f"history {hist} pre_exists={pre_exists}"))
                        model["tag"] = None
        # ---- final observation
        for l in live:
            try:
                l["obj"]._f.close()
            except Exception:  # noqa
                pass
        if os.path.exists(F):
            try:
                with h5py.File(F, "r") as f:
                    obs = int(f.attrs["name"])
            except Exception as ex:  # noqa
                obs = "unreadable"
        else:
            obs = None
        exp = model["tag"]
        if obs != exp and not (obs in ("empty", "unreadable") and exp is not None):
            vio.append((f"mode|final-content|expected-{'none' if exp is None else 'tag'}-observed-{obs if not isinstance(obs, int) else 'other-tag'}",
                        f"history {hist} pre_exists={pre_exists}: file content tag {obs}, model says {exp}"))
    finally:
        for l in live:
            try:
                if l["name"] != F and os.path.exists(l["name"]):
                    os.remove(l["name"])
            except Exception:  # noqa
                pass
        tempfile.tempdir = saved_tempdir
        shutil.rmtree(work, ignore_errors=True)
    if loc == "tempdir":
        vio = [(c.replace("mode|", "mode|named-file-in-the-temp-directory|", 1), w) for c, w in vio]
    return {"vio": vio, "nops": nops, "final": (model["tag"] is not None)}


def run(tier, seed):
    rep = Report(LEVEL)
    evals = 0
    cov = {}
    keys = set()
    for mode in (("export", "pttempo", "export_direct", "export_nodt") if tier == "quick" else
                 ("export", "pttempo", "export_direct", "export_nodt", "export8", "export_over")):
        h = hard_part(mode, None)
        o = orderly_part(mode)
        evals += h["L"] + 1 + h["fileops"] + 1 + o["points"]
        cov[mode] = {"write_syscalls": h["L"], "hard_prefixes": h["L"] + 1, "file_operations": h["fileops"],
                     "hard_verdicts": h["hist"], "prefix_model_conformance_runs": h["conformance"],
                     "orderly_death_points": o["points"], "orderly_verdicts": o["hist"]}
        for k in range(h["L"] + 1):
            keys.add((mode, "hard", k))
        for k in range(o["points"]):
            keys.add((mode, "orderly", k))
        for cls, what, rp in h["vio"] + o["vio"]:
            rep.add(Violation(cls, what, dict(rp, part="crash")))
    depth = 3
    hs = [h for L in range(1, depth + 1) for h in itertools.product(OPS, repeat=L)
          if h[0] not in ("C", "X") and sum(o in ("P0", "P1") for o in h) <= 2]
    jobs = [(h, pe, "subdir") for h in hs for pe in (False, True)]
    jobs += [(h, pe, "tempdir") for h in hs for pe in (False, True) if tier == "thorough" or len(h) <= 2]
    res = pmap(mode_history, jobs, seed=seed)
    for (h, pe, loc), r in zip(jobs, res):
        evals += 1
        keys.add(("mode", h, pe, loc))
        for cls, what in r["vio"]:
            rep.add(Violation(cls, what, {"part": "mode", "hist": list(h), "pre_exists": pe, "loc": loc}))
    rep.coverage = {
        "evaluations": evals,
        "distinct_nontrivial": len(keys),
        "exhaustive": True,
        "crash": cov,
        "mode_histories": len(jobs),
        "rule": "crash points: every prefix (0..L) of the strace-recorded pwrite64/write/ftruncate sequence of the writer "
                "(hard death), and every file-operation index plus 'before close' in two orderly death modes (unhandled "
                "exception, sys.exit); each surviving file is imported as 'file' and as 'simple' in a separate process. "
                "mode machine: all histories up to depth 3 over 10 operations (create write/overwrite/temp, read, close, remove, "
                "export with overwrite F/T, pt_tempo_compute into the file with overwrite F/T) x {target missing, existing}, and up to depth 2 (thorough 3) with the named file lying directly in the process's temp directory. distinct = "
                "distinct (writer, death mode, crash point) and (history, precondition) tuples",
        "samples": [{"writer": "export", "death": "hard", "prefix": 7}, {"writer": "pttempo", "death": "exception", "after_file_ops": 3},
                    {"mode_history": list(jobs[(seed * 31) % len(jobs)][0]), "pre_exists": jobs[(seed * 31) % len(jobs)][1]}],
    }
    rep.assumptions = ["hard death = process kill: writes already issued reach the file in order; torn writes / power loss not modelled",
                       "strace (ptrace) available; the prefix model is validated against writers that really die (os._exit)",
                       "HDF5 metadata-cache evictions of large files (which change when bytes reach the file) are not reached with 4-step PTs"]
    return rep


def replay(rp):
    if rp["part"] == "mode":
        r = mode_history((tuple(rp["hist"]), rp["pre_exists"], rp.get("loc", "subdir")))
        return {"obs": r["vio"], "violation": r["vio"][0][0] if r["vio"] else None}
    mode = rp["mode"]
    work = tempfile.mkdtemp(prefix="c17r_")
    try:
        if rp["death"] == "hard-prefix":
            ops, final = strace_log(mode, work)
            f = os.path.join(work, "p.hdf5")
            open(f, "wb").write(materialise(ops, rp["k"]))
        elif rp["death"] == "none":
            f = os.path.join(work, "p.hdf5")
            _run_writer((mode, "none", "exception", f))
        else:
            f = os.path.join(work, "p.hdf5")
            _run_writer((mode, str(rp["k"]), rp["death"], f))
        if not os.path.exists(f):
            return {"obs": "no file", "violation": None}
        res = read_files(mode, [f])[f]
        sig = judge(res)
        v = None
        if sig:
            if rp["death"] == "hard-prefix":
                v = f"{mode}|hard-death|{sig}"
            else:
                where = "before-close" if rp["k"] == "before_close" else "mid-write"
                v = f"{mode}|orderly-death({rp['death']})|{where}|{sig.split(':')[0]}:opens-silently-incomplete"
        return {"obs": res, "violation": v}
    finally:
        shutil.rmtree(work, ignore_errors=True)
