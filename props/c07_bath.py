"""C07, bath part: bath-mode occupations and two-time bath correlations derived from system correlations
reproduce the displaced-oscillator closed form for pure-dephasing models, and their time axes are aligned.

Closed form (mode k: H = w a^dag a + g O (a + a^dag), [O, H_S] = 0):
    a(t) = e^{-iwt} a(0) - g O (1 - e^{-iwt}) / w
so with <O^2> constant and a thermal, uncorrelated initial bath
    <a2^dag(t2) a1(t1)> = delta n e^{iw(t2-t1)} + g1 g2 <O^2> (1-e^{iw2 t2})(1-e^{-iw1 t1})/(w1 w2),  etc.
and the occupation change of a band of width dw is  J(w) dw <O^2> 2 (1 - cos wt) / w^2.
"""
import itertools

import numpy as np

from mc.common import Violation, pmap, bind_repo
from . import models as M

oq = bind_repo()
TOL = 1e-9


def model(d, temp):
    if d == "2c":
        # complex Hermitian, non-diagonal coupling operator (eigenvector matrix not self-adjoint); O^2 = 1/4
        o = 0.5 * (np.cos(0.7) * M.SX + np.sin(0.7) * M.SY)
        h = 0.8 * o
        rho = M.RHO_GEN2
    elif d == 2:
        o = 0.5 * M.SZ
        h = 0.4 * M.SZ
        rho = M.RHO_GEN2
    else:
        o = np.diag([1.0, 0.0, -1.0]).astype(complex)
        h = np.diag([0.3, -0.1, 0.5]).astype(complex)
        rho = M.generic_state(3, 4)
    corr = oq.PowerLawSD(alpha=0.2, zeta=1.0, cutoff=2.0, cutoff_type="exponential", temperature=temp)
    bath = oq.Bath(o, corr)
    return oq.System(h), bath, rho, o


def nbar(w, temp):
    return 0.0 if temp == 0 else np.exp(-w / temp) / (1 - np.exp(-w / temp))


def closed_corr(j1, j2, w1, t1, w2, t2, dagg, o2, temp, same):
    s0, s1 = 2 * dagg[0] - 1, 2 * dagg[1] - 1      # +1 for daggered
    disp = np.sqrt(j1 * j2) * o2 * (1 - np.exp(1j * s0 * w2 * t2)) * (1 - np.exp(1j * s1 * w1 * t1)) / (w1 * w2)
    val = disp
    if same and dagg == (1, 0):
        val += nbar(w1, temp) * np.exp(1j * w1 * (t2 - t1))
    if same and dagg == (0, 1):
        val += (nbar(w1, temp) + 1) * np.exp(-1j * w1 * (t2 - t1))
    return val


def physics_case(args):
    d, temp, dts = args
    sysm, bath, rho, o = model(d, temp)
    dt = float(dts)
    n = 6 if dts == "0.25" else 8
    # time pairs as grid indices; the times handed to the library are the decimal literals a caller would type
    # (0.3, not 3*0.1 = 0.30000000000000004), so quotients time/dt fall on either side of the integer
    pairs = [(1, 1), (1, 4), (3, 6), (6, 6), (2, 5)] if n == 6 else \
        [(1, 1), (3, 6), (3, 8), (6, 7), (7, 8), (7, 7), (6, 6), (2, 5), (3, 3)]
    prm = oq.TempoParameters(dt=dt, epsrel=1e-10)
    pt = oq.pt_tempo_compute(bath, 0.0, n * dt + 0.01, prm, progress_type="silent")
    tt = oq.bath_dynamics.TwoTimeBathCorrelations(sysm, bath, pt, initial_state=rho)
    o2 = np.trace(o @ o @ rho).real
    bad = []
    nev = 0
    for w in (0.7, 1.3, 3.0):
        jw = bath.correlations.spectral_density(w)
        for change_only in (False, True):
            ts, occ = tt.occupation(w, change_only=change_only, progress_type="silent")
            nev += 1
            if len(ts) != n + 1 or len(occ) != n + 1:
                bad.append((f"bath|occupation|length", f"d={d} T={temp} w={w}: {len(ts)} times, {len(occ)} values for {n} steps"))
                continue
            if np.abs(np.asarray(ts) - dt * np.arange(n + 1)).max() > 1e-12:
                bad.append(("bath|occupation|times-axis", f"d={d} T={temp} w={w}"))
            exp = jw * o2 * 2 * (1 - np.cos(w * dt * np.arange(n + 1))) / w ** 2
            if not change_only:
                exp = exp + nbar(w, temp)
            if np.abs(occ - exp).max() > TOL:
                bad.append((f"bath|occupation|wrong-value", f"d={d} T={temp} w={w} change_only={change_only}: dev "
                                                            f"{np.abs(occ - exp).max():.2e}"))
    # a second object that is never asked for occupations: its table of system correlations grows query by query
    # (pairs in ascending order of the later time), so every answer comes from an extended table
    grow = oq.bath_dynamics.TwoTimeBathCorrelations(sysm, bath, pt, initial_state=rho)
    for (k1, k2) in sorted(pairs, key=lambda p_: (p_[1], p_[0])):
        t1, t2 = float(f"{k1 * dt:.10g}"), float(f"{k2 * dt:.10g}")
        j1, j2 = bath.correlations.spectral_density(0.7), bath.correlations.spectral_density(1.3)
        got = grow.correlation(0.7, t1, freq_2=1.3, time_2=t2, dagg=(1, 0), progress_type="silent")
        nev += 1
        exp = closed_corr(j1, j2, 0.7, t1, 1.3, t2, (1, 0), o2, temp, False)
        if abs(got - exp) > TOL:
            bad.append(("bath|correlation|after-shorter-queries-on-the-same-object|wrong-value",
                        f"d={d} T={temp} dt={dts} t=({t1},{t2}): {got} vs {exp}"))
    ts, occ = grow.occupation(1.3, change_only=True, progress_type="silent")
    nev += 1
    exp = bath.correlations.spectral_density(1.3) * o2 * 2 * (1 - np.cos(1.3 * dt * np.arange(n + 1))) / 1.3 ** 2
    if len(occ) != n + 1 or np.abs(occ - exp).max() > TOL:
        bad.append(("bath|occupation|after-shorter-queries-on-the-same-object|wrong-value", f"d={d} T={temp} dt={dts}"))
    for (w1, w2), dagg, (k1, k2) in itertools.product([(0.7, 0.7), (0.7, 1.3), (3.0, 1.3)],
                                                      [(1, 0), (0, 1), (1, 1), (0, 0)],
                                                      pairs):
        t1, t2 = float(f"{k1 * dt:.10g}"), float(f"{k2 * dt:.10g}")
        j1, j2 = bath.correlations.spectral_density(w1), bath.correlations.spectral_density(w2)
        got = tt.correlation(w1, t1, freq_2=w2, time_2=t2, dagg=dagg, progress_type="silent")
        nev += 1
        exp = closed_corr(j1, j2, w1, t1, w2, t2, dagg, o2, temp, w1 == w2)
        if abs(got - exp) > TOL:
            bad.append((f"bath|correlation|dagg={dagg}|wrong-value",
                        f"d={d} T={temp} dt={dts} w=({w1},{w2}) t=({t1},{t2}) dagg={dagg}: {got} vs {exp}"))
        if dagg == (1, 0) and (w1, w2) == (0.7, 1.3):
            # the same query as the first one a freshly constructed object is asked (empty table of system correlations)
            fresh = oq.bath_dynamics.TwoTimeBathCorrelations(sysm, bath, pt, initial_state=rho)
            got = fresh.correlation(w1, t1, freq_2=w2, time_2=t2, dagg=dagg, progress_type="silent")
            nev += 1
            if abs(got - exp) > TOL:
                bad.append((f"bath|correlation|first-query-of-a-fresh-object|wrong-value",
                            f"d={d} T={temp} dt={dts} w=({w1},{w2}) t=({t1},{t2}) dagg={dagg}: {got} vs {exp}"))
    # frequency bands of unequal widths: the displacement part is bilinear in the two couplings, coupling k = dw[k] sqrt(J(w_k))
    # (change_only=True, so the thermal / commutator term, which does not depend on the band widths, is left out)
    for (w1, w2), dagg, (k1, k2), dw in itertools.product([(0.7, 1.3), (3.0, 1.3), (0.7, 0.7)], [(1, 0), (0, 1), (1, 1), (0, 0)],
                                                          pairs[:3], [(0.5, 3.0), (2.0, 0.25)]):
        t1, t2 = float(f"{k1 * dt:.10g}"), float(f"{k2 * dt:.10g}")
        j1, j2 = bath.correlations.spectral_density(w1), bath.correlations.spectral_density(w2)
        got = tt.correlation(w1, t1, freq_2=w2, time_2=t2, dw=dw, dagg=dagg, change_only=True, progress_type="silent")
        nev += 1
        exp = dw[0] * dw[1] * closed_corr(j1, j2, w1, t1, w2, t2, dagg, o2, temp, False)
        if abs(got - exp) > TOL * max(1.0, dw[0] * dw[1]):
            bad.append((f"bath|correlation|unequal-band-widths|wrong-value",
                        f"d={d} T={temp} dt={dts} w=({w1},{w2}) t=({t1},{t2}) dagg={dagg} dw={dw}: {got} vs {exp}"))
    for w, dwo in ((0.7, 0.5), (1.3, 3.0)):
        ts, occ = tt.occupation(w, dw=dwo, change_only=True, progress_type="silent")
        nev += 1
        exp = dwo * bath.correlations.spectral_density(w) * o2 * 2 * (1 - np.cos(w * dt * np.arange(n + 1))) / w ** 2
        if len(occ) != n + 1 or np.abs(occ - exp).max() > TOL * max(1.0, dwo):
            bad.append(("bath|occupation|band-width|wrong-value", f"d={d} T={temp} dt={dts} w={w} dw={dwo}"))
    return {"n": nev, "bad": bad, "size": float(bath.correlations.spectral_density(1.3) * o2)}


def axis_case(args):
    """length / alignment lattice of occupation(): N = 1..nmax, a PT of N trivial steps, given system correlations."""
    dts, nmax = args
    dt = float(dts)
    bad = []
    from oqupy.process_tensor import SimpleProcessTensor
    sysm, bath, rho, o = model(2, 0.8)
    for n in range(1, nmax + 1):
        pt = SimpleProcessTensor(hilbert_space_dimension=2, dt=dt)
        for k in range(n):
            pt.set_mpo_tensor(k, np.ones((1, 1, 4), dtype=complex))
        pt.compute_caps()
        sc = np.triu(np.full((n, n), 0.25 + 0j))
        sc[np.tril_indices(n, -1)] = np.nan
        tt = oq.bath_dynamics.TwoTimeBathCorrelations(sysm, bath, pt, initial_state=rho, system_correlations=sc)
        ts, occ = tt.occupation(1.3, change_only=True, progress_type="silent")
        if len(ts) != len(occ) or len(occ) != n + 1:
            bad.append(("bath|occupation|axis-length-mismatch", f"dt={dts} N={n}: {len(ts)} times vs {len(occ)} values", n))
            continue
        if np.abs(np.asarray(ts) - dt * np.arange(n + 1)).max() > 1e-9:
            bad.append(("bath|occupation|times-axis", f"dt={dts} N={n}", n))
        exp = bath.correlations.spectral_density(1.3) * 0.25 * 2 * (1 - np.cos(1.3 * dt * np.arange(n + 1))) / 1.3 ** 2
        if np.abs(occ - exp).max() > 1e-9:
            bad.append(("bath|occupation|wrong-value-given-correlations", f"dt={dts} N={n}", n))
    return {"n": nmax, "bad": bad}


def run_bath(tier, seed):
    vio = []
    pc = [(d, t, "0.25") for d in (2, "2c", 3) for t in (0.0, 0.8)] + [(2, 0.8, "0.1"), ("2c", 0.0, "0.1")]
    pres = pmap(physics_case, pc, chunksize=1, seed=seed)
    nev = 0
    for c, r in zip(pc, pres):
        nev += r["n"]
        for cls, what in r["bad"]:
            vio.append(Violation(cls, what, {"part": "bath", "kind": "physics", "args": list(c)}))
    nmax = 60 if tier == "quick" else 150
    ac = [(d, nmax) for d in ("0.1", "0.05", "0.2", "0.3", "0.01", "0.7", "0.25")]
    ares = pmap(axis_case, ac, chunksize=1, seed=seed)
    for c, r in zip(ac, ares):
        nev += r["n"]
        for cls, what, n in r["bad"]:
            vio.append(Violation(cls, what, {"part": "bath", "kind": "axis", "args": [c[0], n]}))
    return {"violations": vio, "evaluations": nev,
            "summary": {"physics_models": len(pc), "axis_lattice": {"dt": [c[0] for c in ac], "N": [1, nmax]},
                        "min_effect_size": min(r["size"] for r in pres)}}


def replay(rp):
    if rp["kind"] == "physics":
        r = physics_case(tuple(rp["args"]))
        return {"obs": r["bad"][:4], "violation": r["bad"][0][0] if r["bad"] else None}
    dts, n = rp["args"]
    r = axis_case((dts, n))
    hit = [b for b in r["bad"] if b[2] == n] or r["bad"]
    return {"obs": [h[:2] for h in hit[:3]], "violation": hit[0][0] if hit else None}
