"""C08  The adjoint gradient returned by state_gradient equals the derivative of the objective.

Exhaustive product of small alphabets (number of steps N x number of parameters M x parameterised model x
environment set x target x kind of propagator derivative x parameter table).  Every case runs the real
oqupy.gradient.state_gradient and compares

  * every one of the 2N x M gradient entries with the forward-mode derivative of the objective
    Z = sum_ij T_ij rho_f,ij (T fixed, or Z a non-linear function of rho_f given through its derivative),
    obtained by pushing the Frechet derivative (scipy.linalg.expm_frechet) of exactly one half-step propagator
    through an independent forward simulation,
  * the reported dynamics (every step), 'final_state' and the time axis with that forward simulation.

Two independent forward simulators are used:
  (J) first-principles density-matrix simulation of system (x) ancillas (mc.refmodel.JointSim) for the
      hand-built exact ancilla process tensors,
  (T) a plain numpy contraction of the process tensor's MPO / cap tensors written here from the documented
      leg convention (for PT-TEMPO process tensors, where the process tensor is *input data* of the property);
      (T) is cross-checked against (J) on every ancilla case (harness error if they disagree).
Nothing of oqupy.gradient / oqupy.system_dynamics / oqupy.system is used by the oracle: Liouvillians,
their parameter derivatives, half-step propagators and the contraction order are re-derived here.

Alphabet (full products, simplest first; see build_cases):
  N {1,2,3 (+4 thorough)} x M {1,2,3} x model {H; H + parameter-dependent rate; parameter-dependent jump operator with
  complex coefficients; both} x environment set {one generic ancilla; two commuting; two non-commuting (z-type, x-type) in
  both list orders; three environments; PT-TEMPO sigma_z; PT-TEMPO sigma_z + sigma_x in both orders (+ two generic
  joint-unitary ancillas, thorough)} x target {non-Hermitian matrix; callable (purity) (+ pure state transposed, callable of a
  squared expectation, thorough)} x propagator derivatives {user-supplied, numdifftools} x parameter table {generic,
  all ones = symmetric pulse of the repository's tests (+ all zeros, thorough)};  plus sub-products for d=3 systems,
  non-zero start_time, and process tensors whose last bond is closed by a non-trivial cap tensor.
  Constraint: PT-TEMPO cannot build a process tensor of fewer than two steps, so PT-TEMPO sets have N >= 2.
Failure signatures: gradient-mismatch (with the refinement ':equals-backpropagation-with-environments-in-forward-list-order'
when the returned gradient coincides with the prediction of that specific defect), dynamics-mismatch, final-state-mismatch,
times-mismatch, gradient-shape, exception:<Type>.
"""
import itertools

import numpy as np
import scipy.linalg as sl

from mc.common import Report, Violation, pmap, bind_repo
from mc import refmodel as R
from mc import ancilla as A
from . import models as M

oq = bind_repo()
LEVEL = "exploration"
DT = 0.4

# tolerances: relative to max |exact gradient entry| of the case (fixed after measuring, see run())
# No truncation happens between the process tensor handed to the library and the one read by the oracle (same object),
# so deviations are plain floating point (user derivatives) or the accuracy of numdifftools' Richardson extrapolation.
# Measured over the whole thorough alphabet (10 964 cases) on a tree in which the property holds (the two suggested
# repairs applied to a scratch copy): user 3.2e-14, numdifftools 2.0e-11, dynamics 1.7e-15, i.e. >= 300x head-room each.
# Smallest relative effect of the known environment-order defect over the alphabet: 3e-3 (thorough), 5.8e-2 (quick);
# the seeded single-branch mutations (transposition, wrong half step, wrong parameter row, dropped imaginary part,
# index shift, stale state for callable targets, missing leg swap) all move entries by > 1e-2.
TOL_USER = 1e-11       # user-supplied (Frechet) propagator derivatives: no numerical differentiation anywhere
TOL_NUM = 1e-8         # numdifftools Jacobian of the half-step propagator inside the library
TOL_STATE = 1e-12      # reported dynamics vs forward simulation (same tensors, no truncation in between)
TOL_CROSS = 1e-10      # oracle (T) vs oracle (J)
MIN_GRAD = 1e-3        # vacuity: max |exact gradient entry| of a non-trivial case
MIN_ENV_EFFECT = 0.05  # vacuity: relative change of the exact gradient caused by the environment(s)
MIN_DISS_EFFECT = 0.05  # vacuity (models with parameter-dependent dissipators): relative change of the exact gradient
#                         caused by the parameter dependence of the rates / jump operators


# ------------------------------------------------------------------------------------------------
# parameterised models (own formulas for L(p) and dL/dp_m)

def _gens(d):
    if d == 2:
        return [M.SX, M.SZ, M.SY], 0.2 * M.SZ + 0.1 * M.SY, [M.SZ, M.SX, M.SY]
    g = [M.generic_herm(d, m + 1, 1.0) for m in range(3)]
    b = [M.generic_herm(d, m + 11, 1.0) for m in range(3)]
    return g, M.generic_herm(d, 7, 0.3), b


_C = [(lambda p: 0.5 * p, lambda p: 0.5),
      (lambda p: 0.4 * np.sin(p), lambda p: 0.4 * np.cos(p)),
      (lambda p: 0.3 * p * p, lambda p: 0.6 * p)]
_JC = [0.2 + 0.1j, 0.2 + 0.2j, 0.2 + 0.3j]


class Model:
    """H(p) = H0 + sum_m c_m(p_m) G_m;  'rate': gamma(p) = 0.15 + sum_m 0.1 (m+1) p_m^2 on the lowering operator;
    'jump': A(p) = lower + sum_m z_m p_m B_m with complex z_m at rate 0.4;  'all': both terms."""

    def __init__(self, kind, d, nparam):
        self.kind, self.d, self.m = kind, d, nparam
        self.g, self.h0, self.b = _gens(d)
        self.lower = np.diag(np.ones(d - 1), -1).astype(complex)

    def ham(self, p):
        return self.h0 + sum(_C[m][0](p[m]) * self.g[m] for m in range(self.m))

    def dham(self, p, m):
        return _C[m][1](p[m]) * self.g[m]

    def rate(self, p):
        return 0.15 + sum(0.1 * (m + 1) * p[m] ** 2 for m in range(self.m))

    def drate(self, p, m):
        return 0.2 * (m + 1) * p[m]

    def jump(self, p):
        return self.lower + sum(_JC[m] * p[m] * self.b[m] for m in range(self.m))

    def djump(self, p, m):
        return _JC[m] * self.b[m]

    def terms(self, p):
        """list of (gamma, A, dgamma(m), dA(m))"""
        out = []
        if self.kind in ("rate", "all"):
            out.append((self.rate(p), self.lower, lambda m: self.drate(p, m), lambda m: 0 * self.lower))
        if self.kind in ("jump", "all"):
            out.append((0.4, self.jump(p), lambda m: 0.0, lambda m: self.djump(p, m)))
        return out

    def liou(self, p):
        t = self.terms(p)
        return R.lindbladian(self.ham(p), [x[0] for x in t], [x[1] for x in t])

    def dliou(self, p, m, ham_only=False):
        d = self.d
        one = np.eye(d)
        dh = self.dham(p, m)
        out = -1j * (np.kron(dh, one) - np.kron(one, dh.T))
        if ham_only:
            return out
        for gam, a, dg, da in self.terms(p):
            a_d = a.conj().T
            ada = a_d @ a
            out = out + dg(m) * (np.kron(a, a.conj()) - 0.5 * np.kron(ada, one) - 0.5 * np.kron(one, ada.T))
            dA = da(m)
            x = dA.conj().T @ a + a_d @ dA
            out = out + gam * (np.kron(dA, a.conj()) + np.kron(a, dA.conj())
                               - 0.5 * np.kron(x, one) - 0.5 * np.kron(one, x.T))
        return out

    def half_prop(self, p):
        return sl.expm(self.liou(p) * DT / 2.0)

    def dhalf_prop(self, p, m, dt=DT, ham_only=False):
        return sl.expm_frechet(self.liou(p) * dt / 2.0, self.dliou(p, m, ham_only) * dt / 2.0, compute_expm=False)

    # -- the object handed to the library
    def oqupy_system(self, deriv):
        def wrap(f):
            if self.m == 1:
                return lambda a: f((a,))
            if self.m == 2:
                return lambda a, b: f((a, b))
            return lambda a, b, c: f((a, b, c))

        gammas, lops = [], []
        if self.kind in ("rate", "all"):
            gammas.append(wrap(self.rate))
            lops.append(wrap(lambda p: self.lower))
        if self.kind in ("jump", "all"):
            gammas.append(wrap(lambda p: 0.4))
            lops.append(wrap(self.jump))
        kw = {}
        if deriv == "user":
            def user(dt, params):
                p = tuple(float(x) for x in params)
                return [self.dhalf_prop(p, m, dt) for m in range(self.m)]
            kw["propagator_derivatives"] = user
        if gammas:
            return oq.ParameterizedSystem(wrap(self.ham), gammas=gammas, lindblad_operators=lops, **kw)
        return oq.ParameterizedSystem(wrap(self.ham), **kw)


def param_table(kind, n, m):
    h = np.arange(2 * n)[:, None]
    k = np.arange(m)[None, :]
    if kind == "generic":
        return 0.35 + 0.25 * h - 0.2 * k + 0.15 * ((h * (k + 2)) % 3)
    if kind == "ones":          # the symmetric pulse of the repository's tests
        return np.ones((2 * n, m))
    if kind == "int":           # whole-number parameters handed over as an integer array
        return (1 + (h + 2 * k) % 3).astype(int)
    if kind == "constcol":      # a drive with constant detuning: the last column never changes, the others always do
        t = 0.35 + 0.25 * h - 0.2 * k + 0.15 * ((h * (k + 2)) % 3)
        t[:, m - 1] = 0.45
        return t
    if kind == "staircase":     # exactly one column changes from one half step to the next, in turn
        t = np.full((2 * n, m), 0.4) - 0.1 * k
        for r in range(1, 2 * n):
            t[r] = t[r - 1]
            t[r, (r - 1) % m] += 0.3 + 0.05 * r
        return t
    if kind == "fullstep":      # piecewise constant over whole steps: the two half steps of a step are equal
        t = 0.35 + 0.25 * (h // 2) - 0.2 * k + 0.15 * (((h // 2) * (k + 2)) % 3)
        return t
    if kind == "zero":          # stationary point of the quadratic coefficients
        return np.zeros((2 * n, m))
    raise ValueError(kind)


# ------------------------------------------------------------------------------------------------
# targets: (what is handed to the library, own formula for dZ given rho_f and d rho_f)

def target(kind, d):
    t_gen = M.generic_herm(d, 4, 1.0) + 1j * M.generic_herm(d, 5, 0.7) + 0.3 * np.diag(np.arange(d))  # not Hermitian
    a_op = M.generic_herm(d, 6, 1.0)
    if kind == "matrix":
        return t_gen.copy(), (lambda rho, drho: np.sum(t_gen * drho))
    if kind == "state":         # pure target state, transposed (as in the documentation)
        v = M.generic_unitary(d, 8)[:, 0]
        proj = np.outer(v, v.conj())
        return proj.T.copy(), (lambda rho, drho: np.trace(proj @ drho))
    if kind == "purity":        # Z = tr rho^2
        return (lambda rho: 2 * rho.T), (lambda rho, drho: 2 * np.trace(rho @ drho))
    if kind == "nonlin":        # Z = (tr A rho)^2
        return (lambda rho: 2 * np.trace(a_op @ rho) * a_op.T), \
               (lambda rho, drho: 2 * np.trace(a_op @ rho) * np.trace(a_op @ drho))
    raise ValueError(kind)


# ------------------------------------------------------------------------------------------------
# environments

def anc_state(e, tag):
    p = np.arange(1, e + 1, dtype=float) ** (1 + 0.3 * tag)
    p /= p.sum()
    u = R.random_free_unitary(e, 7 + tag)
    return (u * p) @ u.conj().T


def _xbasis(d):
    k = np.arange(d)
    return np.exp(2j * np.pi * np.outer(k, k) / d) / np.sqrt(d)      # Hadamard for d = 2


def _anc(kind, d, e, n, tag, caps="computed"):
    sigma = anc_state(e, tag)
    if kind == "unitary":
        ks = [[R.random_free_unitary(d * e, 10 * tag + k)] for k in range(n)]
        pt = A.build_pt(d, e, sigma, ks, dt=DT, caps=caps)
    else:
        v = _xbasis(d) if kind == "xtype" else None
        us = [[R.random_free_unitary(e, 100 * tag + 10 * k + t) for t in range(d)] for k in range(n)]
        pt = A.build_pt(d, e, sigma, None, dt=DT, rank3_us=us, basis_v=v, caps=caps)
        ks = [A.physical_kraus(R.controlled_kraus(u), v, e) for u in us]
    return {"pt": pt, "kraus": ks, "sigma": sigma}


_TEMPO = {}


def _tempo(op, n):
    key = (op, n)
    if key not in _TEMPO:
        if op == "z":
            bath = oq.Bath(0.5 * M.SZ, oq.PowerLawSD(alpha=0.8, zeta=1.0, cutoff=4.0, cutoff_type="exponential",
                                                     temperature=0.6))
        else:
            bath = oq.Bath(0.5 * M.SX, oq.PowerLawSD(alpha=0.6, zeta=1.0, cutoff=3.0, cutoff_type="gaussian",
                                                     temperature=0.2))
        prm = oq.TempoParameters(dt=DT, epsrel=1e-6, dkmax=None)
        pt = oq.pt_tempo_compute(bath, 0.0, (n + 0.5) * DT, prm, progress_type="silent")
        if len(pt) != n:
            raise RuntimeError(f"PT-TEMPO process tensor has {len(pt)} steps, wanted {n}")
        _TEMPO[key] = {"pt": pt, "kraus": None, "sigma": None}
    return _TEMPO[key]


ENV_CLASSES = {
    # name: (description, d -> list of builders)
    "anc1": "one exact ancilla PT (generic joint unitary, e=3)",
    "anc2c": "two commuting ancilla PTs (controlled unitaries in the same system basis, e=2 and e=3)",
    "anc2n": "two non-commuting ancilla PTs (sigma_z-type e=2 and sigma_x-type e=3 controlled unitaries)",
    "tempo1": "PT-TEMPO sigma_z bath",
    "tempo2": "PT-TEMPO sigma_z bath + PT-TEMPO sigma_x bath",
    "anc2g": "two generic joint-unitary ancilla PTs (e=2, e=2)",
    "anc2n_rev": "the two non-commuting ancilla PTs in the other list order",
    "anc3": "three ancilla PTs (z-type, generic, x-type)",
    "tempo2_rev": "PT-TEMPO sigma_x + sigma_z",
    "anc1x": "one exact ancilla PT whose last bond is left open and closed by its cap tensor (e=2)",
    "anc2x": "z-type PT with trivial last bond + generic PT whose last bond is closed by its cap tensor",
}


def build_envs(name, d, n):
    if name == "anc1":
        return [_anc("unitary", d, 3, n, 1)]
    if name == "anc2c":
        return [_anc("ztype", d, 2, n, 4), _anc("ztype", d, 3, n, 5)]
    if name == "anc2n":
        return [_anc("ztype", d, 2, n, 4), _anc("xtype", d, 3, n, 6)]
    if name == "anc2n_rev":
        return [_anc("xtype", d, 3, n, 6), _anc("ztype", d, 2, n, 4)]
    if name == "anc2g":
        return [_anc("unitary", d, 2, n, 2), _anc("unitary", d, 2, n, 3)]
    if name == "anc3":
        return [_anc("ztype", d, 2, n, 4), _anc("unitary", d, 2, n, 2), _anc("xtype", d, 2, n, 6)]
    if name == "tempo1":
        return [_tempo("z", n)]
    if name == "tempo2":
        return [_tempo("z", n), _tempo("x", n)]
    if name == "tempo2_rev":
        return [_tempo("x", n), _tempo("z", n)]
    if name == "anc1x":
        return [_anc("unitary", d, 2, n, 1, caps="explicit")]
    if name == "anc2x":
        return [_anc("ztype", d, 2, n, 4), _anc("unitary", d, 2, n, 2, caps="explicit")]
    raise ValueError(name)


# ------------------------------------------------------------------------------------------------
# oracle (T): plain contraction of MPO and cap tensors.  Leg convention of the documentation:
# mpo[past bond, future bond, system in, system out]; state tensor [bond_1 .. bond_n, system]

def mpo_forward(rho0, mpos, caps, hp, reverse_after=None):
    """hp: list of 2N superoperators (vec' = P vec).  Environments act in list order between the two half steps;
    reverse_after=k models a back-propagation that applies the environments of steps > k in the wrong order."""
    n = len(mpos)
    ne = len(mpos[0])
    t = np.asarray(rho0, dtype=complex).reshape((1,) * ne + (-1,))
    states = []
    for k in range(n + 1):
        s = t
        for c in caps[k]:
            s = np.tensordot(c, s, axes=([0], [0]))
        states.append(s)
        if k == n:
            break
        t = np.tensordot(t, hp[2 * k], axes=([ne], [1]))
        order = range(ne)
        if reverse_after is not None and k > reverse_after:
            order = reversed(range(ne))
        for i in order:
            t = np.tensordot(t, mpos[k][i], axes=([i, ne], [0, 2]))   # [other bonds.., sys removed] + [future, out]
            t = np.moveaxis(t, -2, i)
        t = np.tensordot(t, hp[2 * k + 1], axes=([ne], [1]))
    d = int(round(np.sqrt(states[0].size)))
    return [s.reshape(d, d) for s in states]


def joint_forward(rho0, envs, hp):
    n = len(hp) // 2
    return R.simulate(rho0, [x["sigma"] for x in envs], lambda j, k: envs[j]["kraus"][k],
                      lambda k: (hp[2 * k], hp[2 * k + 1]), n)


# ------------------------------------------------------------------------------------------------
# one case

def case_key(c):
    return (c["d"], c["n"], c["m"], c["model"], c["env"], c["target"], c["deriv"], c["table"], c.get("start", 0.0))


def case_cls(c):
    """input class = the process-tensor set; the failure signature is appended by the caller.  The other dimensions
    of a failing case are in the one-line description and in coverage['violation_profile']."""
    return c["env"]


def case_desc(c):
    return (f"d={c['d']} N={c['n']} M={c['m']} model={c['model']} target={c['target']} derivs={c['deriv']} "
            f"table={c['table']}")


def run_case(c):
    d, n, m = c["d"], c["n"], c["m"]
    start = c.get("start", 0.0)
    model = Model(c["model"], d, m)
    par = param_table(c["table"], n, m)
    envs = build_envs(c["env"], d, n)
    rho0 = M.generic_state(d, 2)
    tgt, dz = target(c["target"], d)
    out = {"sigs": [], "key": case_key(c)}

    # ---- oracle
    hp = [model.half_prop(tuple(par[h])) for h in range(2 * n)]
    mpos = [[x["pt"].get_mpo_tensor(k) for x in envs] for k in range(n)]
    caps = [[x["pt"].get_cap_tensor(k) for x in envs] for k in range(n + 1)]
    ref_t = mpo_forward(rho0, mpos, caps, hp)
    is_anc = all(x["kraus"] is not None for x in envs)
    ref = joint_forward(rho0, envs, hp) if is_anc else ref_t
    cross = max(np.abs(a - b).max() for a, b in zip(ref, ref_t))
    g_ref = np.zeros((2 * n, m), dtype=complex)
    g_bug = np.zeros((2 * n, m), dtype=complex)      # prediction of "environments back-propagated in forward order"
    g_free = np.zeros((2 * n, m), dtype=complex)     # same system without environments
    g_hamonly = np.zeros((2 * n, m), dtype=complex)  # parameter dependence of the dissipators ignored
    free_hp_states = [rho0.reshape(-1)]
    for h in range(2 * n):
        free_hp_states.append(hp[h] @ free_hp_states[-1])
    rho_free = free_hp_states[-1].reshape(d, d)
    for h in range(2 * n):
        for j in range(m):
            dp = model.dhalf_prop(tuple(par[h]), j)
            hpd = list(hp)
            hpd[h] = dp
            drho_t = mpo_forward(rho0, mpos, caps, hpd)[-1]
            if is_anc:
                drho = joint_forward(rho0, envs, hpd)[-1]
                cross = max(cross, np.abs(drho - drho_t).max())
            else:
                drho = drho_t
            g_ref[h, j] = dz(ref[-1], drho)
            if len(envs) > 1:
                g_bug[h, j] = dz(ref[-1], mpo_forward(rho0, mpos, caps, hpd, reverse_after=h // 2)[-1])
            v = dp @ free_hp_states[h]
            for h2 in range(h + 1, 2 * n):
                v = hp[h2] @ v
            g_free[h, j] = dz(rho_free, v.reshape(d, d))
            if c["model"] != "H":
                hpd[h] = model.dhalf_prop(tuple(par[h]), j, ham_only=True)
                g_hamonly[h, j] = dz(ref[-1], mpo_forward(rho0, mpos, caps, hpd)[-1])
    scale = max(np.abs(g_ref).max(), MIN_GRAD)
    out["cross"] = float(cross)
    out["gmax"] = float(np.abs(g_ref).max())
    out["gmin_entry"] = float(np.abs(g_ref).min())
    out["env_effect"] = float(np.abs(g_ref - g_free).max() / scale)
    out["env_state"] = float(np.abs(ref[-1] - rho_free).max())
    out["diss_effect"] = float(np.abs(g_ref - g_hamonly).max() / scale) if c["model"] != "H" else None
    out["order_effect"] = float(np.abs(g_ref - g_bug).max() / scale) if len(envs) > 1 else None

    # ---- the library
    # The observed call is the *second* one on the same system object and the same parameter array: the first call sees other
    # control values, which the caller then overwrites in place (the loop of an optimiser updating its array).
    try:
        sysobj = model.oqupy_system(c["deriv"])
        p_lib = par + 0.11 * np.cos(1.0 + np.arange(par.size)).reshape(par.shape)
        oq.state_gradient(system=sysobj, initial_state=rho0.copy(), target_derivative=tgt,
                          process_tensors=[x["pt"] for x in envs], parameters=p_lib, start_time=start,
                          progress_type="silent")
        p_lib[...] = par
        res = oq.state_gradient(system=sysobj, initial_state=rho0.copy(),
                                target_derivative=tgt, process_tensors=[x["pt"] for x in envs],
                                parameters=p_lib, start_time=start, progress_type="silent")
        if not np.array_equal(p_lib, par):
            out["sigs"].append(("parameter-array-modified", f"{case_desc(c)}: state_gradient changed the caller's parameters"))
    except Exception as ex:  # noqa
        out["sigs"].append((f"exception:{type(ex).__name__}", f"{case_desc(c)}: {type(ex).__name__}: {ex}"[:260]))
        return out
    tol = TOL_USER if c["deriv"] == "user" else TOL_NUM
    g = np.asarray(res["gradient"])
    if g.shape != (2 * n, m):
        out["sigs"].append(("gradient-shape", f"gradient has shape {g.shape}, parameters {(2 * n, m)}"))
        return out
    gdev = np.abs(g - g_ref) / scale
    out["gdev"] = float(gdev.max())
    if gdev.max() > tol:
        h, j = np.unravel_index(np.argmax(gdev), gdev.shape)
        bugdev = float(np.abs(g - g_bug).max() / scale) if len(envs) > 1 else None
        sig = "gradient-mismatch"
        if bugdev is not None and bugdev <= tol:
            sig = "gradient-mismatch:equals-backpropagation-with-environments-in-forward-list-order"
        nbad = int((gdev > tol).sum())
        out["sigs"].append((sig, f"{case_desc(c)}: |grad - dZ/dp|/max|dZ/dp| = {gdev.max():.2e} "
                                 f"(tol {tol:.0e}) at half step {h}, parameter {j}: got {g[h, j]:.6g}, exact "
                                 f"{g_ref[h, j]:.6g}; {nbad} of {g.size} entries wrong"))
        out["first_bad_halfstep"] = int(np.argmax((gdev > tol).any(axis=1)))
    states = np.asarray(res["dynamics"].states)
    times = np.asarray(res["dynamics"].times, dtype=float)
    if states.shape != (n + 1, d, d):
        out["sigs"].append(("dynamics-shape", f"{states.shape[0]} states for {n} steps"))
        return out
    sdev = np.abs(states - np.array(ref)).max(axis=(1, 2))
    out["sdev"] = float(sdev.max())
    if sdev.max() > TOL_STATE:
        out["sigs"].append(("dynamics-mismatch", f"{case_desc(c)}: reported dynamics differ from the "
                                                 f"forward simulation by {sdev.max():.2e}, first at step "
                                                 f"{int(np.argmax(sdev > TOL_STATE))}"))
    fdev = float(np.abs(np.asarray(res["final_state"]) - ref[-1]).max())
    if fdev > TOL_STATE:
        out["sigs"].append(("final-state-mismatch", f"N={n}: final_state differs from the forward simulation by {fdev:.2e}"))
    tdev = float(np.abs(times - (start + DT * np.arange(n + 1))).max()) if times.shape == (n + 1,) else np.inf
    if tdev > 1e-12:
        out["sigs"].append(("times-mismatch", f"N={n} start={start}: time axis {times.tolist()}"))
    return out


# ------------------------------------------------------------------------------------------------
# alphabet

def build_cases(tier):
    thorough = tier == "thorough"
    cases = []

    def add(d, n, m, model, env, tgt, deriv, table, start=0.0, fam="main"):
        if env.startswith("tempo") and n < 2:
            return          # constraint: PT-TEMPO refuses to build process tensors of fewer than two steps
        cases.append({"fam": fam, "d": d, "n": n, "m": m, "model": model, "env": env, "target": tgt, "deriv": deriv,
                      "table": table, "start": start})

    ns = [1, 2, 3] + ([4] if thorough else [])
    ms = [1, 2, 3]
    models = ["H", "rate", "jump", "all"]
    envs = ["anc1", "anc2c", "anc2n", "tempo1", "tempo2", "anc2n_rev", "anc3", "tempo2_rev"] + (["anc2g"] if thorough else [])
    targets = ["matrix", "purity"] + (["state", "nonlin"] if thorough else [])
    derivs = ["user", "num"]
    tables = ["generic", "ones"] + (["zero"] if thorough else [])
    for n, m, model, env, tgt, deriv, table in itertools.product(ns, ms, models, envs, targets, derivs, tables):
        add(2, n, m, model, env, tgt, deriv, table)
    # d = 3 system (ancilla environments only; e != d somewhere)
    n3 = [1, 2, 3] if thorough else [2]
    m3 = [1, 2, 3] if thorough else [2]
    e3 = ["anc1", "anc2c", "anc2n", "anc3"] + (["anc2g"] if thorough else [])
    for n, m, model, env, tgt, deriv in itertools.product(n3, m3, models, e3, targets, ["user"] + (["num"] if thorough else [])):
        add(3, n, m, model, env, tgt, deriv, "generic", fam="d3")
    # non-zero start time (time axis of the reported dynamics)
    for n, env, deriv in itertools.product([2, 3], ["anc1", "tempo2"], derivs):
        add(2, n, 2, "rate", env, "matrix", deriv, "generic", start=1.7, fam="start")
    # remaining targets in the quick tier (reduced product)
    if not thorough:
        for n, env, tgt, deriv in itertools.product([2, 3], ["anc1", "anc2n", "tempo1"], ["state", "nonlin"], derivs):
            add(2, n, 2, "jump", env, tgt, deriv, "generic", fam="targets")
    # parameter tables with partial repetition between consecutive half steps (constant column, one column at a time,
    # equal half steps) -- the patterns of piecewise-constant controls
    for n, m, model, env, deriv, table in itertools.product([2, 3], [2, 3], ["H", "all"], ["anc1", "tempo1"], derivs,
                                                            ["constcol", "staircase", "fullstep", "int"]):
        add(2, n, m, model, env, "matrix", deriv, table, fam="tables")
    # process tensors whose last bond is closed by a non-trivial cap tensor
    for n, env, deriv in itertools.product([1, 2, 3], ["anc1x", "anc2x"], derivs):
        add(2, n, 1, "H", env, "matrix", deriv, "generic", fam="capped")
    return cases


def selftest():
    """own dL/dp_m vs central finite difference of own L(p);  own dP vs finite difference of expm."""
    worst = 0.0
    for kind, d in itertools.product(["H", "rate", "jump", "all"], [2, 3]):
        mod = Model(kind, d, 3)
        p = np.array([0.37, -0.52, 0.81])
        for m in range(3):
            h = 1e-5
            e = np.zeros(3)
            e[m] = h
            fd = (mod.liou(tuple(p + e)) - mod.liou(tuple(p - e))) / (2 * h)
            worst = max(worst, np.abs(fd - mod.dliou(tuple(p), m)).max())
            fdp = (mod.half_prop(tuple(p + e)) - mod.half_prop(tuple(p - e))) / (2 * h)
            worst = max(worst, np.abs(fdp - mod.dhalf_prop(tuple(p), m)).max())
    return float(worst)


def _worker(c):
    try:
        return run_case(c)
    except Exception as ex:  # harness failure, not a verdict
        import traceback
        return {"harness": traceback.format_exc()[-1500:], "sigs": [], "key": case_key(c)}


def run(tier, seed):
    rep = Report(LEVEL)
    st = selftest()
    if st > 1e-8:
        raise RuntimeError(f"C08 oracle self-test failed: own dL/dp or dP/dp vs finite differences {st:.2e}")
    cases = build_cases(tier)
    res = pmap(_worker, cases, seed=seed)
    nontrivial = set()
    stats = {"user": 0.0, "num": 0.0, "state": 0.0, "cross": 0.0}
    viol_dev = 0.0
    min_env, min_gmax, min_order = np.inf, np.inf, np.inf
    per_env, per_model = {}, {}
    trivial = []
    profile = {}
    dims = ("d", "n", "m", "model", "target", "deriv", "table")
    for c, r in zip(cases, res):
        if "harness" in r:
            raise RuntimeError(f"C08 harness error in case {c}:\n{r['harness']}")
        if r["cross"] > TOL_CROSS:
            raise RuntimeError(f"C08 oracles (T) and (J) disagree by {r['cross']:.2e} in case {c}")
        stats["cross"] = max(stats["cross"], r["cross"])
        active = r["gmax"] > MIN_GRAD and r["env_effect"] > MIN_ENV_EFFECT and \
            (c["model"] == "H" or r["diss_effect"] > MIN_DISS_EFFECT)
        pm = per_model.setdefault(c["model"], {"cases": 0, "nontrivial": 0, "min_dissipator_derivative_effect": np.inf})
        pm["cases"] += 1
        pm["nontrivial"] += bool(active)
        if active and c["model"] != "H":
            pm["min_dissipator_derivative_effect"] = min(pm["min_dissipator_derivative_effect"], r["diss_effect"])
        e = per_env.setdefault(c["env"], {"cases": 0, "nontrivial": 0, "violating": 0, "min_env_effect": np.inf,
                                          "min_order_effect_N>=2": np.inf, "max_dev": 0.0})
        e["cases"] += 1
        if active:
            nontrivial.add(r["key"])
            e["nontrivial"] += 1
            min_env = min(min_env, r["env_effect"])
            min_gmax = min(min_gmax, r["gmax"])
            e["min_env_effect"] = min(e["min_env_effect"], r["env_effect"])
        else:
            trivial.append({"case": c, "gmax": r["gmax"], "env_effect": r["env_effect"], "diss_effect": r["diss_effect"]})
        if r["order_effect"] is not None and c["n"] >= 2 and c["env"] not in ("anc2c",):
            min_order = min(min_order, r["order_effect"])
            e["min_order_effect_N>=2"] = min(e["min_order_effect_N>=2"], r["order_effect"])
        for sig, what in r["sigs"]:
            rep.add(Violation(f"{case_cls(c)}|{sig}", what, c))
            pr = profile.setdefault(f"{case_cls(c)}|{sig}", {"failing_cases": 0, **{k: set() for k in dims}})
            pr["failing_cases"] += 1
            for k in dims:
                pr[k].add(c[k])
        if r["sigs"]:
            e["violating"] += 1
            viol_dev = max(viol_dev, r.get("gdev", 0.0))
        else:
            stats[c["deriv"]] = max(stats[c["deriv"]], r["gdev"])
            stats["state"] = max(stats["state"], r["sdev"])
            e["max_dev"] = max(e["max_dev"], r["gdev"])
    for e in per_env.values():
        for k in ("min_env_effect", "min_order_effect_N>=2"):
            if not np.isfinite(e[k]):
                e[k] = None
    for pm in per_model.values():
        if not np.isfinite(pm["min_dissipator_derivative_effect"]):
            pm["min_dissipator_derivative_effect"] = None
    for cls, pr in profile.items():
        env = cls.split("|")[0]
        pr["cases_run_in_this_input_class"] = per_env[env]["cases"]
        for k in dims:
            ran = sorted({c[k] for c in cases if c["env"] == env})
            pr[k] = {"failing": sorted(pr[k]), "run": ran}
    ratio = max(stats["user"] / TOL_USER, stats["num"] / TOL_NUM, stats["state"] / TOL_STATE)
    rep.coverage = {
        "evaluations": len(cases),
        "distinct_nontrivial": len(nontrivial),
        "trivial_cases": len(trivial),
        "trivial_samples": trivial[:3],
        "rule": "full Cartesian product N{1,2,3} x M{1,2,3} x model{H,rate,jump,all} x environment set x target x "
                "propagator-derivative kind x parameter table for d=2 (quick: 8 environment sets incl. three environments "
                "and reversed lists, targets matrix/purity, tables generic/ones; thorough: + N=4, a pair of generic "
                "joint-unitary environments, targets state/nonlin, table zero), plus full sub-products for d=3, non-zero start time, remaining "
                "targets, and process tensors closed by a non-trivial last cap; every one of the 2N x M gradient entries, "
                "every reported state, final_state and the time axis are compared.  A case counts as non-trivial iff the "
                f"largest exact gradient entry exceeds {MIN_GRAD} and the environments change the exact gradient by more "
                f"than {MIN_ENV_EFFECT} (relative to its largest entry) and, for the models with parameter-dependent "
                f"dissipators, the parameter dependence of the rates / jump operators changes it by more than "
                f"{MIN_DISS_EFFECT}; distinct by the full case tuple.  Constraint: PT-TEMPO sets need N >= 2",
        "samples": [cases[i] for i in ((seed * 131) % len(cases), len(cases) // 2, len(cases) - 1)],
        "exhaustive": True,
        "alphabet_sizes": {k: len({c[k] for c in cases}) for k in ("d", "n", "m", "model", "env", "target", "deriv", "table")},
        "environment_classes": {k: ENV_CLASSES[k] for k in per_env},
        "per_environment": per_env,
        "per_model": per_model,
        "violation_profile": profile,
        "max_dev": max(stats["user"], stats["num"]),
        "tolerance": TOL_NUM,
        "max_dev_user_derivs": stats["user"], "tolerance_user_derivs": TOL_USER,
        "max_dev_numdifftools": stats["num"], "tolerance_numdifftools": TOL_NUM,
        "max_dev_dynamics": stats["state"], "tolerance_dynamics": TOL_STATE,
        "max_dev_over_tol": ratio,
        "max_dev_in_violating_cases": viol_dev,
        "oracle_cross_check_max": stats["cross"],
        "oracle_selftest_fd": st,
        "min_env_effect_on_gradient": None if not np.isfinite(min_env) else min_env,
        "min_max_gradient_entry": None if not np.isfinite(min_gmax) else min_gmax,
        "min_order_effect_noncommuting_N>=2": None if not np.isfinite(min_order) else min_order,
    }
    rep.assumptions = [
        "process tensors are input data: the oracle reads their MPO and cap tensors through get_mpo_tensor / "
        "get_cap_tensor (checked separately by C03/C16) and contracts them with its own numpy code; for ancilla "
        "process tensors this is cross-checked in every case against a first-principles system+ancilla simulation",
        "derivative oracle: scipy.linalg.expm_frechet of the own Lindbladian with analytic parameter derivatives "
        "(self-tested against central finite differences at start-up)",
        "objective Z = sum_ij T_ij rho_f,ij for array targets; for callable targets Z is the function whose derivative "
        "the callable returns (purity, squared expectation) and dZ/dp is formed with own formulas",
        "decided only on the stated finite alphabet (d<=3, N<=3, M<=3)",
    ]
    return rep


def replay(rp):
    c = dict(rp)
    r = run_case(c)
    obs = {k: (None if r.get(k) is None else float(f"{r[k]:.6e}")) for k in ("gdev", "sdev", "gmax", "env_effect")}
    obs["sigs"] = [s for s, _ in r["sigs"]]
    return {"obs": obs, "violation": f"{case_cls(c)}|{r['sigs'][0][0]}" if r["sigs"] else None}
