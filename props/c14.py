"""C14  Splitting or repeating compute calls never changes the result.

Model checking over histories of API calls and over fault points:
 * continuing objects (Tempo full memory / dkmax=2, MeanFieldTempo with 1 and 2 systems, PtTebd): every history
   over the menu {compute(t_j) for every grid target j, get_dynamics()/get_results(), q = all other read-only
   accessors (get_current_density_matrix, get_augmented_mps, dynamics.times/.states)} up to depth 3 (quick) / 4 (thorough) is
   replayed on a freshly constructed real object; after every operation the dynamics must equal the single-call
   reference truncated at the furthest target so far.
 * fixed-end objects (PtTempo, GibbsTempo): every history over {compute, get result, get dynamics} up to depth 3.
 * chain restart from the exported augmented MPS at every intermediate step.
 * fault points: for every invocation index k of every user callable a transient exception is injected at the k-th
   invocation during compute(); compute() is then repeated: result equals the fault-free reference or it raises again.
"""
import itertools
import hashlib

import numpy as np

from mc.common import Report, Violation, pmap, bind_repo
from . import models as M

oq = bind_repo()
LEVEL = "model_checking"
N = 5
DT = 0.1
START = 0.3
EPS = 1e-10
TOL = 1e-6          # separately executed truncated networks agree to ~epsrel*O(10); a skipped/double step is >1e-3


class InjectedFault(Exception):
    pass


class InjectedInterrupt(BaseException):
    """a failure outside the Exception hierarchy (like KeyboardInterrupt / SystemExit raised inside a user callable)"""


class Faulty:
    """Wraps user callables; raises InjectedFault on the k-th invocation (over all wrapped callables) while armed."""

    def __init__(self):
        self.count = 0
        self.k = None
        self.log = []
        self.exc_cls = InjectedFault

    def wrap(self, name, f):
        def g(*a, **kw):
            self.count += 1
            if self.k is not None and self.count == self.k:
                import sys
                caller = sys._getframe(1).f_code.co_name
                self.log.append(f"{name}@{caller}")
                raise self.exc_cls(f"{name} invocation {self.count}")
            return f(*a, **kw)
        return g

    def arm(self, k):
        self.count = 0
        self.k = k

    def disarm(self):
        self.k = None


def t_of(j):
    return START + (j + 0.4) * DT


# ------------------------------------------------------------------------------------------------
# object factories

def tempo_system(fz=None):
    w = fz.wrap if fz else (lambda n, f: f)
    return oq.TimeDependentSystem(
        w("hamiltonian", M.td_hamiltonian),
        gammas=[w("gamma", lambda t: 0.1 + 0.05 * t)],
        lindblad_operators=[w("lindblad", lambda t: M.SM + 0.1 * t * M.SZ)])


def make(kind, fz=None, subdiv=None):
    corr = M.ohmic(alpha=0.2, temperature=0.4)
    bath = oq.Bath(0.5 * M.SZ, corr)
    if kind in ("tempo-full", "tempo-dk2"):
        prm = oq.TempoParameters(dt=DT, epsrel=EPS, dkmax=None if kind == "tempo-full" else 2,
                                 add_correlation_time=None if kind == "tempo-full" else 0.25,
                                 subdiv_limit=subdiv)
        return oq.Tempo(tempo_system(fz), bath, prm, M.RHO_GEN2, START)
    if kind in ("mf1", "mf2"):
        w = fz.wrap if fz else (lambda n, f: f)
        s1 = oq.TimeDependentSystemWithField(
            w("hamiltonian", lambda t, a: 0.5 * M.SZ + (0.3 * np.cos(t) + np.real(a)) * M.SX),
            gammas=[w("gamma", lambda t: 0.1 + 0.02 * t)], lindblad_operators=[w("lindblad", lambda t: M.SM)])
        systems, baths, states = [s1], [bath], [M.RHO_GEN2]
        if kind == "mf2":
            s2 = oq.TimeDependentSystemWithField(
                w("hamiltonian2", lambda t, a: np.diag([0.2, 0.0, -0.4]).astype(complex) + np.imag(a) * M.generic_herm(3, 3, 0.5)))
            b3 = oq.Bath(np.diag([1.0, 0.0, -1.0]).astype(complex), M.ohmic(alpha=0.1, temperature=0.0))
            systems, baths, states = [s1, s2], [bath, b3], [M.RHO_GEN2, M.generic_state(3, 1)]

        def eom(t, st, a):
            r = -0.3 * a - 0.2j * np.trace(M.SM @ st[0]) + 0.1 * t
            if len(st) > 1:
                r += 0.1 * st[1][0, 2]
            return r
        mfs = oq.MeanFieldSystem(systems, w("field_eom", eom))
        prm = oq.TempoParameters(dt=DT, epsrel=EPS, dkmax=2, subdiv_limit=subdiv)
        return oq.MeanFieldTempo(mfs, baths, prm, states, 0.5 + 0.2j, start_time=START)
    if kind == "tebd":
        return make_tebd()
    raise ValueError(kind)


_PT = {}


def chain_pt():
    if "pt" not in _PT:
        bath = oq.Bath(0.5 * M.SZ, M.ohmic(alpha=0.2, temperature=0.4))
        _PT["pt"] = oq.pt_tempo_compute(bath, 0.0, (N + 0.4) * DT, oq.TempoParameters(dt=DT, epsrel=1e-9),
                                        progress_type="silent")
    return _PT["pt"]


def make_tebd(start_step=0, mps=None, start_time=START):
    chain = oq.SystemChain(hilbert_space_dimensions=[2, 2, 2])
    for s, h in enumerate([0.5 * M.SX, 0.3 * M.SZ + 0.2 * M.SY, 0.4 * M.SX]):
        chain.add_site_hamiltonian(site=s, hamiltonian=h)
    chain.add_site_dissipation(site=1, lindblad_operator=M.SM, gamma=0.1)
    chain.add_nn_hamiltonian(site=0, hamiltonian_l=0.6 * M.SZ, hamiltonian_r=M.SZ)
    chain.add_nn_hamiltonian(site=1, hamiltonian_l=0.4 * M.SX, hamiltonian_r=M.SX)
    if mps is None:
        mps = oq.AugmentedMPS([M.RHO_GEN2, M.RHO_PLUS, M.RHO_GEN2])
    # control operations at absolute step numbers, before and after every possible split / restart point
    from mc import refmodel as R
    cc = oq.ChainControl([2, 2, 2])
    k1, k2 = R.conj_super(M.generic_unitary(2, 9)), R.conj_super(M.generic_unitary(2, 4))
    cc.add_single_site_control(k1, site=0, step=1, post=False)
    cc.add_single_site_control(k2, site=1, step=2, post=True)
    cc.add_single_site_control(k2, site=2, step=3, post=False)
    cc.add_single_site_control(k1, site=2, step=4, post=False)
    cc.add_single_site_control(k2, site=0, step=4, post=True)
    return oq.PtTebd(mps, chain, [chain_pt(), None, None], oq.PtTebdParameters(dt=DT, order=2, epsrel=1e-10),
                     start_time=start_time, start_step=start_step, dynamics_sites=[0, 1, (0, 1), 2], chain_control=cc)


def observe(kind, obj):
    """-> None or (times array, flat states array)"""
    if kind == "tebd":
        if obj.step is None or obj._results is None:
            return None
        r = obj.get_results()
        t = np.array(r["time"])
        st = [np.concatenate([np.asarray(r["dynamics"][s].states[i]).ravel() for s in (0, 1, (0, 1), 2)] + [[r["norm"][i]]])
              for i in range(len(t))]
        dt_ok = all(np.array_equal(np.asarray(r["dynamics"][s].times), t) for s in (0, 1, (0, 1), 2))
        return t, np.array(st), dt_ok
    d = obj.get_dynamics()
    if d is None:
        return None
    if kind.startswith("mf"):
        st = [np.concatenate([np.asarray(sd.states[i]).ravel() for sd in d.system_dynamics] + [[d.fields[i]]])
              for i in range(len(d.times))]
        ok = all(np.array_equal(sd.times, d.times) for sd in d.system_dynamics)
        return np.array(d.times), np.array(st), ok
    return np.array(d.times), np.array([s.ravel() for s in d.states]), True


def do_compute(kind, obj, j):
    if kind == "tebd":
        return obj.compute(j, progress_type="silent")
    return obj.compute(t_of(j), progress_type="silent")


_REF = {}


def reference(kind, subdiv=None):
    key = (kind, subdiv)
    if key not in _REF:
        obj = make(kind, subdiv=subdiv)
        do_compute(kind, obj, N)
        t, s, ok = observe(kind, obj)
        assert len(t) == N + 1, (kind, len(t))
        _REF[key] = (t, s)
    return _REF[key]


def compare(kind, obs, furthest, subdiv=None):
    """-> None or signature"""
    rt, rs = reference(kind, subdiv)
    t, s, ok = obs
    exp_t0 = START + DT * np.arange(furthest + 1)
    if not ok:
        return "sub-dynamics-times-differ"
    if len(t) != furthest + 1:
        if len(t) == furthest + 2:
            return "one-extra-step"
        return f"{len(t) - 1}-steps-instead-of-{furthest}"
    if np.abs(t - exp_t0).max() > 1e-12:
        miss = sorted(set(np.round((exp_t0 - START) / DT).astype(int)) - set(np.round((t - START) / DT).astype(int)))
        return "time-point-skipped" if miss else "times-wrong"
    dev = np.abs(s - rs[:furthest + 1]).max()
    if dev > TOL:
        return "states-differ"
    return None


def run_history(args):
    kind, hist = args
    obj = make(kind)
    furthest = None
    vio = []
    nops = 0
    key = None
    for i, op in enumerate(hist):
        try:
            if op[0] == "c":
                ret = do_compute(kind, obj, op[1])
                furthest = op[1] if furthest is None else max(furthest, op[1])
            elif op[0] == "q":
                # every other read-only accessor of the object
                if kind == "tebd":
                    if obj.step is not None:
                        obj.get_current_density_matrix(0)
                        obj.get_current_density_matrix((0, 1))
                        obj.get_augmented_mps()
                else:
                    d = obj.get_dynamics()
                    if d is not None:
                        d.times, d.states if hasattr(d, "states") else d.fields
            else:
                if kind == "tebd":
                    if obj.step is not None:
                        obj.get_results()
                else:
                    obj.get_dynamics()
        except Exception as ex:  # noqa
            vio.append((f"{kind}|history|exception:{type(ex).__name__}", f"history {hist}: op {i} raised {ex}"[:200]))
            break
        nops += 1
        obs = observe(kind, obj)
        if furthest is None:
            continue
        if obs is None:
            vio.append((f"{kind}|history|no-dynamics", f"history {hist}"))
            break
        sig = compare(kind, obs, furthest)
        if sig:
            shape = "repeat" if i > 0 and op[0] == "c" and any(o == op for o in hist[:i]) else \
                ("decreasing" if op[0] == "c" and op[1] < furthest else "increasing")
            vio.append((f"{kind}|history:{shape}|{sig}", f"history {hist}: after op {i} {op}: {sig}"))
            break
        key = (furthest, len(obs[0]), hashlib.sha1((np.round(obs[1], 4) + 0.0).tobytes()).hexdigest()[:8])
    return {"vio": vio, "nops": nops, "key": key}


# ------------------------------------------------------------------------------------------------
# fixed-end objects

def gibbs_obj():
    corr = oq.PowerLawSD(alpha=0.2, zeta=1.0, cutoff=3.0, cutoff_type="exponential", temperature=0.7)
    bath = oq.Bath(np.diag([0.5, -0.5]).astype(complex), corr)
    return oq.GibbsTempo(oq.System(0.4 * M.SZ + 0.3 * M.SX), bath, oq.GibbsParameters(n_steps=5, epsrel=1e-9))


def fixed_history(args):
    kind, hist = args
    vio = []
    nops = 0
    key = None
    if kind == "pttempo":
        bath = oq.Bath(0.5 * M.SX, M.ohmic(alpha=0.2, temperature=0.4))
        prm = oq.TempoParameters(dt=DT, epsrel=1e-9, dkmax=3)
        obj = oq.PtTempo(bath, START, t_of(N), prm)
        ref = oq.PtTempo(bath, START, t_of(N), prm).get_process_tensor(progress_type="silent")
        sysm = oq.System(0.5 * M.SZ + 0.2 * M.SX)
        refdyn = np.array(oq.compute_dynamics(sysm, M.RHO_GEN2, process_tensor=ref, start_time=START,
                                              progress_type="silent").states)
        for i, op in enumerate(hist):
            try:
                if op == "compute":
                    obj.compute(progress_type="silent")
                    pt = None
                else:
                    pt = obj.get_process_tensor(progress_type="silent")
            except Exception as ex:  # noqa
                nth = sum(1 for o in hist[:i + 1] if o == op)
                vio.append((f"pttempo|{op}#{nth}-after-{'+'.join(hist[:i]) or 'nothing'}|exception:{type(ex).__name__}",
                            f"history {hist}: op {i} raised {type(ex).__name__}: {ex}"[:200]))
                break
            nops += 1
            if pt is not None:
                if len(pt) != N:
                    vio.append((f"pttempo|history|length", f"history {hist}: len {len(pt)}"))
                    break
                d = np.array(oq.compute_dynamics(sysm, M.RHO_GEN2, process_tensor=pt, start_time=START,
                                                 progress_type="silent").states)
                if np.abs(d - refdyn).max() > 1e-6:
                    vio.append((f"pttempo|history|process-tensor-differs", f"history {hist}: dev {np.abs(d - refdyn).max():.1e}"))
                    break
                key = ("pt", len(pt))
        return {"vio": vio, "nops": nops, "key": key}
    # gibbs
    obj = gibbs_obj()
    r = gibbs_obj()
    r.compute(progress_type="silent")
    ref_state = r.get_state()
    ref_len = len(r.get_dynamics().times)
    for i, op in enumerate(hist):
        try:
            if op == "compute":
                obj.compute(progress_type="silent")
                out = None
            elif op == "get_state":
                out = obj.get_state()
            else:
                out = obj.get_dynamics()
        except Exception as ex:  # noqa
            vio.append((f"gibbs|{op}|exception:{type(ex).__name__}", f"history {hist}: op {i} raised {ex}"[:200]))
            break
        nops += 1
        st = obj.get_state()
        ncomp = sum(1 for o in hist[:i + 1] if o == "compute")
        if np.abs(st - ref_state).max() > 1e-7:
            vio.append((f"gibbs|compute-x{ncomp}|state-changes", f"history {hist}: state differs from single compute by "
                                                                f"{np.abs(st - ref_state).max():.2e}"))
            break
        if len(obj.get_dynamics().times) != ref_len:
            vio.append((f"gibbs|compute-x{ncomp}|dynamics-grows", f"history {hist}: {len(obj.get_dynamics().times)} points "
                                                                 f"instead of {ref_len}"))
            break
        key = ("gibbs", ncomp > 0)
    return {"vio": vio, "nops": nops, "key": key}


# ------------------------------------------------------------------------------------------------
# chain restart

def restart_case(k):
    full = make_tebd()
    full.compute(N, progress_type="silent")
    ft, fs, _ = observe("tebd", full)
    a = make_tebd()
    a.compute(k, progress_type="silent")
    mps = a.get_augmented_mps()
    b = make_tebd(start_step=k, mps=mps, start_time=START + k * DT)
    b.compute(N, progress_type="silent")
    bt, bs, ok = observe("tebd", b)
    vio = []
    if len(bt) != N - k + 1:
        vio.append((f"tebd-restart|length", f"restart at {k}: {len(bt)} records"))
    else:
        if np.abs(bt - ft[k:]).max() > 1e-12:
            vio.append((f"tebd-restart|times", f"restart at {k}: times {bt} vs {ft[k:]}"))
        dev = np.abs(bs - fs[k:]).max()
        if dev > 1e-7:
            vio.append((f"tebd-restart|states-differ", f"restart at step {k}: dev {dev:.2e}"))
    return {"vio": vio}


# ------------------------------------------------------------------------------------------------
# faults

def count_invocations(kind, subdiv):
    fz = Faulty()
    obj = make(kind, fz, subdiv)
    fz.arm(None)
    do_compute(kind, obj, N)
    return fz.count


def fault_case(args):
    kind, subdiv, ks = args[:3]
    exc = args[3] if len(args) > 3 else "Exception"
    fz = Faulty()
    fz.exc_cls = InjectedFault if exc == "Exception" else InjectedInterrupt
    obj = make(kind, fz, subdiv)
    vio = []
    names = []
    raised_n = 0
    for k in ks:                      # one injected fault per compute() call, then retry
        fz.arm(k)
        try:
            do_compute(kind, obj, N)
            raised = False
        except (InjectedFault, InjectedInterrupt):
            raised = True
        except Exception as ex:  # noqa
            fz.disarm()
            return {"vio": [], "outcome": f"fails-again:{type(ex).__name__}", "who": names}
        raised_n += raised
        names += fz.log[-1:] if raised else []
    fz.disarm()
    try:
        do_compute(kind, obj, N)
    except Exception as ex:  # noqa
        return {"vio": [], "outcome": f"fails-again:{type(ex).__name__}", "who": names}
    obs = observe(kind, obj)
    if obs is None:
        return {"vio": [(f"{kind}|fault|no-dynamics", f"k={ks}")], "outcome": "none", "who": names}
    sig = compare(kind, obs, N, subdiv)
    if sig:
        who = "+".join(names) or "?"
        ecls = "" if exc == "Exception" else "non-Exception-"
        vio.append((f"{kind}|{ecls}fault-in:{who}|{sig}", f"{kind} subdiv={subdiv}: {exc} at invocation(s) {ks} ({who}), "
                                                    f"compute() repeated: {sig}"))
    return {"vio": vio, "outcome": "same" if not sig else sig, "who": names, "raised": raised_n}


def run(tier, seed):
    rep = Report(LEVEL)
    depth = 3 if tier == "quick" else 4
    kinds = ["tempo-full", "tempo-dk2", "mf1", "tebd"] + (["mf2"] if tier == "thorough" else [])
    for k in kinds:
        reference(k)
    chain_pt()
    jobs = []
    for kind in kinds:
        menu = [("c", j) for j in range(N + 1)] + [("g",), ("q",)]
        d = depth if kind != "mf2" else 3
        for L in range(1, d + 1):
            for h in itertools.product(menu, repeat=L):
                if any(o[0] == "c" for o in h):
                    jobs.append((kind, h))
    res = pmap(run_history, jobs, seed=seed)
    states, transitions = set(), 0
    for (kind, h), r in zip(jobs, res):
        transitions += r["nops"]
        if r["key"]:
            states.add((kind,) + r["key"])
        for cls, what in r["vio"]:
            rep.add(Violation(cls, what, {"part": "history", "kind": kind, "hist": [list(o) for o in h]}))
    fjobs = []
    for kind, menu in (("pttempo", ["compute", "get_process_tensor"]), ("gibbs", ["compute", "get_state", "get_dynamics"])):
        for L in range(1, 4):
            for h in itertools.product(menu, repeat=L):
                if kind == "gibbs" and h[0] != "compute":
                    continue
                fjobs.append((kind, h))
    fres = pmap(fixed_history, fjobs, seed=seed)
    for (kind, h), r in zip(fjobs, fres):
        transitions += r["nops"]
        if r["key"]:
            states.add((kind,) + tuple(r["key"]))
        for cls, what in r["vio"]:
            rep.add(Violation(cls, what, {"part": "fixed", "kind": kind, "hist": list(h)}))
    rres = pmap(restart_case, list(range(1, N)), chunksize=1, seed=seed)
    for k, r in zip(range(1, N), rres):
        transitions += 3
        for cls, what in r["vio"]:
            rep.add(Violation(cls, what, {"part": "restart", "k": k}))
    # fault points
    fault_jobs = []
    ktot = {}
    for kind in ["tempo-full", "tempo-dk2", "mf1", "mf2"]:
        for subdiv in ([None] if tier == "quick" or kind.startswith("mf") else [None, 2]):
            K = count_invocations(kind, subdiv)
            ktot[f"{kind}/subdiv={subdiv}"] = K
            for k in range(1, K + 1):
                fault_jobs.append((kind, subdiv, (k,)))
                if subdiv is None and (kind != "mf2" or tier == "thorough"):
                    fault_jobs.append((kind, subdiv, (k,), "BaseException"))
            if tier == "thorough" and subdiv is None:
                for k1 in range(1, K + 1, 3):
                    for k2 in range(1, K + 1, 5):
                        fault_jobs.append((kind, subdiv, (k1, k2)))
    for (k, s) in set((j[0], j[1]) for j in fault_jobs):
        reference(k, s)
    qres = pmap(fault_case, fault_jobs, seed=seed)
    outcomes = {}
    for j, r in zip(fault_jobs, qres):
        transitions += 1 + len(j[2])
        outcomes[r["outcome"]] = outcomes.get(r["outcome"], 0) + 1
        for cls, what in r["vio"]:
            rep.add(Violation(cls, what, {"part": "fault", "kind": j[0], "subdiv": j[1], "ks": list(j[2]),
                                          "exc": j[3] if len(j) > 3 else "Exception"}))
    rep.coverage = {
        "states": len(states),
        "transitions": transitions,
        "traces_validated_against_impl": len(jobs) + len(fjobs) + len(fault_jobs) + N - 1,
        "histories": len(jobs) + len(fjobs), "history_depth": depth, "grid_steps": N,
        "fault_points": len(fault_jobs), "invocations_per_object": ktot, "fault_outcomes": outcomes,
        "exhaustive": True,
        "rule": "state = (object kind, furthest target reached, number of recorded points, hash of states rounded 1e-5) "
                "reached by replaying a history on a fresh real object; all histories over {compute(t_j), j=0..5; get} up "
                "to the depth are enumerated (no merging: every history is executed); fault runs: every invocation index "
                "of every wrapped user callable (deviation bound 1; pairs sub-sampled on a regular stride in the thorough "
                "tier and reported as such)",
        "samples": [{"kind": jobs[(seed * 13) % len(jobs)][0], "history": [list(o) for o in jobs[(seed * 13) % len(jobs)][1]]},
                    {"fault": list(fault_jobs[len(fault_jobs) // 2])}],
    }
    rep.assumptions = ["identical tensor-network runs agree to ~10*epsrel (1e-10 requested, tolerance 1e-6)",
                       "faults are raised from user callables only (Hamiltonian, rates, Lindblad operators, field equation), as an "
                       "Exception subclass and as a BaseException subclass (the KeyboardInterrupt / SystemExit family)"]
    return rep


def replay(rp):
    p = rp["part"]
    if p == "history":
        r = run_history((rp["kind"], tuple(tuple(o) for o in rp["hist"])))
    elif p == "fixed":
        r = fixed_history((rp["kind"], tuple(rp["hist"])))
    elif p == "restart":
        r = restart_case(rp["k"])
    else:
        r = fault_case((rp["kind"], rp["subdiv"], tuple(rp["ks"]), rp.get("exc", "Exception")))
    return {"obs": r["vio"], "violation": r["vio"][0][0] if r["vio"] else None}
