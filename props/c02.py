"""C02  TEMPO and PT-TEMPO + compute_dynamics produce the same dynamics.

Differential oracle over an exhaustively enumerated product:
   system {H; H + 2 Lindblad terms; smooth H(t); H(t), gamma(t), A(t)} x coupling {sigma_z/2; sigma_x/2 (basis transform);
   d=3 non-diagonal with a repeated eigenvalue (block form); the same spectrum in a generic basis} x spectral density
   {ohmic exponential T=0.5; super-ohmic gaussian T=0} x memory {None; dkmax 1, 2 (< n) with add_correlation_time None/0/1.5dt/inf;
   dkmax n+2 with None/0} x start_time {0, -0.3, 1.7} x unique {F, T} x epsrel {1e-5, 1e-8};  n = 6 steps.
For every member: TEMPO states at every step vs compute_dynamics on the PT-TEMPO process tensor; for every n' < n the
first n' steps taken from the long process tensor vs a process tensor built for exactly n' steps (and vs TEMPO).
Bound C * epsrel * n at both epsrel values ("tightens as the tolerance is tightened").
"""
import itertools

import numpy as np

from mc.common import Report, Violation, pmap, bind_repo
from . import models as M
from . import c01_common as C

oq = bind_repo()
LEVEL = "exploration"

N_STEPS = 6
DT = 0.2
EPSRELS = [1e-5, 1e-8]
CTOL = 40.0                  # tolerance = CTOL * epsrel * n     (DESIGN 2.7; head-room measured in run())
SAME_PT_TOL = 1e-12          # prefix of one and the same process tensor: same contraction, no truncation involved
MIN_INFLUENCE = 0.05
STARTS = [0.0, -0.3, 1.7]
SYSTEMS = ["H", "H+L", "H(t)", "H(t)+L(t)"]
COUPLINGS = ["sz", "sx", "d3block", "d3generic"]
SDS = {"ohmic-exp-T0.5": C.sd_spec("power", 0.25, 1.0, 3.0, "exponential", 0.5),
       "superohmic-gauss-T0": C.sd_spec("power", 0.35, 3.0, 3.0, "gaussian", 0.0)}


def memory_settings(n):
    out = [("none", None, None)]
    for k in (1, 2):
        for add in (None, 0.0, 0.3, "inf"):          # 0.3 = 1.5 dt: a finite value that is not a multiple of dt
            out.append((f"K{k}<n", k, add))
    out += [("K>n", n + 2, None), ("K>n", n + 2, 0.0)]
    return out


def coupling(kind):
    if kind == "sz":
        return 0.5 * M.SZ
    if kind == "sx":
        return 0.5 * M.SX
    if kind == "d3block":        # eigenvalues (1, 1, -1)/2 .. repeated, non-diagonal
        return 0.5 * np.array([[0, 1, 0], [1, 0, 0], [0, 0, 1]], dtype=complex)
    if kind == "d2complex":        # complex Hermitian: complex eigenvectors
        return 0.5 * M.SY + 0.2 * M.SX
    if kind == "d3generic":
        v = M.generic_unitary(3, 2)
        o = (v * np.array([0.8, 0.8, -0.8])) @ v.conj().T
        return (o + o.conj().T) / 2
    raise ValueError(kind)


def system(kind, d):
    h0 = M.generic_herm(d, 1, 0.8)
    h1 = M.generic_herm(d, 2, 0.5)
    lop = np.diag(np.ones(d - 1), 1).astype(complex)
    if kind == "H":
        return oq.System(h0)
    if kind == "H+L":
        return oq.System(h0, gammas=[0.3, 0.1], lindblad_operators=[lop, h1])
    if kind == "H(t)":
        return oq.TimeDependentSystem(lambda t: np.cos(0.9 * t) * h0 + 0.6 * (1 + 0.5 * t) * h1)
    if kind == "H(t)+L(t)":
        return oq.TimeDependentSystem(lambda t: np.cos(0.9 * t) * h0 + 0.6 * (1 + 0.5 * t) * h1,
                                      gammas=[lambda t: 0.2 + 0.15 * np.sin(t) ** 2, lambda t: 0.1 * np.exp(-0.3 * t)],
                                      lindblad_operators=[lambda t: lop + 0.2 * t * h1, lambda t: h1])
    raise ValueError(kind)


def initial_state(d):
    psi = np.exp(0.7j * np.arange(d)) * np.sqrt(np.arange(1, d + 1) / (d * (d + 1) / 2))
    return 0.85 * np.outer(psi, psi.conj()) + 0.15 * np.eye(d) / d


def tolerance(epsrel, n):
    return CTOL * epsrel * n


def run_case(c):
    """c: dict(system, coupling, sd, mem=(label, dkmax, add), start, unique, epsrel, [prefixes])"""
    n = c.get("n", N_STEPS)
    o = coupling(c["coupling"])
    d = o.shape[0]
    label, dkmax, add = c["mem"]
    tau = None if add is None else (float("inf") if add == "inf" else float(add))
    start, unique, epsrel = c["start"], c["unique"], c["epsrel"]
    res = {}
    try:
        bath = oq.Bath(o, C.lib_correlations(SDS[c["sd"]]))
    except Exception as ex:  # noqa
        res["exc"] = ("bath-construction", type(ex).__name__, str(ex)[:120])
        return res
    res["unique_reduces"] = bool(len(set(bath.north_degeneracy_map)) < d * d or len(set(bath.west_degeneracy_map)) < d * d)
    sysm = system(c["system"], d)
    rho0 = initial_state(d)
    prm = C.make_params(DT, epsrel, dkmax=dkmax, add=tau)
    stage = "tempo"
    try:
        t_times, t_states = C.run_tempo(sysm, bath, prm, rho0, start, n, unique)
        stage = "pt-tempo"
        pt = C.run_pt(bath, prm, start, n, unique)
        stage = "compute_dynamics"
        p_times, p_states = C.run_pt_dynamics(sysm, pt, rho0, start)
        if t_states.shape != (n + 1, d, d) or p_states.shape != (n + 1, d, d):
            res["exc"] = ("lengths", "wrong-length", f"tempo {t_states.shape}, pt {p_states.shape}")
            return res
        dev = np.abs(t_states - p_states).max(axis=(1, 2))
        res["dev"] = float(dev.max())
        res["dev_steps"] = [float(x) for x in dev]
        res["tdev"] = float(max(np.abs(t_times - (start + DT * np.arange(n + 1))).max(),
                                np.abs(p_times - (start + DT * np.arange(n + 1))).max()))
        stage = "free"
        f_times, f_states = C.run_pt_dynamics(sysm, None, rho0, start, num_steps=n, dt=DT)
        res["infl"] = float(np.abs(t_states - f_states).max())
        res["tempo_states"] = t_states
        res["phys"] = C.physicality(list(t_states) + list(p_states))
        pre = []
        for m in c.get("prefixes", list(range(1, n))):
            stage = f"prefix-long-{m}"
            _, l_states = C.run_pt_dynamics(sysm, pt, rho0, start, num_steps=m)
            item = {"m": m, "same_pt": float(np.abs(l_states - p_states[:m + 1]).max()) if l_states.shape[0] == m + 1 else 9.9}
            if m >= 2:
                stage = f"prefix-short-{m}"
                spt = C.run_pt(bath, prm, start, m, unique)
                if len(spt) != m:
                    item["short_len"] = len(spt)
                _, s_states = C.run_pt_dynamics(sysm, spt, rho0, start)
                if s_states.shape[0] != m + 1:
                    item["short_vs_long"] = item["short_vs_tempo"] = 9.9
                else:
                    item["short_vs_long"] = float(np.abs(s_states - l_states).max())
                    item["short_vs_tempo"] = float(np.abs(s_states - t_states[:m + 1]).max())
            pre.append(item)
        res["prefix"] = pre
    except Exception as ex:  # noqa
        res["exc"] = (stage, type(ex).__name__, str(ex)[:120])
    return res


def cls_of(c, sig):
    if sig.startswith("bath-construction"):
        return f"coupling={c['coupling']}|{sig}"
    return (f"{c['system']}|coupling={c['coupling']}|{c['sd']}|mem={c['mem'][0]},add={c['mem'][2]}|start={c['start']}"
            f"|unique={c['unique']}|epsrel={c['epsrel']}|{sig}")


def judge(c, r):
    """list of (cls, what)"""
    out = []
    if "exc" in r:
        stage, name, msg = r["exc"]
        out.append((cls_of(c, f"{stage}|exception:{name}"), f"{stage}: {name}: {msg}"))
        return out
    n = c.get("n", N_STEPS)
    tol = tolerance(c["epsrel"], n)
    if r["dev"] > tol:
        first = int(np.argmax(np.array(r["dev_steps"]) > tol))
        out.append((cls_of(c, "tempo-vs-pt-mismatch"),
                    f"|rho_TEMPO - rho_PT| = {r['dev']:.2e} > {tol:.1e}, first at step {first} (bath moves the state by {r['infl']:.2f})"))
    if r["tdev"] > 1e-12:
        out.append((cls_of(c, "times"), f"time axis off by {r['tdev']:.2e}"))
    for it in r.get("prefix", []):
        m = it["m"]
        if it["same_pt"] > SAME_PT_TOL:
            out.append((cls_of(c, "prefix-of-same-pt-differs"),
                        f"first {m} steps of the {n}-step process tensor differ from the full run by {it['same_pt']:.2e}"))
        if "short_len" in it:
            out.append((cls_of(c, "short-pt-wrong-length"), f"process tensor for {m} steps has {it['short_len']} steps"))
        if it.get("short_vs_long", 0.0) > tol:
            out.append((cls_of(c, "prefix-vs-short-pt-mismatch"),
                        f"first {m} steps of the {n}-step PT vs a PT built for {m} steps: {it['short_vs_long']:.2e} > "
                        f"{tol:.1e}"))
        if it.get("short_vs_tempo", 0.0) > tol:
            out.append((cls_of(c, "short-pt-vs-tempo-mismatch"),
                        f"PT built for {m} steps vs TEMPO: {it['short_vs_tempo']:.2e} > {tol:.1e}"))
    return out


def shards(tier):
    """shard = (system, coupling, sd, unique, mems, starts); all epsrel values run inside (needed together)."""
    mem = memory_settings(N_STEPS)
    out = []
    if tier == "thorough":
        for s, cp, sd, u in itertools.product(SYSTEMS, COUPLINGS, list(SDS), [False, True]):
            out.append((s, cp, sd, u, mem, STARTS))
    else:
        for s, cp, sd, u in itertools.product(["H+L", "H(t)+L(t)"], COUPLINGS, list(SDS), [False, True]):
            out.append((s, cp, sd, u, mem, [1.7]))
        for s, cp, u in itertools.product(["H", "H(t)"], ["sz", "sx", "d3block"], [False, True]):
            out.append((s, cp, "ohmic-exp-T0.5", u, [mem[0], mem[5], mem[6]], [0.0, -0.3]))
    return out


def shard_worker(sh):
    s, cp, sd, u, mems, starts = sh
    out = []
    tstates = {}
    for memset, start, eps in itertools.product(mems, starts, EPSRELS):
        c = {"system": s, "coupling": cp, "sd": sd, "mem": list(memset), "start": start, "unique": u, "epsrel": eps}
        r = run_case(c)
        ts = r.pop("tempo_states", None)
        if ts is not None:
            tstates[(tuple(c["mem"]), start, eps)] = ts
        out.append((c, r))
        if "exc" in r and r["exc"][0] == "bath-construction":
            break                   # same for every member of the shard: one record is enough
    # effect sizes inside the shard (all from TEMPO states at the tightest epsrel)
    eps = EPSRELS[-1]
    for c, r in out:
        if "exc" in r:
            continue
        me = tstates.get((tuple(c["mem"]), c["start"], eps))
        full = tstates.get((("none", None, None), c["start"], eps))
        noadd = tstates.get(((c["mem"][0], c["mem"][1], None), c["start"], eps))
        if me is not None and full is not None:
            r["mem_effect"] = float(np.abs(me - full).max())
        if me is not None and noadd is not None and c["mem"][2] is not None:
            r["add_effect"] = float(np.abs(me - noadd).max())
        others = [tstates.get((tuple(c["mem"]), s2, eps)) for s2 in starts if s2 != c["start"]]
        others = [x for x in others if x is not None]
        if me is not None and others:
            r["start_effect"] = float(min(np.abs(me - x).max() for x in others))
    return out


def canonical_key(c, r):
    label, dkmax, add = c["mem"]
    add_active = dkmax is not None and add is not None and N_STEPS > dkmax + 1
    td = c["system"].startswith("H(t)")
    return (c["system"], c["coupling"], c["sd"], label, dkmax, add if add_active else "inactive",
            c["start"] if td else "any", c["unique"] if r.get("unique_reduces") else "no-degeneracy", c["epsrel"])


# ------------------------------------------------------------------------------------------------
# extra families: (a) the (time step, memory length) lattice, the memory given as dkmax or as the equivalent tcut typed as
# a decimal literal; (b) non-smooth explicit time dependence (pulse edges and a dissipator switched on at times that are
# not on the half-step grid)

LATTICE_DTS = ["0.05", "0.06", "0.1", "0.12", "0.15", "0.2", "0.25", "0.3", "0.35", "0.4", "0.7"]


def lattice_case(args):
    dts, k, how = args
    dt = float(dts)
    n = k + 3
    eps = 1e-8
    bath = oq.Bath(0.5 * M.SZ, C.lib_correlations(C.sd_spec("power", 0.4, 1.0, 3.0, "exponential", 0.5)))
    sysm = oq.System(0.9 * M.SX + 0.2 * M.SZ)
    rho0 = initial_state(2)
    bad = []
    try:
        if how == "dkmax":
            prm = C.make_params(dt, eps, dkmax=k)
        else:
            prm = C.make_params(dt, eps, tcut=float(f"{k * dt:.10g}"))
        if prm.dkmax != k:
            bad.append((f"lattice|memory-as-{how}|parameters-report-dkmax-{'smaller' if prm.dkmax < k else 'larger'}",
                        f"dt={dts} memory {k} steps given as {how}: TempoParameters.dkmax = {prm.dkmax}"))
        _, ts = C.run_tempo(sysm, bath, prm, rho0, 0.0, n, False)
        pt = C.run_pt(bath, prm, 0.0, n, False)
        _, ps = C.run_pt_dynamics(sysm, pt, rho0, 0.0)
        full = C.make_params(dt, eps)
        _, fs = C.run_tempo(sysm, bath, full, rho0, 0.0, n, False)
        # TEMPO propagated in two compute() calls, the first one shorter than the memory length
        t2 = oq.Tempo(sysm, bath, prm, rho0, 0.0)
        t2.compute(1.25 * dt, progress_type="silent")
        cs = np.array(t2.compute((n + 0.25) * dt, progress_type="silent").states)
        cdev = float(np.abs(cs - ps).max()) if cs.shape == ps.shape else 9.9
        if cdev > tolerance(eps, n):
            bad.append((f"lattice|memory-as-{how}|tempo-in-two-calls-vs-pttempo-differ",
                        f"dt={dts} memory {k} steps given as {how}, {n} steps: TEMPO computed as compute(1 step) + compute(rest) "
                        f"and PT-TEMPO differ by {cdev:.2e}"))
    except Exception as ex:  # noqa
        return {"bad": [(f"lattice|memory-as-{how}|exception:{type(ex).__name__}", f"dt={dts} K={k}: {ex}"[:160])], "eff": 0.0}
    dev = float(np.abs(ts - ps).max()) if ts.shape == ps.shape else 9.9
    if dev > tolerance(eps, n):
        bad.append((f"lattice|memory-as-{how}|tempo-vs-pttempo-differ",
                    f"dt={dts} memory {k} steps given as {how}, {n} steps: TEMPO and PT-TEMPO differ by {dev:.2e}"))
    return {"bad": bad, "eff": float(np.abs(ts - fs).max()), "dev": dev}


def pulse_system(d, start, late=False):
    """late: everything is constant during the first two time steps and only then starts to change"""
    h0 = M.generic_herm(d, 1, 0.8)
    h1 = M.generic_herm(d, 2, 0.9)
    lop = np.diag(np.ones(d - 1), 1).astype(complex)
    t_on, t_off, t_g = (0.53, 0.91, 0.67) if late else (0.33, 0.71, 0.47)

    def h(t):
        s_ = t - start
        return h0 + (1.5 * h1 if t_on <= s_ < t_off else 0.0 * h1)
    return oq.TimeDependentSystem(h, gammas=[lambda t: 0.8 if t - start >= t_g else 0.0], lindblad_operators=[lambda t: lop])


def filebacked_case(args):
    """PT-TEMPO writing straight into a (temporary) HDF5 file vs TEMPO"""
    cp, sysk, unique = args
    o = coupling(cp)
    d = o.shape[0]
    n, eps = 4, 1e-8
    bath = oq.Bath(o, C.lib_correlations(SDS["ohmic-exp-T0.5"]))
    sysm = system(sysk, d)
    rho0 = initial_state(d)
    prm = C.make_params(DT, eps)
    pt = None
    try:
        _, ts = C.run_tempo(sysm, bath, prm, rho0, 0.0, n, unique)
        pt = oq.pt_tempo_compute(bath, 0.0, (n + 0.25) * DT, prm, unique=unique, process_tensor_file=True, progress_type="silent")
        _, ps = C.run_pt_dynamics(sysm, pt, rho0, 0.0)
    except Exception as ex:  # noqa
        return {"bad": [(f"file-backed|{cp}|exception:{type(ex).__name__}", str(ex)[:160])]}
    finally:
        if pt is not None:
            try:
                pt.remove()
            except Exception:  # noqa
                pass
    dev = float(np.abs(ts - ps).max()) if ts.shape == ps.shape else 9.9
    bad = []
    if dev > tolerance(eps, n):
        bad.append((f"file-backed|{cp}|tempo-vs-pttempo-differ", f"{cp} {sysk} unique={unique}: file-backed PT-TEMPO and TEMPO differ by {dev:.2e}"))
    return {"bad": bad, "dev": dev}


def revival_case(args):
    """a bath whose correlation function is negligible at short distances and comes back later (gap / delayed
    feedback), given as CustomCorrelations; TEMPO with full memory vs PT-TEMPO and vs TEMPO with dkmax = number of steps"""
    cp, delay, eps = args
    o = coupling(cp)
    d = o.shape[0]
    n, dt = 12, 0.1
    corr = oq.CustomCorrelations(lambda t: 6.0 * np.exp(-((t - delay) / 0.08) ** 2) * np.exp(-0.7j * t))
    bath = oq.Bath(o, corr)
    sysm = system("H", d)
    rho0 = initial_state(d)
    bad = []
    try:
        prm = C.make_params(dt, eps)
        _, ts = C.run_tempo(sysm, bath, prm, rho0, 0.0, n, False)
        pt = C.run_pt(bath, prm, 0.0, n, False)
        _, ps = C.run_pt_dynamics(sysm, pt, rho0, 0.0)
        _, ks = C.run_tempo(sysm, bath, C.make_params(dt, eps, dkmax=n), rho0, 0.0, n, False)
        _, fs = C.run_pt_dynamics(sysm, None, rho0, 0.0, num_steps=n, dt=dt)
    except Exception as ex:  # noqa
        return {"bad": [(f"revival|{cp}|exception:{type(ex).__name__}", str(ex)[:160])], "eff": 0.0}
    for name, other in (("pttempo", ps), ("tempo-with-dkmax=n", ks)):
        dev = float(np.abs(ts - other).max()) if ts.shape == other.shape else 9.9
        if dev > tolerance(eps, n):
            bad.append((f"revival|{cp}|tempo(full-memory)-vs-{name}-differ",
                        f"{cp}: correlation function revives at t={delay}: TEMPO with dkmax=None and {name} differ by {dev:.2e}"))
    return {"bad": bad, "eff": float(np.abs(ts - fs).max())}


def pulse_case(args):
    cp, start, k, eps = args[:4]
    late = bool(args[4]) if len(args) > 4 else False
    sampled = bool(args[5]) if len(args) > 5 else False       # subdiv_limit=None in both routes (sampled propagators)
    skw = {"subdiv_limit": None} if sampled else {}
    o = coupling(cp)
    d = o.shape[0]
    n = N_STEPS
    bath = oq.Bath(o, C.lib_correlations(SDS["ohmic-exp-T0.5"]))
    rho0 = initial_state(d)
    sysm = pulse_system(d, start, late)
    prm = C.make_params(DT, eps, dkmax=k, **skw)
    try:
        _, ts = C.run_tempo(sysm, bath, prm, rho0, start, n, False)
        pt = C.run_pt(bath, prm, start, n, False)
        _, ps = C.run_pt_dynamics(sysm, pt, rho0, start, **skw)
        smooth = oq.TimeDependentSystem(lambda t: M.generic_herm(d, 1, 0.8))
        _, ss = C.run_tempo(smooth, bath, prm, rho0, start, n, False)
    except Exception as ex:  # noqa
        return {"bad": [(f"pulse|{cp}|exception:{type(ex).__name__}", str(ex)[:160])], "eff": 0.0}
    dev = float(np.abs(ts - ps).max())
    bad = []
    if dev > tolerance(eps, n):
        bad.append((f"pulse|{cp}|{'sampled-propagators|' if sampled else ''}{'constant-during-the-first-two-steps|' if late else ''}tempo-vs-pttempo-differ",
                    f"H(t), gamma(t) with steps off the half-step grid, start={start} dkmax={k} epsrel={eps} late={late}: "
                    f"differ by {dev:.2e}"))
    return {"bad": bad, "eff": float(np.abs(ts - ss).max()), "dev": dev}


def run(tier, seed):
    rep = Report(LEVEL)
    lj = [(dts, k, how) for dts in LATTICE_DTS for k in range(1, 7 if tier == "quick" else 13) for how in ("dkmax", "tcut")]
    lres = pmap(lattice_case, lj, seed=seed)
    for j, r in zip(lj, lres):
        for cls, what in r["bad"]:
            rep.add(Violation(cls, what, {"family": "lattice", "args": list(j)}))
    pj = [(cp, st, k, e, late, False) for cp in ("sz", "sx", "d3block") for st in (0.0, -0.3, 1.7) for k in (None, 2) for e in EPSRELS
          for late in (False, True)]
    pj += [(cp, st, 2, EPSRELS[-1], late, True) for cp in ("sz", "sx") for st in (0.0, 1.7) for late in (False, True)]
    pres = pmap(pulse_case, pj, seed=seed)
    for j, r in zip(pj, pres):
        for cls, what in r["bad"]:
            rep.add(Violation(cls, what, {"family": "pulse", "args": list(j)}))
    fj = [(cp, sk, u) for cp in COUPLINGS + ["d2complex"] for sk in ("H", "H(t)+L(t)") for u in (False, True)]
    for j, r in zip(fj, pmap(filebacked_case, fj, seed=seed)):
        for cls, what in r["bad"]:
            rep.add(Violation(cls, what, {"family": "filebacked", "args": list(j)}))
    vj = [(cp, dl, e) for cp in ("sz", "sx") for dl in (0.6, 0.85) for e in EPSRELS]
    vres = pmap(revival_case, vj, seed=seed)
    for j, r in zip(vj, vres):
        for cls, what in r["bad"]:
            rep.add(Violation(cls, what, {"family": "revival", "args": list(j)}))
    extra_cov = {"revival_cases": {"cases": len(vj), "min_bath_effect": min(r["eff"] for r in vres)}, "file_backed_cases": len(fj), "memory_lattice": {"dt": LATTICE_DTS, "steps": [1, 6 if tier == "quick" else 12], "given_as": ["dkmax", "tcut"],
                                    "cases": len(lj), "min_memory_cutoff_effect": min(r["eff"] for r in lres),
                                    "max_dev": max(r.get("dev", 0.0) for r in lres if not r["bad"]) if any(not r["bad"] for r in lres) else None},
                 "pulse_family": {"cases": len(pj), "min_pulse_effect": min(r["eff"] for r in pres),
                                  "max_dev_over_tol": max((r.get("dev", 0.0) / tolerance(j[3], N_STEPS)) for j, r in zip(pj, pres)), "sampled_cases": 8}}
    shs = shards(tier)
    res = pmap(shard_worker, shs, chunksize=1, seed=seed)
    keys = set()
    evaluations = 0
    maxdev = {e: 0.0 for e in EPSRELS}
    maxpre = {e: 0.0 for e in EPSRELS}
    maxsame = 0.0
    maxratio = 0.0
    min_infl = 1e9
    mem_active = add_active = start_active = 0
    min_mem = min_add = min_start = 1e9
    nstates = 0
    phys = [0.0, 0.0, 1.0]
    trivial = 0
    pts_built = 0
    samples = []
    for sh in res:
        for c, r in sh:
            evaluations += 1
            for cls, what in judge(c, r):
                rep.add(Violation(cls, what, dict(c)))
            if "exc" in r:
                continue
            n = N_STEPS
            tol = tolerance(c["epsrel"], n)
            if len(samples) < 3 and evaluations % 131 == 1:
                samples.append({"case": dict(c), "dev": r["dev"], "tol": tol, "influence": r["infl"],
                                "prefix": r["prefix"][:2]})
            nstates += 2 * (n + 1)
            pts_built += 1 + sum(1 for it in r["prefix"] if it["m"] >= 2)
            phys = [max(phys[0], r["phys"][0]), max(phys[1], r["phys"][1]), min(phys[2], r["phys"][2])]
            if r["dev"] <= tol:
                maxdev[c["epsrel"]] = max(maxdev[c["epsrel"]], r["dev"])
                maxratio = max(maxratio, r["dev"] / tol)
            for it in r["prefix"]:
                maxsame = max(maxsame, it["same_pt"]) if it["same_pt"] <= SAME_PT_TOL else maxsame
                for k in ("short_vs_long", "short_vs_tempo"):
                    if k in it and it[k] <= tol:
                        maxpre[c["epsrel"]] = max(maxpre[c["epsrel"]], it[k])
                        maxratio = max(maxratio, it[k] / tol)
            if r["infl"] > MIN_INFLUENCE:
                keys.add(canonical_key(c, r))
                min_infl = min(min_infl, r["infl"])
            else:
                trivial += 1
            big = 100 * tolerance(EPSRELS[-1], n)
            if c["mem"][1] is not None and c["mem"][1] < n and r.get("mem_effect", 0) > big:
                mem_active += 1
                min_mem = min(min_mem, r["mem_effect"])
            if r.get("add_effect", 0) > big:
                add_active += 1
                min_add = min(min_add, r["add_effect"])
            if c["system"].startswith("H(t)") and r.get("start_effect", 0) > big:
                start_active += 1
                min_start = min(min_start, r["start_effect"])
    rep.coverage = {
        "evaluations": evaluations + len(lj) + len(pj),
        "distinct_nontrivial": len(keys) + len(lj) + len(pj),
        "extra_families": extra_cov,
        "trivial_or_inactive": trivial,
        "process_tensors_built": pts_built,
        "rule": "shards = (system, coupling, spectral density, unique), each running memory settings x start times x epsrel; "
                "thorough = full product of 4 systems x 4 couplings x 2 spectral densities x 9 memory settings (dkmax None; 1, 2 "
                "with add_correlation_time None/0/1.5dt/inf; n+2 with None/0) x start{0,-0.3,1.7} x unique{F,T} x epsrel{1e-5,1e-8}; quick = "
                "{H+L, H(t)+L(t)} x 4 couplings x 2 sd x 9 memory x start 1.7 x unique x epsrel plus {H, H(t)} x 3 couplings x 3 memory x "
                "start{0,-0.3} x unique x epsrel. Per member: every step of TEMPO vs PT-TEMPO+compute_dynamics, and for every "
                f"n' = 1..{N_STEPS - 1} the first n' steps of the long PT vs the full run, vs a PT built for n' steps (n' >= 2), vs TEMPO. "
                f"non-trivial: TEMPO state differs from the bath-free evolution by > {MIN_INFLUENCE}; distinct by canonical key "
                "(inactive add_correlation_time, start time of constant systems and unique without degeneracy collapse)",
        "samples": samples,
        "exhaustive": True,
        "max_dev": max(maxdev.values()), "max_dev_by_epsrel": {str(k): v for k, v in maxdev.items()},
        "max_prefix_dev_by_epsrel": {str(k): v for k, v in maxpre.items()},
        "max_same_pt_prefix_dev": maxsame,
        "tolerance": tolerance(EPSRELS[0], N_STEPS), "tolerance_rule": f"{CTOL}*epsrel*n at epsrel in {EPSRELS}",
        "tolerance_by_epsrel": {str(e): tolerance(e, N_STEPS) for e in EPSRELS},
        "max_dev_over_tol": maxratio,
        "min_environment_influence": min_infl,
        "memory_cutoff_active_cases": mem_active, "min_memory_cutoff_effect": min_mem,
        "add_correlation_time_active_cases": add_active, "min_add_correlation_time_effect": min_add,
        "start_time_active_cases": start_active, "min_start_time_effect": min_start,
        "monitored_states": nstates,
        "physicality_monitor": {"max_trace_dev": phys[0], "max_nonhermiticity": phys[1], "min_eigenvalue": phys[2]},
    }
    rep.assumptions = [
        "differential oracle: no reference data; both methods get identical Bath, system, parameters, start time",
        "both methods obtain system propagators from the same system.get_propagators; an error inside it is common-mode and is "
        "covered by C03 (compute_dynamics vs first-principles simulation) and by the H(t) members of C01's finite-mode family",
        "parameter values outside the alphabets are not covered (DESIGN sec. 7)",
    ]
    return rep


def replay(rp):
    if rp.get("family") in ("lattice", "pulse", "filebacked", "revival"):
        a = rp["args"]
        r = {"lattice": lattice_case, "pulse": pulse_case, "filebacked": filebacked_case, "revival": revival_case}[rp["family"]](tuple(a))
        return {"obs": [b[0] for b in r["bad"]], "violation": r["bad"][0][0] if r["bad"] else None}
    c = dict(rp)
    c["mem"] = list(c["mem"])
    r = run_case(c)
    r.pop("tempo_states", None)
    bad = judge(c, r)
    if "exc" in r:
        obs = list(r["exc"][:2])
    else:
        n = c.get("n", N_STEPS)
        obs = {"tempo_vs_pt": C.ratio_class(r["dev"] / tolerance(c["epsrel"], n)),
               "prefix": [[it["m"], it["same_pt"] <= SAME_PT_TOL] +
                          [C.ratio_class(it.get(k, 0.0) / tolerance(c["epsrel"], n)) for k in
                           ("short_vs_long", "short_vs_tempo")] for it in r["prefix"]],
               "signatures": sorted({b[0].rsplit("|", 1)[1] for b in bad})}
    return {"obs": obs, "violation": bad[0][0] if bad else None}
