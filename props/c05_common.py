"""Shared set-up for C05 (basis covariance) and C06 (unique on/off): structured unitaries, systems in an
arbitrary basis, and one runner per method (TEMPO, PT-TEMPO + compute_dynamics, MeanFieldTempo).

Everything here is deterministic (no random numbers).  A "case" is always described in the eigenbasis of
the coupling operator (O = diag(ev)) and then written in the basis V:  X -> V X V^dagger for every
operator, state, Lindblad operator and for the operator entering the field equation of motion."""
import itertools

import numpy as np
import scipy.linalg as sl

from mc.common import bind_repo
from . import models as M

oq = bind_repo()

DT = 0.2
N = 5
START = 0.0
END = START + (N + 0.4) * DT      # safely between grid points N and N+1
FIELD0 = 0.5 + 0.2j

# memory settings: name -> (dkmax, add_correlation_time)
MEMORY = {"full": (None, None), "dk2": (2, None), "dk2+add": (2, 0.3)}


# ------------------------------------------------------------------------------------------------
# unitaries (structured and generic; all fixed)

def u_identity(d):
    return np.eye(d, dtype=complex)


def u_perm(d):
    """cyclic shift: keeps a diagonal operator diagonal but reorders its eigenvalues"""
    return np.roll(np.eye(d), 1, axis=0).astype(complex)


def u_rot(d):
    """real rotation: expm of a real antisymmetric generator, angle 0.3 between neighbouring levels"""
    a = np.zeros((d, d))
    for i in range(d):
        for j in range(i + 1, d):
            a[i, j] = 0.3 * (1 + 0.1 * (i + j)) / (j - i)
            a[j, i] = -a[i, j]
    return sl.expm(a).astype(complex)


def u_givens(d):
    """complex Givens rotation between the first and the last level only (sparse, block structured)"""
    u = np.eye(d, dtype=complex)
    c, s, ph = np.cos(0.7), np.sin(0.7), np.exp(0.4j)
    u[0, 0], u[0, d - 1], u[d - 1, 0], u[d - 1, d - 1] = c, -s * ph, s * np.conj(ph), c
    return u


def u_dft(d):
    k = np.arange(d)
    return np.exp(2j * np.pi * np.outer(k, k) / d) / np.sqrt(d)


def u_gen1(d):
    return M.generic_unitary(d, 1)


def u_gen2(d):
    return M.generic_unitary(d, 4)


UNITARIES = {"id": u_identity, "perm": u_perm, "rot": u_rot, "givens": u_givens, "dft": u_dft, "gen1": u_gen1,
             "gen2": u_gen2}
UNITARY_ORDER = ["id", "perm", "rot", "givens", "dft", "gen1", "gen2"]


def conj(v, x):
    return v @ x @ v.conj().T


def coupling(ev, v, scale=1.0):
    """V diag(ev) V^dagger, made exactly Hermitian"""
    o = (v * (scale * np.asarray(ev, dtype=float))) @ v.conj().T
    return (o + o.conj().T) / 2


def correlations():
    return oq.PowerLawSD(alpha=0.5, zeta=1.0, cutoff=3.0, cutoff_type="exponential", temperature=0.5)


def parameters(mem, eps, subdiv="default"):
    dkmax, add = MEMORY[mem]
    kw = {}
    if subdiv is None:
        kw["subdiv_limit"] = None
    return oq.TempoParameters(dt=DT, epsrel=eps, dkmax=dkmax, add_correlation_time=add, **kw)


# ------------------------------------------------------------------------------------------------
# systems and states, written in the basis V

def _ops(d):
    h0 = M.generic_herm(d, 1, 0.8)
    h1 = M.generic_herm(d, 2, 0.5)
    h2 = M.generic_herm(d, 3, 0.4)
    lop = np.diag(np.ones(d - 1), 1).astype(complex)
    bop = lop + 0.3 * M.generic_herm(d, 4, 1.0)       # non-Hermitian operator of the field equation
    return h0, h1, h2, lop, bop


def system(kind, d, v):
    h0, h1, h2, lop, _b = (conj(v, x) for x in _ops(d))
    if kind == "H":
        return oq.System(h0)
    if kind == "H+L":
        return oq.System(h0, gammas=[0.3, 0.1], lindblad_operators=[lop, h1])
    if kind == "H(t)":
        return oq.TimeDependentSystem(lambda t: h0 + np.cos(0.9 * t) * h1 + 0.5 * t * h2,
                                      gammas=[lambda t: 0.2 + 0.1 * t],
                                      lindblad_operators=[lambda t: lop + 0.2 * t * h2])
    raise ValueError(kind)


def state(kind, d, v):
    if kind == "mixed":
        return conj(v, M.generic_state(d, 2))
    if kind == "pure":
        return conj(v, M.generic_state(d, 3, pure=True))
    raise ValueError(kind)


def mean_field_system(kind, d, v):
    h0, h1, h2, lop, bop = (conj(v, x) for x in _ops(d))
    if kind == "mfA":
        s = oq.TimeDependentSystemWithField(
            lambda t, a: h0 + np.real(a) * h1 + (0.5 * np.imag(a) + 0.2 * np.cos(t)) * h2,
            gammas=[lambda t: 0.1 + 0.02 * t], lindblad_operators=[lambda t: lop])

        def eom(t, st, a):
            return -0.3 * a - 0.2j * np.trace(bop @ st[0]) + 0.1 * t
    elif kind == "mfB":      # no dissipator, field enters through a non-Hermitian-looking combination
        s = oq.TimeDependentSystemWithField(lambda t, a: h0 + (a * bop + np.conj(a) * bop.conj().T) * 0.5)

        def eom(t, st, a):
            return -(0.1 + 0.4j) * a - 0.5j * np.trace(bop.conj().T @ st[0])
    else:
        raise ValueError(kind)
    return oq.MeanFieldSystem([s], eom)


SYSTEMS = ["H", "H+L", "H(t)"]
MF_SYSTEMS = ["mfA", "mfB"]
STATES = ["mixed", "pure"]


# ------------------------------------------------------------------------------------------------
# LAPACK's divide-and-conquer SVD (gesdd, used by numpy.linalg.svd inside tensornetwork) occasionally fails with
# "SVD did not converge" on the highly rank-deficient matrices that degenerate coupling operators produce with
# unique=False.  The failure depends on last-bit differences of the input (memory alignment of BLAS calls): the very
# same call fails in ~1 of 4 executions (measured: d=4, eigenvalues (2,2,2,-1), MeanFieldTempo; no NaN/inf in the
# matrix, gesvd converges).  It is not the subject of C05/C06, so such a failure is retried (with a changed heap
# layout); only a failure that persists SVD_RETRIES times is handed on as an exception.

SVD_RETRIES = 8
RETRIES = {"n": 0}
_JUNK = []


def robust(fn, *args, **kw):
    for k in range(SVD_RETRIES + 1):
        try:
            return fn(*args, **kw)
        except np.linalg.LinAlgError as ex:
            if "SVD did not converge" not in str(ex) or k == SVD_RETRIES:
                raise
            RETRIES["n"] += 1
            _JUNK.append(np.empty(4099 * (k + 1) + 17))


def take_retries():
    n = RETRIES["n"]
    RETRIES["n"] = 0
    return n


# ------------------------------------------------------------------------------------------------
# runners: every one returns {"times", "states" (N+1, d, d) in the basis V, "fields" or None}

def run_tempo(*args):
    return robust(_run_tempo, *args)


def build_pt(*args):
    return robust(_build_pt, *args)


def run_mf(*args):
    return robust(_run_mf, *args)


def _run_tempo(op, d, v, syskind, statekind, mem, unique, eps, subdiv="default"):
    bath = oq.Bath(op, correlations())
    t = oq.Tempo(system(syskind, d, v), bath, parameters(mem, eps, subdiv), state(statekind, d, v), START, unique=unique)
    dyn = t.compute(END, progress_type="silent")
    return {"times": np.array(dyn.times), "states": np.array(dyn.states), "fields": None}


def _build_pt(op, mem, unique, eps, file_backed=False):
    bath = oq.Bath(op, correlations())
    kw = {"process_tensor_file": True} if file_backed else {}       # True: PT-TEMPO writes into a temporary HDF5 file
    return oq.pt_tempo_compute(bath, START, END, parameters(mem, eps), unique=unique, progress_type="silent", **kw)


def run_pt(pt, d, v, syskind, statekind, subdiv="default"):
    kw = {"subdiv_limit": None} if subdiv is None else {}
    dyn = oq.compute_dynamics(system(syskind, d, v), state(statekind, d, v), process_tensor=pt, start_time=START,
                              progress_type="silent", **kw)
    return {"times": np.array(dyn.times), "states": np.array(dyn.states), "fields": None}


def _run_mf(op, d, v, syskind, statekind, mem, unique, eps, subdiv="default"):
    bath = oq.Bath(op, correlations())
    t = oq.MeanFieldTempo(mean_field_system(syskind, d, v), [bath], parameters(mem, eps, subdiv), [state(statekind, d, v)],
                          FIELD0, start_time=START, unique=unique)
    dyn = t.compute(END, progress_type="silent")
    return {"times": np.array(dyn.times), "states": np.array(dyn.system_dynamics[0].states),
            "fields": np.array(dyn.fields)}


_FREE = {}


def free_states(d, syskind, statekind, subdiv="default"):
    """Evolution without any influence of the bath, in the eigenbasis (vacuity guard only, never an oracle); cached per
    worker.  Mean-field systems: MeanFieldTempo with a vanishing coupling operator (same integrator as the case)."""
    key = (d, syskind, statekind, subdiv)
    if key not in _FREE:
        v = np.eye(d, dtype=complex)
        if syskind in MF_SYSTEMS:
            _FREE[key] = run_mf(np.zeros((d, d), dtype=complex), d, v, syskind, statekind, "dk2", True, 1e-6,
                                subdiv)["states"]
        else:
            kw = {"subdiv_limit": None} if subdiv is None else {}
            dyn = oq.compute_dynamics(system(syskind, d, v), state(statekind, d, v), dt=DT, num_steps=N,
                                      start_time=START, progress_type="silent", **kw)
            _FREE[key] = np.array(dyn.states)
    return _FREE[key]


def back_rotate(states, v):
    """V^dagger rho V for every step"""
    return np.einsum("ji,tjk,kl->til", v.conj(), states, v)


def multisets(alphabet, sizes):
    """all multisets (sorted tuples), simplest first"""
    out = []
    for d in sizes:
        out += list(itertools.combinations_with_replacement(alphabet, d))
    return out


def exc_name(ex):
    return type(ex).__name__
