"""C16  Process tensors survive export, import and file-backed computation unchanged.

Model checking of the export/import lifecycle: for every process tensor of a small alphabet, every valid history
over {export, import as file, import as simple, close} up to depth 4/5 is executed on the real objects; after
every import the re-imported object is compared with the original (metadata, every MPO and cap tensor bitwise,
bond dimensions) and at the end of each history every consumer (compute_dynamics, compute_correlations,
state_gradient, PtTebd) must give results identical to the original's.  File-backed PT-TEMPO runs are compared
with in-memory runs through gauge-invariant quantities.
"""
import itertools
import os
import shutil
import tempfile
import warnings

import numpy as np

from mc.common import Report, Violation, pmap, bind_repo
from mc import refmodel as R
from mc import ancilla as A
from . import models as M

oq = bind_repo()
LEVEL = "model_checking"
DT = 0.2


def pt_alphabet():
    out = []
    for n in (1, 2, 4):
        for kind, e, tr in (("rank4", 2, False), ("rank4", 3, True), ("rank3", 2, True), ("rank3", 3, False)):
            for dt in (DT, None):
                out.append(("hand", kind, e, tr, n, dt))
    out.append(("hand", "rank4-readout-caps", 2, False, 3, DT))
    out.append(("hand", "rank4-readout-caps", 3, True, 2, None))
    out.append(("hand", "rank4-nocaps", 3, False, 3, DT))         # exported before any cap tensor was set
    out.append(("hand", "rank4-lastcap", 2, True, 4, DT))         # only the cap of the last step is set
    out.append(("hand", "rank4-in-only", 2, True, 2, DT))       # exactly one of the two optional transforms is set
    out.append(("hand", "rank4-out-only", 3, True, 3, DT))
    out.append(("pttempo", "diag", None, None, 4, DT))
    out.append(("pttempo", "nondiag", None, None, 3, DT))
    out.append(("pttempo", "nondiag-complex", None, None, 3, DT))
    return out


def build(spec):
    fam, kind, e, tr, n, dt = spec
    if fam == "hand":
        d = 2
        v = M.generic_unitary(d, 4) if tr else None
        sigma = np.diag(np.arange(1, e + 1) / np.arange(1, e + 1).sum()).astype(complex)
        if kind == "rank4":
            ks = [[R.random_free_unitary(d * e, 30 + k)] for k in range(n)]
            return A.build_pt(d, e, sigma, ks, dt=dt, basis_v=v, name="hand made", description="rank-4 ancilla PT")
        if kind in ("rank4-nocaps", "rank4-lastcap"):
            from oqupy.process_tensor import SimpleProcessTensor
            ks = [[R.random_free_unitary(d * e, 30 + k)] for k in range(n)]
            full = A.build_pt(d, e, sigma, ks, dt=dt, basis_v=v)
            part = SimpleProcessTensor(hilbert_space_dimension=d, dt=dt, transform_in=full.transform_in,
                                       transform_out=full.transform_out, name="partial caps", description=kind)
            for k in range(n):
                part.set_mpo_tensor(k, full.get_mpo_tensor(k, transformed=False))
            if kind == "rank4-lastcap":
                part.set_cap_tensor(n, full.get_cap_tensor(n))
            return part
        if kind in ("rank4-in-only", "rank4-out-only"):
            from oqupy.process_tensor import SimpleProcessTensor
            ks = [[R.random_free_unitary(d * e, 30 + k)] for k in range(n)]
            full = A.build_pt(d, e, sigma, ks, dt=dt, basis_v=v)
            one = SimpleProcessTensor(hilbert_space_dimension=d, dt=dt,
                                      transform_in=full.transform_in if kind == "rank4-in-only" else None,
                                      transform_out=full.transform_out if kind == "rank4-out-only" else None,
                                      name="one transform", description=kind)
            for k in range(n):
                one.set_mpo_tensor(k, full.get_mpo_tensor(k, transformed=False))
            for k in range(n + 1):
                one.set_cap_tensor(k, full.get_cap_tensor(k))
            return one
        if kind == "rank4-readout-caps":
            ks = [[R.random_free_unitary(d * e, 30 + k)] for k in range(n)]
            ro = np.diag(np.arange(1, e + 1, dtype=float)).astype(complex) + 0.2 * (np.ones((e, e)) - np.eye(e))
            return A.build_pt(d, e, sigma, ks, dt=dt, basis_v=v, name="read-out", description="caps read the ancilla out",
                              cap_op=ro)
        us = [[R.random_free_unitary(e, 50 + 10 * k + t) for t in range(d)] for k in range(n)]
        return A.build_pt(d, e, sigma, None, dt=dt, rank3_us=us, basis_v=v, caps="computed", name="hand made 3")
    op = {"diag": 0.5 * M.SZ, "nondiag": 0.5 * M.SX, "nondiag-complex": 0.5 * M.SY + 0.2 * M.SX}[kind]
    bath = oq.Bath(op, M.ohmic(alpha=0.3, temperature=0.3))
    return oq.pt_tempo_compute(bath, 0.0, (n + 0.4) * DT, oq.TempoParameters(dt=DT, epsrel=1e-7), progress_type="silent",
                               name="pt " + kind, description="from pt_tempo_compute")


def meta(pt):
    return {"len": len(pt), "dt": pt.dt, "dim": pt.hilbert_space_dimension, "name": pt.name, "description": pt.description}


def expand3(t):
    if t.ndim == 4:
        return t
    out = np.zeros(t.shape + (t.shape[2],), dtype=t.dtype)
    for i in range(t.shape[2]):
        out[:, :, i, i] = t[:, :, i]
    return out


def compare_pt(orig, imp):
    """-> None or signature"""
    mo, mi = meta(orig), meta(imp)
    for k in mo:
        if mo[k] != mi[k]:
            return f"meta:{k}"
    for a, b, nm in ((orig.transform_in, imp.transform_in, "transform_in"), (orig.transform_out, imp.transform_out, "transform_out")):
        if (a is None) != (b is None) or (a is not None and not np.array_equal(a, b)):
            return nm
    if not np.array_equal(orig.get_bond_dimensions(), imp.get_bond_dimensions()):
        return "bond-dimensions"
    n = len(orig)
    for k in range(n):
        for tr in (False, True):
            x, y = orig.get_mpo_tensor(k, transformed=tr), imp.get_mpo_tensor(k, transformed=tr)
            if not tr and x.ndim != y.ndim:
                # a rank-3 tensor and its explicit delta expansion are the same MPO tensor
                x, y = expand3(x), expand3(y)
            if x.shape != y.shape or not np.array_equal(x, y):
                if tr and x.shape == y.shape and np.allclose(x, y, atol=1e-13):
                    continue
                return f"mpo-tensor(transformed={tr})"
    for k in range(n + 1):
        x, y = orig.get_cap_tensor(k), imp.get_cap_tensor(k)
        if (x is None) != (y is None) or (x is not None and not np.array_equal(x, y)):
            return "cap-tensor"
    if imp.get_cap_tensor(n + 1) is not None:
        return "extra-cap"
    it = imp.get_initial_tensor()
    if it is not None:
        return "initial-tensor-not-None"
    return None


def consumers(pt, dt):
    """Results of every consumer as a dict name -> array; exceptions recorded by name."""
    out = {}
    d = pt.hilbert_space_dimension
    sysm = oq.System(0.5 * M.SX + 0.2 * M.SZ)
    kw = {} if pt.dt is not None else {"dt": DT}

    def guard(name, f):
        try:
            with warnings.catch_warnings():
                warnings.simplefilter("ignore")
                out[name] = f()
        except Exception as ex:  # noqa
            out[name] = f"exception:{type(ex).__name__}"

    guard("compute_dynamics", lambda: np.array(oq.compute_dynamics(sysm, M.RHO_GEN2, process_tensor=pt,
                                                                   progress_type="silent", **kw).states))
    guard("compute_correlations", lambda: oq.compute_correlations(sysm, pt, M.SZ, M.SX, [0, len(pt)], slice(None),
                                                                  initial_state=M.RHO_GEN2, start_time=0.0,
                                                                  progress_type="silent", **kw)[1])
    if pt.dt is not None:
        psys = oq.ParameterizedSystem(hamiltonian=lambda x: 0.5 * x * M.SX + 0.2 * M.SZ)
        xs = np.linspace(0.5, 1.5, 2 * len(pt)).reshape(-1, 1)
        from oqupy.gradient import state_gradient
        guard("state_gradient", lambda: state_gradient(psys, M.RHO_GEN2, M.RHO_PLUS.T.copy(), [pt], xs,
                                                       progress_type="silent")["gradient"])

        def tebd():
            chain = oq.SystemChain(hilbert_space_dimensions=[2, 2])
            chain.add_site_hamiltonian(site=0, hamiltonian=0.5 * M.SX)
            chain.add_nn_hamiltonian(site=0, hamiltonian_l=0.3 * M.SZ, hamiltonian_r=M.SZ)
            t = oq.PtTebd(oq.AugmentedMPS([M.RHO_GEN2, M.RHO_PLUS]), chain, [pt, None],
                          oq.PtTebdParameters(dt=pt.dt, order=2, epsrel=1e-9), dynamics_sites=[0, 1])
            r = t.compute(len(pt), progress_type="silent")
            return np.array([np.asarray(r["dynamics"][0].states), np.asarray(r["dynamics"][1].states)])
        guard("PtTebd", tebd)
    return out


def histories(depth):
    """Valid op sequences. State: ('S' simple in memory | 'F' open file obj | 'Fc' closed file obj, have_file)."""
    out = []

    def rec(hist, cur, have):
        if hist:
            out.append(tuple(hist))
        if len(hist) == depth:
            return
        if cur == "S":
            rec(hist + ["E"], "S", True)
        if have:
            rec(hist + ["IF"], "F", True)
            rec(hist + ["IS"], "S", True)
        if cur == "F":
            rec(hist + ["C"], "Fc", True)
    rec([], "S", False)
    return [h for h in out if any(o in ("IF", "IS") for o in h)]


def run_case(args):
    spec, hist = args
    tmp = tempfile.mkdtemp(prefix="c16_", dir=os.environ.get("VERIF_TMP", "/dev/shm" if os.path.isdir("/dev/shm") else None))
    vio = []
    nops = 0
    opened = []
    try:
        orig = build(spec)
        ref_cons = consumers(orig, spec[5])
        cur = orig
        nfile = 0
        fname = None
        last_imp = None
        for i, op in enumerate(hist):
            try:
                if op == "E":
                    nfile += 1
                    fname = os.path.join(tmp, f"pt{nfile}.hdf5")
                    cur.export(fname)
                elif op in ("IF", "IS"):
                    with warnings.catch_warnings(record=True) as wl:
                        warnings.simplefilter("always")
                        cur = oq.import_process_tensor(fname, "file" if op == "IF" else "simple")
                    if op == "IF":
                        opened.append(cur)
                    if any("corrupt" in str(w.message) for w in wl):
                        vio.append((f"{spec[0]}-{spec[1]}|{op}|corrupt-warning-on-clean-file", f"history {hist}"))
                    sig = compare_pt(orig, cur)
                    last_imp = op
                    if sig:
                        vio.append((f"{spec[0]}-{spec[1]}|{op}|{sig}", f"spec {spec} history {hist}: re-imported object differs: {sig}"))
                        break
                elif op == "C":
                    cur.close()
            except Exception as ex:  # noqa
                vio.append((f"{spec[0]}-{spec[1]}|{op}|exception:{type(ex).__name__}", f"spec {spec} history {hist} op {i}: {ex}"[:200]))
                break
            nops += 1
        if not vio and hist[-1] != "C":
            cons = consumers(cur, spec[5])
            for name, val in ref_cons.items():
                got = cons.get(name)
                if isinstance(val, str):
                    continue      # the original itself cannot be consumed this way: nothing to compare
                if isinstance(got, str):
                    vio.append((f"{spec[0]}-{spec[1]}|after-{last_imp}|{name}:{got}", f"spec {spec} history {hist}: {name} fails on the import"))
                elif np.shape(got) != np.shape(val) or not np.allclose(got, val, atol=1e-13, rtol=0, equal_nan=True):
                    vio.append((f"{spec[0]}-{spec[1]}|after-{last_imp}|{name}:differs", f"spec {spec} history {hist}"))
            nops += len(ref_cons)
    finally:
        for o in opened:
            try:
                o.close()
            except Exception:  # noqa
                pass
        shutil.rmtree(tmp, ignore_errors=True)
    return {"vio": vio, "nops": nops}


def path_reuse_case(args):
    """The same file NAME is used for two different process tensors one after the other (overwrite=True): every import
    must show the content that is on disk now."""
    ia, ib = args
    specs = pt_alphabet()
    a, b = build(specs[ia]), build(specs[ib])
    tmp = tempfile.mkdtemp(prefix="c16p_")
    fn = os.path.join(tmp, "same_name.hdf5")
    vio = []
    try:
        a.export(fn)
        for typ in ("file", "simple"):
            p_ = oq.import_process_tensor(fn, typ)
            [p_.get_mpo_tensor(k) for k in range(len(p_))]
            [p_.get_mpo_tensor(k, transformed=False) for k in range(len(p_))]
            [p_.get_cap_tensor(k) for k in range(len(p_) + 1)]
            if typ == "file":
                p_.close()
        b.export(fn, overwrite=True)
        for typ in ("file", "simple"):
            p_ = oq.import_process_tensor(fn, typ)
            sig = compare_pt(b, p_)
            if sig:
                vio.append((f"path-reuse|import-{typ}|{sig}", f"{specs[ia]} then {specs[ib]} exported to the same file name: "
                                                           f"the import shows {sig} not of the file's current content"))
            if typ == "file":
                p_.close()
    except Exception as ex:  # noqa
        vio.append((f"path-reuse|exception:{type(ex).__name__}", str(ex)[:150]))
    finally:
        shutil.rmtree(tmp, ignore_errors=True)
    return {"vio": vio}


def rename_case(args):
    """name / description assigned AFTER creation (any word over {N, D} up to length 3), on the three kinds of object a
    process tensor can be written from: a SimpleProcessTensor that is exported afterwards, a FileProcessTensor opened
    in write mode (filled before or after the assignments), and the file-backed result of pt_tempo_compute."""
    creator, word = args
    from oqupy.process_tensor import FileProcessTensor
    src = build(("hand", "rank4", 2, True, 2, DT))
    tmp = tempfile.mkdtemp(prefix="c16n_")
    fn = os.path.join(tmp, "n.hdf5")
    vio = []
    try:
        def fill(pt):
            for k in range(len(src)):
                pt.set_mpo_tensor(k, src.get_mpo_tensor(k, transformed=False))
            for k in range(len(src) + 1):
                pt.set_cap_tensor(k, src.get_cap_tensor(k))

        if creator == "simple":
            obj = src
        elif creator.startswith("filewrite"):
            obj = FileProcessTensor(mode="write", filename=fn, hilbert_space_dimension=2, dt=DT,
                                    transform_in=src.transform_in, transform_out=src.transform_out,
                                    name="initial name", description="initial description")
            if creator == "filewrite-fill-first":
                fill(obj)
        else:
            bath = oq.Bath(0.5 * M.SX, M.ohmic(alpha=0.3, temperature=0.3))
            obj = oq.pt_tempo_compute(bath, 0.0, 2.4 * DT, oq.TempoParameters(dt=DT, epsrel=1e-7), process_tensor_file=fn,
                                      progress_type="silent", name="initial name", description="initial description")
        for i, w in enumerate(word):
            if w == "N":
                obj.name = f"name set at op {i}"
            else:
                obj.description = f"description set at op {i}\nsecond line"
        if creator == "filewrite-fill-last":
            fill(obj)
        want = meta(obj)
        if creator == "simple":
            obj.export(fn)
        else:
            obj.close()
        for typ in ("file", "simple"):
            with warnings.catch_warnings(record=True) as wl:
                warnings.simplefilter("always")
                imp = oq.import_process_tensor(fn, typ)
            got = meta(imp)
            if typ == "file":
                imp.close()
            if any("corrupt" in str(w_.message) for w_ in wl):
                vio.append((f"rename|{creator}|import-{typ}|corrupt-warning-on-clean-file", f"word {word}"))
            for k in want:
                if want[k] != got[k]:
                    vio.append((f"rename|{creator}|import-{typ}|meta:{k}",
                                f"after {word or 'no assignment'}: object had {k}={want[k]!r}, the import has {got[k]!r}"))
    except Exception as ex:  # noqa
        vio.append((f"rename|{creator}|exception:{type(ex).__name__}", f"word {word}: {ex}"[:160]))
    finally:
        shutil.rmtree(tmp, ignore_errors=True)
    return {"vio": vio}


def filebacked_case(kind):
    """PtTempo writing directly to a file vs the in-memory computation (gauge-invariant comparison)."""
    op = {"diag": 0.5 * M.SZ, "nondiag": 0.5 * M.SX, "nondiag-complex": 0.5 * M.SY + 0.2 * M.SX}[kind]
    bath = oq.Bath(op, M.ohmic(alpha=0.3, temperature=0.3))
    prm = oq.TempoParameters(dt=DT, epsrel=1e-9, dkmax=3)
    tmp = tempfile.mkdtemp(prefix="c16f_")
    vio = []
    try:
        mem = oq.pt_tempo_compute(bath, 0.0, 4.4 * DT, prm, progress_type="silent", name="nm", description="ds")
        fn = os.path.join(tmp, "x.hdf5")
        fil = oq.pt_tempo_compute(bath, 0.0, 4.4 * DT, prm, process_tensor_file=fn, progress_type="silent",
                                  name="nm", description="ds")
        for k in ("len", "dt", "dim", "name", "description"):
            if meta(mem)[k] != meta(fil)[k]:
                vio.append((f"filebacked-{kind}|meta:{k}", f"{meta(mem)[k]} vs {meta(fil)[k]}"))
        for a, b, nm in ((mem.transform_in, fil.transform_in, "transform_in"), (mem.transform_out, fil.transform_out, "transform_out")):
            if (a is None) != (b is None) or (a is not None and not np.allclose(a, b, atol=1e-14)):
                vio.append((f"filebacked-{kind}|{nm}", ""))
        for h in (0.5 * M.SX + 0.2 * M.SZ, 0.3 * M.SY, np.zeros((2, 2))):
            for rho in (M.RHO_GEN2, M.RHO_PLUS):
                a = np.array(oq.compute_dynamics(oq.System(h), rho, process_tensor=mem, progress_type="silent").states)
                b = np.array(oq.compute_dynamics(oq.System(h), rho, process_tensor=fil, progress_type="silent").states)
                if np.abs(a - b).max() > 1e-6:
                    vio.append((f"filebacked-{kind}|dynamics-differ", f"dev {np.abs(a - b).max():.2e}"))
        fil.close()
        re = oq.import_process_tensor(fn, "simple")
        a = np.array(oq.compute_dynamics(oq.System(0.5 * M.SX), M.RHO_GEN2, process_tensor=mem, progress_type="silent").states)
        b = np.array(oq.compute_dynamics(oq.System(0.5 * M.SX), M.RHO_GEN2, process_tensor=re, progress_type="silent").states)
        if np.abs(a - b).max() > 1e-6:
            vio.append((f"filebacked-{kind}|reimport-dynamics-differ", f"dev {np.abs(a - b).max():.2e}"))
    except Exception as ex:  # noqa
        vio.append((f"filebacked-{kind}|exception:{type(ex).__name__}", str(ex)[:150]))
    finally:
        shutil.rmtree(tmp, ignore_errors=True)
    return {"vio": vio}


def run(tier, seed):
    rep = Report(LEVEL)
    depth = 4 if tier == "quick" else 5
    hs = histories(depth)
    specs = pt_alphabet()
    jobs = [(s, h) for s in specs for h in hs]
    res = pmap(run_case, jobs, seed=seed)
    trans = 0
    for (s, h), r in zip(jobs, res):
        trans += r["nops"]
        for cls, what in r["vio"]:
            rep.add(Violation(cls, what, {"part": "hist", "spec": list(s), "hist": list(h)}))
    nspec = len(specs)
    pj = [(i, j) for i in range(0, nspec, 3) for j in range(1, nspec, 4) if i != j]
    pres = pmap(path_reuse_case, pj, seed=seed)
    for j, r in zip(pj, pres):
        trans += 6
        for cls, what in r["vio"]:
            rep.add(Violation(cls, what, {"part": "pathreuse", "args": list(j)}))
    words = [w for L in range(0, 4) for w in itertools.product("ND", repeat=L)]
    rj = [(c, w) for c in ("simple", "filewrite-fill-first", "filewrite-fill-last", "pttempo-file") for w in words]
    rres = pmap(rename_case, rj, seed=seed)
    for j, r in zip(rj, rres):
        trans += len(j[1]) + 3
        for cls, what in r["vio"]:
            rep.add(Violation(cls, what, {"part": "rename", "args": [j[0], list(j[1])]}))
    kinds = ["diag", "nondiag", "nondiag-complex"]
    fres = pmap(filebacked_case, kinds, chunksize=1, seed=seed)
    for k, r in zip(kinds, fres):
        trans += 10
        for cls, what in r["vio"]:
            rep.add(Violation(cls, what, {"part": "filebacked", "kind": k}))
    rep.coverage = {
        "states": len(specs) * len(set(h[:i + 1] for h in hs for i in range(len(h)))),
        "transitions": trans,
        "traces_validated_against_impl": len(jobs) + len(kinds) + len(rj), "rename_histories": len(rj),
        "process_tensors": len(specs), "histories_per_pt": len(hs), "depth": depth,
        "exhaustive": True,
        "rule": "state = (process tensor of the alphabet, history prefix over {E export, IF import-as-file, IS import-as-simple, "
                "C close}); all valid histories up to the depth are executed on real objects and files; oracle: bitwise equality "
                "of all tensors and metadata after every import, identical results of every consumer at the end of the history; "
                "rename: every word over {set name, set description} up to length 3 on 4 kinds of writable object, then "
                "close/export and import both ways",
        "samples": [{"spec": list(jobs[(7 * seed) % len(jobs)][0]), "history": list(jobs[(7 * seed) % len(jobs)][1])},
                    {"spec": list(jobs[-1][0]), "history": list(jobs[-1][1])}],
    }
    rep.assumptions = ["FileProcessTensor objects have no export(); re-export is exercised from 'simple' imports only",
                       "file-backed vs in-memory PT-TEMPO compared through dynamics of 3 systems x 2 states (gauge freedom), tol 1e-6 at epsrel 1e-9"]
    return rep


def replay(rp):
    if rp["part"] == "rename":
        r = rename_case((rp["args"][0], tuple(rp["args"][1])))
        return {"obs": r["vio"], "violation": r["vio"][0][0] if r["vio"] else None}
    if rp["part"] == "pathreuse":
        r = path_reuse_case(tuple(rp["args"]))
        return {"obs": r["vio"], "violation": r["vio"][0][0] if r["vio"] else None}
    if rp["part"] == "hist":
        s = rp["spec"]
        r = run_case((tuple(s), tuple(rp["hist"])))
    else:
        r = filebacked_case(rp["kind"])
    return {"obs": r["vio"], "violation": r["vio"][0][0] if r["vio"] else None}
