"""C15  Results are covariant under translation of the time origin.

Metamorphic exploration.  A *case* is one producer configuration and one shift tau.  It is run through the
real library twice:

  base    : start time t0,       callables f(t),        float control / correlation times c
  shifted : start time t0 + tau, callables f(t - tau),  float control / correlation times c + tau

and every state, field and correlation value must agree (tolerances below) while every reported time must be
(t0 + tau) + k*dt up to 4 ulp.  The full Cartesian product

  tau x t0 x producer x producer-specific feature x system {H(t), H(t)+gamma(t)A(t)} x subdiv_limit {None, default}

is enumerated, nothing is sampled.  Producers: Tempo (dkmax None / 2), MeanFieldTempo (1 / 2 systems, explicitly
time-dependent field equation), PtTempo built with shifted start/end time + compute_dynamics, compute_dynamics
and compute_dynamics_with_field on a shared process tensor (none / exact ancilla PT / PT-TEMPO PT) with Controls
given by float times (on grid, +-0.3 dt off grid, first and last grid point; never at half-way points), and
compute_correlations with float times and float intervals in both time orders.

Vacuity: for every time-dependent ingredient X of a case (H, gamma, lindblad, eom, control, corrtimes) the
*partner* "everything shifted except X" is run as well; its distance from the base run is the effect a library
bug that forgets the start time for X would have.  A case counts as non-trivial only if every ingredient's
effect exceeds EFFECT_MIN (and, for correlations, finite entries exist).
"""
import contextlib
import io
import itertools

import numpy as np

from mc.common import Report, Violation, pmap, bind_repo
from mc import refmodel as R
from mc import ancilla as A
from . import models as M

oq = bind_repo()
LEVEL = "exploration"

DT = 0.2
N_TEMPO = 5           # steps of the TEMPO-type runs (dkmax=2 < 5: memory cut-off active)
N_PT = 4              # steps of process-tensor based runs
EPS = 1.0e-8          # epsrel of all truncated tensor networks
C_TRUNC = 20.0        # tolerance of separately truncated networks: C_TRUNC * EPS * n_steps
TOL_SHARED = 1.0e-9   # same process tensor object in both runs: only float rounding of t - tau and quadrature
ULPS = 4
EFFECT_MIN = 1.0e-3   # an ingredient whose un-shifted partner moves the result by less is "not exercised"

TAUS = {"quick": [0.37, -1.3, 2.0, 1000.1, -20000.3], "thorough": [0.37, -1.3, 2.0, 1000.1, -20000.3, -0.6, 0.13]}
T0S = {"quick": [0.0], "thorough": [0.0, 0.5]}

SP = M.SM.conj().T
OP_A = M.SM + 0.3 * M.SZ
OP_B = M.SX + 0.5j * M.SY + 0.2 * M.I2
RHO1 = M.RHO_GEN2
RHO2 = np.array([[0.4, -0.3j], [0.3j, 0.6]], dtype=complex)
FIELD0 = 0.5 + 0.2j


# ------------------------------------------------------------------------------------------------
# the time-dependent ingredients (smooth, bounded, not periodic in any tau of the alphabet)

def h1(t):
    return 0.6 * np.cos(2.9 * t + 0.3) * M.SX + 0.4 * np.sin(1.7 * t + 0.2) * M.SZ + 0.2 * np.cos(2.3 * t) * M.SY


def h2(t):
    return 0.5 * np.sin(2.1 * t + 0.5) * M.SX + 0.3 * M.SZ + 0.25 * np.cos(1.6 * t) * M.SY


def g1(t):
    return 0.45 + 0.35 * np.sin(2.6 * t + 0.4)


def g2(t):
    return 0.3 + 0.2 * np.cos(1.9 * t + 0.1)


def a1(t):
    return M.SM + 0.9 * np.sin(3.7 * t + 1.0) * M.SZ


def a2(t):
    return np.cos(2.5 * t + 0.3) * M.SZ + 0.6 * M.SM


def eom(t, states, a):
    r = -(0.1 + 0.3j) * a - 0.5j * np.trace(M.SM @ states[0]) + 0.25 * (1 + 0.5j) * np.cos(1.9 * t + 0.2)
    if len(states) > 1:
        r = r - 0.3j * np.trace(M.SM @ states[1])
    return r


def sh(f, s):
    """f translated by s: t -> f(t - s)."""
    if s == 0.0:
        return f
    return lambda t, *rest: f(t - s, *rest)


def g_switch(t):
    """a decay channel that is switched on (smoothly, within ~0.1) at relative time 0.45: constant before and after"""
    return 0.45 * (np.tanh((t - 0.45) / 0.04) + 1.0)


def td_system(sysk, s, which=1):
    h, g, a = (h1, g1, a1) if which == 1 else (h2, g2, a2)
    if sysk == "H+Lswitch":
        g = g_switch
    if sysk == "H":
        return oq.TimeDependentSystem(sh(h, s["H"]))
    return oq.TimeDependentSystem(sh(h, s["H"]), gammas=[sh(g, s["gamma"])],
                                  lindblad_operators=[sh(a, s["lindblad"])])


def field_system(sysk, s, which=1):
    h, g, a = (h1, g1, a1) if which == 1 else (h2, g2, a2)
    if sysk == "H+Lswitch":
        g = g_switch
    c = 0.4 if which == 1 else 0.3

    def hf(t, fld):
        return h(t) + c * (fld * SP + np.conj(fld) * M.SM)

    if sysk == "H":
        return oq.TimeDependentSystemWithField(sh(hf, s["H"]))
    return oq.TimeDependentSystemWithField(sh(hf, s["H"]), gammas=[sh(g, s["gamma"])],
                                           lindblad_operators=[sh(a, s["lindblad"])])


def mf_system(sysk, nsys, s):
    systems = [field_system(sysk, s, w) for w in range(1, nsys + 1)]
    return oq.MeanFieldSystem(systems, sh(eom, s["eom"]))


# ------------------------------------------------------------------------------------------------
# environments

_CACHE = {}


def bath(which=1):
    if which == 1:
        return oq.Bath(0.5 * M.SZ, M.ohmic(alpha=0.25, cutoff=2.5, temperature=0.4))
    return oq.Bath(0.5 * M.SX, M.ohmic(alpha=0.15, zeta=1.0, cutoff=3.0, cutoff_type="gaussian", temperature=0.0))


def shared_pt(env):
    """Process tensor object used by *both* runs of a case (a process tensor carries no start time)."""
    if env == "none":
        return None
    if env not in _CACHE:
        if env == "ancilla":
            e = 2
            sigma = np.array([[0.6, 0.2j], [-0.2j, 0.4]], dtype=complex)
            ks = [[R.random_free_unitary(2 * e, 60 + k)] for k in range(N_PT)]
            _CACHE[env] = A.build_pt(2, e, sigma, ks, dt=DT)
        elif env == "pttempo":
            prm = oq.TempoParameters(dt=DT, epsrel=EPS, dkmax=None)
            _CACHE[env] = oq.pt_tempo_compute(bath(1), 0.0, (N_PT + 0.5) * DT, prm, progress_type="silent")
        else:
            raise ValueError(env)
    return _CACHE[env]


# ------------------------------------------------------------------------------------------------
# float-time features

KICK1 = R.conj_super(M.generic_unitary(2, 9))
KICK2 = R.conj_super(M.generic_unitary(2, 4))

# name -> list of (step, offset in units of dt, post, map)
CONTROLS = {
    "none": [],
    "pre-grid": [(2, 0.0, False, KICK1)],
    "post-off+": [(1, 0.3, True, KICK1)],
    "pre-off-": [(3, -0.3, False, KICK1)],
    "first+last": [(0, 0.0, False, KICK1), (N_PT, 0.0, False, KICK2)],
    "post-first+pre-off+": [(0, 0.0, True, KICK2), (2, 0.3, False, KICK1)],
    "float-then-int(same step)": [(2, 0.2, False, KICK1), (2, "int", False, KICK2)],   # composition order = insertion order
    "int-then-float(same step)": [(3, "int", True, KICK2), (3, -0.2, True, KICK1)],
    "pre-near-half+": [(1, 0.45, False, KICK1)],          # almost half way to the next step: must still act at step 1 only
    "post-near-half-": [(3, -0.45, True, KICK2)],
}


def make_control(name, t0, s_control):
    if name == "none":
        return None
    ctrl = oq.Control(2)
    for k, off, post, mp in CONTROLS[name]:
        if off == "int":
            ctrl.add_single(int(k), mp, post=post)           # a step number: not shifted
        else:
            ctrl.add_single(float(t0 + (k + off) * DT) + s_control, mp, post=post)
    return ctrl


# name -> ((kind, ...), (kind, ...), expected index lists)
def _f(k, off=0.0):
    return ("float", k, off)


def _iv(a, b):
    return ("interval", a, b)


CORR_SPECS = {
    "f-grid,interval": (_f(1), _iv(0, N_PT)),
    "interval,f-off+": (_iv(0, N_PT), _f(2, 0.3)),
    "revinterval,interval": (_iv(N_PT, 0), _iv(1, N_PT - 1)),
    "f-off-,f-grid(same step)": (_f(2, -0.3), _f(2)),
    "f-first,f-last": (_f(0), _f(N_PT)),
    "f-last-off-,f-first-off+": (_f(N_PT, -0.3), _f(0, 0.3)),
}


def corr_arg(spec, t0, s):
    if spec[0] == "float":
        return float(t0 + (spec[1] + spec[2]) * DT) + s
    return (float(t0 + spec[1] * DT) + s, float(t0 + spec[2] * DT) + s)


def corr_indices(spec):
    if spec[0] == "float":
        return [spec[1]]
    a, b = spec[1], spec[2]
    return list(range(a, b + 1)) if a <= b else list(range(a, b - 1, -1))


# ------------------------------------------------------------------------------------------------
# one execution of the real library

def ingredients(case):
    ing = ["H"]
    if case["sys"] == "H+L":
        ing += ["gamma", "lindblad"]
    if case["prod"] in ("mftempo", "dynfield"):
        ing.append("eom")
    if case["prod"] in ("dyn", "dynfield") and case["control"] != "none":
        ing.append("control")
    if case["prod"] == "corr":
        ing.append("corrtimes")
    return ing


def execute(case, start, s):
    """start: start time handed to the library; s: dict ingredient -> translation of that ingredient.
    Returns {"times": [arrays], "values": {name: array}}."""
    prod, sysk, t0 = case["prod"], case["sys"], case["t0"]
    kw = {}
    sub = {}
    if case.get("subdiv", "default") is None:
        kw["subdiv_limit"] = None
        sub["subdiv_limit"] = None
    with contextlib.redirect_stdout(io.StringIO()):      # Control.get_controls prints float control times
        if prod == "tempo":
            prm = oq.TempoParameters(dt=DT, epsrel=EPS, dkmax=case["dkmax"], **sub)
            tempo = oq.Tempo(td_system(sysk, s), bath(1), prm, RHO1, start_time=start)
            dyn = tempo.compute(start + (N_TEMPO + 0.5) * DT, progress_type="silent")
            return {"times": [np.array(dyn.times)], "values": {"state": np.array(dyn.states)}, "n": N_TEMPO}
        if prod == "mftempo":
            nsys = case["nsys"]
            prm = oq.TempoParameters(dt=DT, epsrel=EPS, dkmax=2, **sub)
            mft = oq.MeanFieldTempo(mf_system(sysk, nsys, s), [bath(1), bath(2)][:nsys], prm, [RHO1, RHO2][:nsys],
                                    FIELD0, start_time=start)
            dyn = mft.compute(start + (N_TEMPO + 0.5) * DT, progress_type="silent")
            vals = {"field": np.array(dyn.fields)}
            times = [np.array(dyn.times)]
            for i, d in enumerate(dyn.system_dynamics):
                vals[f"state{i}"] = np.array(d.states)
                times.append(np.array(d.times))
            return {"times": times, "values": vals, "n": N_TEMPO}
        if prod == "pttempo":
            prm = oq.TempoParameters(dt=DT, epsrel=EPS, dkmax=case["dkmax"])
            pt = oq.pt_tempo_compute(bath(1), start, start + (N_PT + 0.5) * DT, prm, progress_type="silent")
            if len(pt) != N_PT:
                raise AssertionError(f"process tensor has {len(pt)} steps instead of {N_PT}")
            dyn = oq.compute_dynamics(td_system(sysk, s), RHO1, process_tensor=pt, start_time=start,
                                      progress_type="silent", **kw)
            return {"times": [np.array(dyn.times)], "values": {"state": np.array(dyn.states)}, "n": N_PT}
        if prod == "dyn":
            pt = shared_pt(case["env"])
            ctrl = make_control(case["control"], t0, s.get("control", 0.0))
            if pt is None:
                kw.update(dt=DT, num_steps=N_PT)
            dyn = oq.compute_dynamics(td_system(sysk, s), RHO1, process_tensor=pt, control=ctrl, start_time=start,
                                      progress_type="silent", **kw)
            return {"times": [np.array(dyn.times)], "values": {"state": np.array(dyn.states)}, "n": N_PT}
        if prod == "dynfield":
            pt = shared_pt(case["env"])
            nsys = case["nsys"]
            ctrl = make_control(case["control"], t0, s.get("control", 0.0))
            ctrls = [ctrl, None][:nsys]
            if pt is None:
                kw.update(dt=DT, num_steps=N_PT)
            dyn = oq.compute_dynamics_with_field(mf_system(sysk, nsys, s), FIELD0, process_tensor_list=[pt] * nsys,
                                                 initial_state_list=[RHO1, RHO2][:nsys], start_time=start,
                                                 control_list=ctrls, progress_type="silent", **kw)
            vals = {"field": np.array(dyn.fields)}
            times = [np.array(dyn.times)]
            for i, d in enumerate(dyn.system_dynamics):
                vals[f"state{i}"] = np.array(d.states)
                times.append(np.array(d.times))
            return {"times": times, "values": vals, "n": N_PT}
        if prod == "corr":
            pt = shared_pt(case["env"])
            spa, spb = CORR_SPECS[case["spec"]]
            sc = s.get("corrtimes", 0.0)
            times, corr = oq.compute_correlations(td_system(sysk, s), pt, OP_A, OP_B, corr_arg(spa, t0, sc),
                                                  corr_arg(spb, t0, sc), time_order=case["order"],
                                                  initial_state=RHO1, start_time=float(start), progress_type="silent")
            return {"times": [np.array(times[0]), np.array(times[1])], "values": {"corr": np.array(corr)},
                    "n": N_PT, "idx": [corr_indices(spa), corr_indices(spb)]}
    raise ValueError(prod)


def distance(x, y):
    """max |x - y| over all returned values; NaN patterns must coincide. -> (dev per name, signature or None)"""
    devs = {}
    for name in x["values"]:
        a, b = x["values"][name], y["values"][name]
        if a.shape != b.shape:
            return devs, "shape"
        na, nb = np.isnan(a), np.isnan(b)
        if (na != nb).any():
            return devs, "nan-pattern"
        devs[name] = float(np.abs(a - b)[~na].max()) if (~na).any() else 0.0
    return devs, None


def tolerance(case):
    if case["prod"] in ("tempo", "mftempo"):
        return C_TRUNC * EPS * N_TEMPO
    if case["prod"] == "pttempo":
        return C_TRUNC * EPS * N_PT
    return TOL_SHARED


def check_times(res, start):
    """every reported time == start + k*dt (k from the expected index list) within ULPS ulp -> (max ulps, sig)"""
    worst = 0.0
    for j, t in enumerate(res["times"]):
        idx = np.array(res["idx"][j]) if "idx" in res else np.arange(res["n"] + 1)
        if len(t) != len(idx):
            return None, f"time-axis-length({len(t)}!={len(idx)})"
        exp = start + idx * DT
        ulp = np.spacing(np.maximum(np.abs(exp), abs(start)))
        worst = max(worst, float((np.abs(t - exp) / ulp).max()))
    return worst, ("times-not-shifted" if worst > ULPS else None)


def case_desc(c):
    extra = {"tempo": lambda: f"dkmax={c['dkmax']}", "mftempo": lambda: f"nsys={c['nsys']}",
             "pttempo": lambda: f"dkmax={c['dkmax']}",
             "dyn": lambda: f"env={c['env']}|control={c['control']}",
             "dynfield": lambda: f"env={c['env']}|nsys={c['nsys']}|control={c['control']}",
             "corr": lambda: f"env={c['env']}|{c['spec']}|{c['order']}"}[c["prod"]]()
    return f"{c['prod']}|{c['sys']}|subdiv={c.get('subdiv', 'default')}|{extra}"


def run_case(case):
    tau, t0 = case["tau"], case["t0"]
    ing = ingredients(case)
    out = {"cls": None, "what": None, "dev": None, "ulps": None, "effects": {}, "finite": None}
    desc = case_desc(case)
    zero = {k: 0.0 for k in ["H", "gamma", "lindblad", "eom", "control", "corrtimes"]}
    try:
        base = execute(case, float(t0), zero)
    except Exception as ex:  # noqa
        out["cls"] = f"{desc}|base-run-exception:{type(ex).__name__}"
        out["what"] = f"un-shifted run raised {type(ex).__name__}: {ex}"[:300]
        return out
    start = float(t0 + tau)
    try:
        shf = execute(case, start, {k: tau for k in zero})
    except Exception as ex:  # noqa
        out["cls"] = f"{desc}|exception:{type(ex).__name__}"
        out["what"] = f"tau={tau} t0={t0}: shifted run raised {type(ex).__name__}: {ex}"[:300]
        return out
    tol = tolerance(case)
    devs, sig = distance(base, shf)
    if sig is None:
        out["dev"] = max(devs.values())
        bad = [k for k, v in devs.items() if v > tol]
        if bad:
            kind = "field" if bad[0] == "field" else ("corr" if bad[0] == "corr" else "state")
            sig = f"{kind}-mismatch"
            v = base["values"][bad[0]]
            w = shf["values"][bad[0]]
            per = np.abs(np.nan_to_num(v - w)).reshape(v.shape[0], -1).max(axis=1)
            out["what"] = (f"tau={tau} t0={t0}: |{bad[0]}(shifted) - {bad[0]}(base)| = {devs[bad[0]]:.3e} > {tol:.1e}, "
                           f"first at index {int(np.argmax(per > tol))} of axis 0")
    else:
        out["what"] = f"tau={tau} t0={t0}: {sig} differs between shifted and base run"
    ulps, tsig = check_times(shf, start)
    out["ulps"] = ulps
    bulps, bsig = check_times(base, float(t0))
    if sig is None and (tsig or bsig):
        sig = tsig or ("base-" + bsig)
        out["what"] = (f"tau={tau} t0={t0}: reported times deviate from start + k*dt by {ulps} ulp (shifted) / "
                       f"{bulps} ulp (base): {[list(map(float, t)) for t in shf['times']]}"[:300])
    if sig is not None:
        out["cls"] = f"{desc}|{sig}"
    # vacuity partners: everything shifted except one ingredient
    c = base["values"].get("corr")
    out["finite"] = int((~np.isnan(c)).sum()) if c is not None else None
    for x in ing:
        s = {k: tau for k in zero}
        s[x] = 0.0
        try:
            p = execute(case, start, s)
            d, psig = distance(base, p)
            out["effects"][x] = float("inf") if psig else max(d.values())
        except Exception:  # noqa
            out["effects"][x] = float("inf")
    return out


# ------------------------------------------------------------------------------------------------
# the product space

def cases(tier):
    taus, t0s = TAUS[tier], T0S[tier]
    envs = ["none", "ancilla", "pttempo"]
    out = []
    for t0, tau, sysk, sub in itertools.product(t0s, taus, ["H", "H+L", "H+Lswitch"], [None, "default"]):
        common = {"t0": t0, "tau": tau, "sys": sysk, "subdiv": sub}
        for dk in (None, 2):
            out.append(dict(common, prod="tempo", dkmax=dk))
        for nsys in (1, 2):
            out.append(dict(common, prod="mftempo", nsys=nsys))
        for dk in (None, 2):
            out.append(dict(common, prod="pttempo", dkmax=dk))
        for env, ck in itertools.product(envs, CONTROLS):
            out.append(dict(common, prod="dyn", env=env, control=ck))
        for env, nsys, ck in itertools.product(envs, (1, 2), CONTROLS):
            out.append(dict(common, prod="dynfield", env=env, nsys=nsys, control=ck))
        if sub == "default":      # compute_correlations has no subdiv_limit argument
            for env, spec, order in itertools.product(envs[1:], CORR_SPECS, ["ordered", "anti"]):
                out.append(dict(common, prod="corr", env=env, spec=spec, order=order))
    return out


def case_key(c):
    return tuple((k, c[k]) for k in sorted(c))


def run(tier, seed):
    rep = Report(LEVEL)
    gj = [(sk, tau) for sk in ("H(t)", "gamma(t)") for tau in TAUS[tier] + [-7.3, 0.45]]
    gres = pmap(guess_case, gj, seed=seed)
    for j, r in zip(gj, gres):
        if r["cls"]:
            rep.add(Violation(r["cls"], r["what"], {"fam": "guess", "sys": j[0], "tau": j[1]}))
    cs = cases(tier)
    res = pmap(run_case, cs, chunksize=2, seed=seed)
    nontrivial = set()
    trivial = {}
    maxdev = {"truncated": 0.0, "shared": 0.0}
    maxulps = 0.0
    min_effect = {}
    for c, r in zip(cs, res):
        if r["cls"] is not None:
            rep.add(Violation(r["cls"], r["what"], c))
        klass = "truncated" if c["prod"] in ("tempo", "mftempo", "pttempo") else "shared"
        if r["dev"] is not None:
            maxdev[klass] = max(maxdev[klass], r["dev"])
        if r["ulps"] is not None:
            maxulps = max(maxulps, r["ulps"])
        eff = r["effects"]
        if not eff:
            continue
        if r["finite"] == 0:
            trivial["corr-all-NaN"] = trivial.get("corr-all-NaN", 0) + 1
            continue
        weak = [x for x, v in eff.items() if v < EFFECT_MIN]
        if weak:
            trivial["weak:" + ",".join(weak)] = trivial.get("weak:" + ",".join(weak), 0) + 1
            continue
        nontrivial.add(case_key(c))
        for x, v in eff.items():
            k = f"{c['prod']}:{x}"
            min_effect[k] = min(min_effect.get(k, float("inf")), v)
    tol_t = C_TRUNC * EPS * N_PT
    ratio = max(maxdev["truncated"] / tol_t, maxdev["shared"] / TOL_SHARED)
    finite_eff = [v for v in min_effect.values() if np.isfinite(v)]
    rep.coverage = {
        "guessed_parameter_cases": {"cases": len(gj), "system_limits_dt": sum(1 for r in gres if r["limited"])},
        "evaluations": len(cs),
        "library_runs": int(sum(2 + len(r["effects"]) for r in res)),
        "distinct_nontrivial": len(nontrivial),
        "trivial_cases": trivial,
        "rule": "full product tau x t0 x {H(t), H(t)+gamma(t)A(t)} x subdiv_limit {None, default} x producer "
                "{Tempo dkmax None/2, MeanFieldTempo 1/2 systems, PtTempo(shifted start/end)+compute_dynamics dkmax "
                "None/2, compute_dynamics env{none,ancilla,pttempo} x 6 float-time controls, "
                "compute_dynamics_with_field env x 1/2 systems x 6 controls, compute_correlations env{ancilla,pttempo} "
                "x 6 float time/interval specifications x {ordered, anti} (default subdiv only)}; each case = base run + "
                "shifted run + one partner run per time-dependent ingredient with that ingredient left un-shifted; "
                "non-trivial = every such partner differs from the base run by > EFFECT_MIN (an exception counts as "
                "infinite effect) and, for correlations, the result has finite entries; distinct by the full "
                "parameter tuple",
        "alphabet": {"tau": TAUS[tier], "t0": T0S[tier], "dt": DT, "steps": [N_TEMPO, N_PT], "epsrel": EPS,
                     "controls": list(CONTROLS), "correlation_specs": list(CORR_SPECS)},
        "samples": [{"case": cs[i], "max_dev": res[i]["dev"], "time_dev_ulps": res[i]["ulps"],
                     "effect_of_unshifted_ingredient": {k: (v if np.isfinite(v) else "exception")
                                                        for k, v in res[i]["effects"].items()}}
                    for i in (0, len(cs) // 2, len(cs) - 1)],
        "exhaustive": True,
        "max_dev": max(maxdev.values()),
        "max_dev_truncated_networks": maxdev["truncated"],
        "max_dev_shared_process_tensor": maxdev["shared"],
        "tolerance": TOL_SHARED,
        "tolerance_truncated_networks": [C_TRUNC * EPS * N_PT, C_TRUNC * EPS * N_TEMPO],
        "max_dev_over_tol": ratio,
        "max_time_dev_ulps": maxulps, "time_tolerance_ulps": ULPS,
        "effect_min_required": EFFECT_MIN,
        "min_effect_of_unshifted_ingredient": min(finite_eff) if finite_eff else None,
        "min_effect_per_producer_and_ingredient": {k: (v if np.isfinite(v) else "exception")
                                                   for k, v in sorted(min_effect.items())},
        "min_effect_over_tolerance": (min(finite_eff) / max(TOL_SHARED, C_TRUNC * EPS * N_TEMPO)) if finite_eff else None,
    }
    rep.assumptions = [
        "metamorphic oracle: the un-shifted run of the same library is the reference; a defect that is itself "
        "translation covariant (e.g. the field equation evaluated one step late) is not visible here (C09/C01 cover those)",
        "the shifted callables are t -> f(t - tau); t - tau is rounded to ~ulp(tau), so agreement is limited to "
        "~1e-13*|f'| for |tau| ~ 1000; all ingredients are smooth and bounded",
        "Tempo / MeanFieldTempo / PtTempo runs are separately truncated networks (tolerance C*epsrel*n); "
        "compute_dynamics(_with_field) and compute_correlations use one process tensor object for both runs "
        "(tolerance 1e-9), the PtTempo producer re-computes the process tensor with shifted start and end time",
        "end times are handed over as start + (n + 0.5) dt so that the step count does not depend on C13's grid-point rule",
        "float control / correlation times are at most 0.3 dt away from a grid point (never at half-way points)",
    ]
    return rep


def guess_case(args):
    """parameters the library chooses itself must not depend on the time origin either"""
    import warnings
    sysk, tau = args
    bth = bath()

    def guess(s_):
        if sysk == "H(t)":
            sysm = oq.TimeDependentSystem(lambda t: (1.5 + 2.5 * (t - s_)) * M.SX + 0.5 * M.SZ)
        else:
            sysm = oq.TimeDependentSystem(lambda t: 0.5 * M.SZ, gammas=[lambda t: 4.0 + 9.0 * (t - s_)],
                                          lindblad_operators=[lambda t: M.SM])
        with warnings.catch_warnings():
            warnings.simplefilter("ignore")
            p_ = oq.guess_tempo_parameters(bth, s_ + 0.0, s_ + 3.0, system=sysm, tolerance=1e-2)
            q_ = oq.guess_tempo_parameters(bth, s_ + 0.0, s_ + 3.0, tolerance=1e-2)
        return (p_.dt, p_.dkmax, p_.epsrel), q_.dt
    try:
        ref, bath_dt = guess(0.0)
        got, _ = guess(float(tau))
    except Exception as ex:  # noqa
        return {"cls": f"guess|{sysk}|exception:{type(ex).__name__}", "what": str(ex)[:120], "limited": False}
    bad = abs(got[0] - ref[0]) > 1e-9 * ref[0] or got[1] != ref[1] or abs(got[2] - ref[2]) > 1e-9 * ref[2]
    return {"cls": f"guess|{sysk}|parameters-depend-on-the-time-origin" if bad else None,
            "what": f"tau={tau}: guessed (dt, dkmax, epsrel) = {got}, un-shifted {ref}", "limited": ref[0] < bath_dt * (1 - 1e-9)}


def replay(rp):
    if rp.get("fam") == "guess":
        r = guess_case((rp["sys"], rp["tau"]))
        return {"obs": r["what"], "violation": r["cls"]}
    c = dict(rp)
    r = run_case(c)
    return {"obs": {"dev": None if r["dev"] is None else round(r["dev"], 12), "ulps": r["ulps"], "what": r["what"]},
            "violation": r["cls"]}
