"""C20  Results depend only on current inputs: no mutation, aliasing or stale state.

Model checking over usage histories and input layouts:
 (1) histories on shared correlations objects (PowerLawSD, CustomSD, CustomCorrelations) and objects built from
     them: every history over the menu {E eval correlation + 2D integrals, B build a Bath, R read through the
     bath's correlations, T run a Tempo with the latest bath, S1/S2 set a public attribute, X switch to a second,
     differently parameterised object of the same class} up to depth 4 (quick) / 5 (thorough) is executed on real
     objects; every observation is compared with the same observation made on freshly constructed objects with
     the *current* values (for a bath built earlier: the values at its construction).
 (2) every array argument of every API in 7 layouts (C, Fortran, transposed view, strided view, read-only, real
     dtype where the value is real, list of lists): results identical to the C-contiguous copy, caller buffers
     bitwise unchanged, no exception.
 (3) shared system / bath / parameters / process tensor objects reused by several computations in every order
     (all permutations of 5 computations) give the same results as freshly constructed equal objects.
"""
import copy
import hashlib
import itertools

import numpy as np

from mc.common import Report, Violation, pmap, bind_repo
from . import models as M

oq = bind_repo()
LEVEL = "model_checking"
OPS = ["E", "B", "R", "T", "S1", "S2", "X"]
DT = 0.2
TOL = 1e-9

# parameter sets: (strength, temperature); S1 toggles strength, S2 toggles temperature
P_A = (0.3, 0.2)
P_B = (0.15, 0.9)
ALT = (0.6, 0.7)


def make_corr(kind, p):
    a, t = p
    if kind == "PowerLawSD@Z":      # world Z: the first parameter is the exponent zeta (alpha fixed)
        return oq.PowerLawSD(alpha=0.3, zeta=a, cutoff=3.0, cutoff_type="exponential", temperature=t)
    if kind == "CustomSD@Z":        # world Z: the first parameter is the cutoff frequency (J fixed)
        return oq.CustomSD(lambda w: 0.6 * w, cutoff=a, cutoff_type="gaussian", temperature=t)
    if kind == "PowerLawSD":
        return oq.PowerLawSD(alpha=a, zeta=1.0, cutoff=3.0, cutoff_type="exponential", temperature=t)
    if kind == "CustomSD":
        return oq.CustomSD(lambda w, a=a: 2 * a * w, cutoff=3.0, cutoff_type="gaussian", temperature=t)
    if kind == "CustomCorrelations":
        return oq.CustomCorrelations(lambda tau, a=a, t=t: a * (np.cos(1.3 * tau) * (1 + t) - 1j * np.sin(1.3 * tau)))
    raise ValueError(kind)


def set_attr(kind, obj, which, p):
    """Set the public attribute to the value of parameter tuple p. Returns new param tuple."""
    a, t = p
    if kind in ("PowerLawSD@Z", "CustomSD@Z"):
        if which == "S1":
            if kind == "PowerLawSD@Z":
                obj.zeta = a
            else:
                obj.cutoff = a
        else:
            obj.temperature = t
    elif kind == "PowerLawSD":
        if which == "S1":
            obj.alpha = a
        else:
            obj.temperature = t
    elif kind == "CustomSD":
        if which == "S1":
            obj.j_function = np.vectorize(lambda w, a=a: 2 * a * w)
        else:
            obj.temperature = t
    else:
        obj.correlation_function = np.vectorize(
            lambda tau, a=a, t=t: a * (np.cos(1.3 * tau) * (1 + t) - 1j * np.sin(1.3 * tau)))


def eval_corr(c):
    return np.array([complex(c.correlation(0.3)),
                     complex(c.correlation_2d_integral(DT, 0.0, shape="upper-triangle", epsrel=1e-9)),
                     complex(c.correlation_2d_integral(DT, DT, shape="square", epsrel=1e-9)),
                     complex(c.correlation_2d_integral(DT, 2 * DT, time_2=2.5 * DT, shape="rectangle", epsrel=1e-9))])


def run_tempo(bath):
    prm = oq.TempoParameters(dt=DT, epsrel=1e-9)
    d = oq.Tempo(oq.System(0.5 * M.SX), bath, prm, M.RHO_GEN2, 0.0).compute(2.4 * DT, progress_type="silent")
    return np.array(d.states).ravel()


# worlds: (P_A, P_B, alternative values for A, alternative values for B).  "@T0": object A is built at zero temperature
# (the default) and later heated, object B is built hot and later set to zero temperature -- zero temperature selects
# different integrands inside the correlations classes.
WORLDS = {"": (P_A, P_B, ALT, ALT),
          "@T0": ((0.3, 0.0), (0.15, 0.9), (0.6, 0.7), (0.6, 0.0)),
          # world Z: S1 changes the exponent zeta (PowerLawSD: 1 <-> 3, 0.5 <-> 3) / the cutoff frequency (CustomSD)
          "@Z": ((1.0, 0.2), (0.5, 0.9), (3.0, 0.7), (3.0, 0.7))}


def split_kind(kindw):
    """-> (kind used for construction and reference keys, kind named in violation classes, world parameters)"""
    kind, _, w = kindw.partition("@")
    return (kindw if w == "Z" else kind), kind, WORLDS["@" + w if w else ""]


_REFC = {}
ALL_PARAMS = sorted(set((a, t) for a in (P_A[0], P_B[0], ALT[0]) for t in (P_A[1], P_B[1], ALT[1], 0.0)))
Z_PARAMS = sorted(set((a, t) for a in (1.0, 0.5, 3.0) for t in (0.2, 0.9, 0.7)))


def _fresh_reference(key):
    """Runs in a FRESH interpreter (spawned, one task per process): the very first evaluation of that process, so that
    no class-level / module-level state left behind by other objects can leak into the reference."""
    what, kind, p = key
    if what == "E":
        return key, eval_corr(make_corr(kind, p))
    return key, run_tempo(oq.Bath(0.5 * M.SZ, make_corr(kind, p)))


def precompute_references(kinds):
    import multiprocessing as mp
    keys = [(w, k, p) for w in ("E", "T") for k in kinds for p in (Z_PARAMS if k.endswith("@Z") else ALL_PARAMS)]
    keys = [k for k in keys if k not in _REFC]
    if not keys:
        return
    ctx = mp.get_context("spawn")
    with ctx.Pool(min(16, len(keys)), maxtasksperchild=1) as pool:
        for key, val in pool.imap_unordered(_fresh_reference, keys, chunksize=1):
            _REFC[key] = val


def ref_eval(kind, p):
    key = ("E", kind, p)
    if key not in _REFC:
        precompute_references([kind])
    return _REFC[key]


def ref_tempo(kind, p):
    key = ("T", kind, p)
    if key not in _REFC:
        precompute_references([kind])
    return _REFC[key]


def classify(kind, obs, op, cur_p, candidates, ref_fn):
    """which parameter set does the wrong observation correspond to?"""
    for label, p in candidates:
        if p != cur_p and np.abs(obs - ref_fn(kind, p)).max() < 1e-6:
            return label
    return "other-values"


def history_case(args):
    kindw, hist = args
    kind, cname, (P_A, P_B, ALT_A, ALT_B) = split_kind(kindw)
    s1name = "S3" if kindw.endswith("@Z") else "S1"
    objs = {"A": make_corr(kind, P_A), "B": None}
    params = {"A": P_A, "B": P_B}
    first_eval = {"A": None, "B": None}      # params at the time of the first 2D-integral evaluation (cache fill)
    sets = {"A": [], "B": []}
    cur = "A"
    bath = None           # dict(obj, params at construction, source name)
    vio = []
    nops = 0
    trail = []
    for i, op in enumerate(hist):
        try:
            if op == "X":
                cur = "B" if cur == "A" else "A"
                if objs[cur] is None:
                    objs[cur] = make_corr(kind, params[cur])
                obs = None
            elif op in ("S1", "S2"):
                a, t = params[cur]
                base = P_A if cur == "A" else P_B
                ALT = ALT_A if cur == "A" else ALT_B
                if op == "S1":
                    newp = (ALT[0] if a == base[0] else base[0], t)
                else:
                    newp = (a, ALT[1] if t == base[1] else base[1])
                set_attr(kind, objs[cur], op, newp)
                if kind == "CustomCorrelations":
                    pass
                params[cur] = newp
                sets[cur].append(s1name if op == "S1" else op)
                obs = None
            elif op == "E":
                obs = eval_corr(objs[cur])
                exp = ref_eval(kind, params[cur])
                if np.abs(obs - exp).max() > TOL:
                    cands = [("values-at-first-evaluation(stale-cache)", first_eval[cur]),
                             ("values-of-the-other-object", params["B" if cur == "A" else "A"]),
                             ("values-at-construction", P_A if cur == "A" else P_B)]
                    which = "+".join(n for n, d in zip(("correlation", "triangle", "square", "rectangle"),
                                                       np.abs(obs - exp)) if d > TOL)
                    lab = classify(kind, obs, op, params[cur], [c for c in cands if c[1] is not None], ref_eval) \
                        if which == "correlation+triangle+square+rectangle" else \
                        ("2d-integrals-" if "correlation" not in which else "") + "stale"
                    # refine: the 2D integrals alone may be stale
                    if "correlation" not in which:
                        for n, p in cands:
                            if p is not None and p != params[cur] and np.abs(obs[1:] - ref_eval(kind, p)[1:]).max() < 1e-6:
                                lab = f"2d-integrals-have-{n}"
                                break
                    vio.append((f"{cname}|eval-after-{'+'.join(sorted(set(sets[cur]))) or 'switch'}|{lab}",
                                f"history {hist}: op {i}: {which} differ from a fresh object with the current values {params[cur]}"))
                if first_eval[cur] is None:
                    first_eval[cur] = params[cur]
            elif op == "B":
                bath = {"obj": oq.Bath(0.5 * M.SZ, objs[cur]), "p": params[cur], "src": cur, "sets_at": len(sets[cur])}
                obs = None
            elif op in ("R", "T"):
                if bath is None:
                    continue
                if op == "R":
                    obs = eval_corr(bath["obj"].correlations)
                    exp = ref_eval(kind, bath["p"])
                    fn = ref_eval
                else:
                    obs = run_tempo(bath["obj"])
                    exp = ref_tempo(kind, bath["p"])
                    fn = ref_tempo
                if np.abs(obs - exp).max() > (TOL if op == "R" else 1e-6):
                    later = sets[bath["src"]][bath["sets_at"]:]
                    lab = "other-values"
                    if np.abs(obs - fn(kind, params[bath["src"]])).max() < 1e-6 and params[bath["src"]] != bath["p"]:
                        lab = "follows-later-changes-of-the-source-object"
                    elif op == "R":
                        lab = "partly-follows-later-changes-of-the-source-object" if later else "other-values"
                    else:
                        lab = "partly-follows-later-changes-of-the-source-object" if later else "other-values"
                    vio.append((f"{cname}|bath-built-before-{'+'.join(sorted(set(later))) or 'nothing'}|{'read' if op == 'R' else 'tempo'}|{lab}",
                                f"history {hist}: op {i}: bath built with {bath['p']} answers differently from a fresh bath with those values"))
        except Exception as ex:  # noqa
            vio.append((f"{cname}|{op}|exception:{type(ex).__name__}", f"history {hist} op {i}: {ex}"[:200]))
            break
        nops += 1
        trail.append(None if obs is None else hashlib.sha1(np.round(obs, 8).tobytes()).hexdigest()[:6])
    return {"vio": vio, "nops": nops, "key": (params["A"], params["B"], cur, None if bath is None else bath["p"])}


# ------------------------------------------------------------------------------------------------
# (2) array layouts

def layouts(x, allow_list=True):
    """name -> (array-like in that layout, underlying buffer to hash)"""
    x = np.ascontiguousarray(np.asarray(x, dtype=complex))
    out = {}
    out["C"] = x.copy()
    out["F"] = np.asfortranarray(x.copy())
    out["T-view"] = np.ascontiguousarray(x.T.copy()).T if x.ndim == 2 else x.copy()
    big = np.zeros(tuple(2 * s for s in x.shape), dtype=complex) + 7.0
    sl = tuple(slice(None, None, 2) for _ in x.shape)
    big[sl] = x
    out["strided"] = big[sl]
    ro = x.copy()
    ro.setflags(write=False)
    out["readonly"] = ro
    if np.abs(x.imag).max() == 0:
        out["real-dtype"] = x.real.copy()
    if allow_list:
        out["list"] = x.tolist()
    return out


def buf_hash(a):
    if isinstance(a, list):
        return hashlib.sha1(repr(a).encode()).hexdigest()
    base = a.base if a.base is not None else a
    return hashlib.sha1(np.ascontiguousarray(base).tobytes()).hexdigest() + str(a.shape) + str(a.strides)


_L = {}


def layout_env():
    if not _L:
        bath = oq.Bath(0.5 * M.SZ, M.ohmic(alpha=0.2, temperature=0.3))
        _L["bath"] = bath
        _L["pt"] = oq.pt_tempo_compute(bath, 0.0, 2.4 * DT, oq.TempoParameters(dt=DT, epsrel=1e-8), progress_type="silent")
        _L["prm"] = oq.TempoParameters(dt=DT, epsrel=1e-8)
    return _L


H_NP = 0.5 * M.SX + 0.2 * M.SZ
H_REAL = np.array([[0.2, 0.5], [0.5, -0.2]], dtype=complex)
KICK = np.kron(M.generic_unitary(2, 9), M.generic_unitary(2, 9).conj())


def api_table():
    """name -> (reference argument (C array), function(arg) -> result array, allow list?)"""
    E = layout_env()
    pt, bath, prm = E["pt"], E["bath"], E["prm"]
    sysm = oq.System(H_NP)

    def dyn(system=None, rho=M.RHO_GEN2, control=None):
        return np.array(oq.compute_dynamics(system or sysm, rho, process_tensor=pt, control=control,
                                            progress_type="silent").states).ravel()

    def t_system_h(a):
        return dyn(system=oq.System(a))

    def t_system_lind(a):
        return dyn(system=oq.System(H_NP, gammas=[0.2], lindblad_operators=[a]))

    def t_bath_op(a):
        b = oq.Bath(a, M.ohmic(alpha=0.2, temperature=0.3))
        return np.array(oq.Tempo(sysm, b, prm, M.RHO_GEN2, 0.0).compute(2.4 * DT, progress_type="silent").states).ravel()

    def t_tempo_state(a):
        return np.array(oq.Tempo(sysm, bath, prm, a, 0.0).compute(2.4 * DT, progress_type="silent").states).ravel()

    def t_cd_state(a):
        return dyn(rho=a)

    def t_control(a):
        c = oq.Control(2)
        c.add_single(1, a)
        return dyn(control=c)

    def t_corr_ops(a):
        return oq.compute_correlations(sysm, pt, a, M.SX, [0, 1], [1, 2], initial_state=M.RHO_GEN2, start_time=0.0,
                                       progress_type="silent")[1].ravel()

    def t_corr_state(a):
        return oq.compute_correlations(sysm, pt, M.SZ, M.SX, [0, 1], [1, 2], initial_state=a, start_time=0.0,
                                       progress_type="silent")[1].ravel()

    from oqupy.gradient import state_gradient
    psys = oq.ParameterizedSystem(hamiltonian=lambda x: 0.5 * x * M.SX + 0.2 * M.SZ)
    xs = np.linspace(0.5, 1.5, 4).reshape(4, 1).astype(complex)

    def t_grad_state(a):
        return state_gradient(psys, a, M.RHO_PLUS.T.copy(), [pt], xs.real.copy(), progress_type="silent")["gradient"].ravel()

    def t_grad_target(a):
        return state_gradient(psys, M.RHO_GEN2, a, [pt], xs.real.copy(), progress_type="silent")["gradient"].ravel()

    def t_grad_params(a):
        return state_gradient(psys, M.RHO_GEN2, M.RHO_PLUS.T.copy(), [pt], a, progress_type="silent")["gradient"].ravel()

    def tebd(mps):
        chain = oq.SystemChain(hilbert_space_dimensions=[2, 2])
        chain.add_site_hamiltonian(site=0, hamiltonian=0.5 * M.SX)
        chain.add_nn_hamiltonian(site=0, hamiltonian_l=0.3 * M.SZ, hamiltonian_r=M.SZ)
        t = oq.PtTebd(mps, chain, [pt, None], oq.PtTebdParameters(dt=DT, order=2, epsrel=1e-9), dynamics_sites=[0, 1])
        r = t.compute(2, progress_type="silent")
        return np.concatenate([np.asarray(r["dynamics"][0].states).ravel(), np.asarray(r["dynamics"][1].states).ravel()])

    def t_mps_gamma2(a):
        return tebd(oq.AugmentedMPS([a, M.RHO_PLUS]))

    def t_mps_gamma1(a):
        return tebd(oq.AugmentedMPS([a, M.RHO_PLUS.reshape(4)]))

    def t_chain_h(a):
        chain = oq.SystemChain(hilbert_space_dimensions=[2, 2])
        chain.add_site_hamiltonian(site=0, hamiltonian=a)
        chain.add_nn_hamiltonian(site=0, hamiltonian_l=a, hamiltonian_r=M.SZ)
        t = oq.PtTebd(oq.AugmentedMPS([M.RHO_GEN2, M.RHO_PLUS]), chain, [pt, None],
                      oq.PtTebdParameters(dt=DT, order=2, epsrel=1e-9), dynamics_sites=[0])
        return np.asarray(t.compute(2, progress_type="silent")["dynamics"][0].states).ravel()

    def t_mf_state(a):
        s = oq.TimeDependentSystemWithField(lambda t, f: 0.5 * M.SZ + np.real(f) * M.SX)
        m = oq.MeanFieldSystem([s], lambda t, st, f: -0.1 * f - 0.1j * np.trace(M.SM @ st[0]))
        d = oq.MeanFieldTempo(m, [bath], prm, [a], 0.5).compute(2.4 * DT, progress_type="silent")
        return np.concatenate([np.array(d.system_dynamics[0].states).ravel(), np.array(d.fields)])

    def t_cdf_state(a):
        s_ = oq.TimeDependentSystemWithField(lambda t, f: 0.5 * M.SZ + np.real(f) * M.SX)
        m = oq.MeanFieldSystem([s_], lambda t, st, f: -0.1 * f - 0.1j * np.trace(M.SM @ st[0]))
        d = oq.compute_dynamics_with_field(m, 0.5, process_tensor_list=[pt], initial_state_list=[a], progress_type="silent")
        return np.concatenate([np.array(d.system_dynamics[0].states).ravel(), np.array(d.fields)])

    def t_bathdyn_state(a):
        tt = oq.bath_dynamics.TwoTimeBathCorrelations(oq.System(0.4 * M.SX + 0.2 * M.SZ), bath, pt, initial_state=a)
        return np.asarray(tt.occupation(1.3, change_only=True, progress_type="silent")[1], dtype=complex).ravel()

    def t_td_h_output(a):
        # the array RETURNED by a user callable, in the layout under test
        return dyn(system=oq.TimeDependentSystem(lambda t: a))

    def t_td_lind_output(a):
        return dyn(system=oq.TimeDependentSystem(lambda t: H_NP, gammas=[lambda t: 0.2], lindblad_operators=[lambda t: a]))

    def t_param_h_output(a):
        from oqupy.gradient import state_gradient as sg
        ps = oq.ParameterizedSystem(hamiltonian=lambda x: a * x)
        r = sg(ps, M.RHO_GEN2, M.RHO_PLUS.T.copy(), [pt], np.linspace(0.5, 1.5, 2 * len(pt)).reshape(-1, 1), progress_type="silent")
        return np.concatenate([np.asarray(r["gradient"]).ravel(), np.asarray(r["dynamics"].states).ravel()])

    def t_spt_mpo(a):
        from oqupy.process_tensor import SimpleProcessTensor
        p_ = SimpleProcessTensor(hilbert_space_dimension=2, dt=DT)
        for k in range(2):
            p_.set_mpo_tensor(k, a.reshape(1, 1, 4, 4) if a.ndim == 2 else a)
        p_.compute_caps()
        return np.array(oq.compute_dynamics(sysm, M.RHO_GEN2, process_tensor=p_, progress_type="silent").states).ravel()

    def t_gibbs_h(a):
        b = oq.Bath(np.diag([0.5, -0.5]).astype(complex), M.ohmic(alpha=0.2, temperature=0.7))
        return np.asarray(oq.gibbs_tempo_compute(oq.System(a), b, oq.GibbsParameters(n_steps=3, epsrel=1e-8),
                                                 progress_type="silent")).ravel()

    def t_cc_control(a):
        cc = oq.ChainControl([2, 2])
        cc.add_single_site_control(a, site=0, step=1)
        chain = oq.SystemChain(hilbert_space_dimensions=[2, 2])
        chain.add_site_hamiltonian(site=0, hamiltonian=0.5 * M.SX)
        t = oq.PtTebd(oq.AugmentedMPS([M.RHO_GEN2, M.RHO_PLUS]), chain, [pt, None],
                      oq.PtTebdParameters(dt=DT, order=2, epsrel=1e-9), chain_control=cc, dynamics_sites=[0])
        return np.asarray(t.compute(2, progress_type="silent")["dynamics"][0].states).ravel()

    return {
        "System.hamiltonian": (H_NP, t_system_h, True),
        "System.hamiltonian(real)": (H_REAL, t_system_h, True),
        "System.lindblad_operator": (M.SM + 0.2 * M.SZ, t_system_lind, True),
        "Bath.coupling_operator": (0.5 * M.SX, t_bath_op, True),
        "Bath.coupling_operator(complex)": (0.5 * M.SY + 0.1 * M.SZ, t_bath_op, True),
        "Tempo.initial_state": (M.RHO_GEN2, t_tempo_state, False),
        "compute_dynamics.initial_state": (M.RHO_GEN2, t_cd_state, False),
        "Control.add_single": (KICK, t_control, False),
        "compute_correlations.operator": (M.SM + 0.3 * M.SZ, t_corr_ops, False),
        "compute_correlations.initial_state": (M.RHO_GEN2, t_corr_state, False),
        "state_gradient.initial_state": (M.RHO_GEN2, t_grad_state, False),
        "state_gradient.target_derivative": (M.RHO_GEN2.T.copy(), t_grad_target, False),
        "state_gradient.parameters": (xs, t_grad_params, False),
        "AugmentedMPS.gamma(rank2)": (M.RHO_GEN2, t_mps_gamma2, True),
        "AugmentedMPS.gamma(rank1)": (M.RHO_GEN2.reshape(4), t_mps_gamma1, True),
        "SystemChain.hamiltonians": (0.4 * M.SX + 0.2 * M.SY, t_chain_h, True),
        "MeanFieldTempo.initial_state": (M.RHO_GEN2, t_mf_state, False),
        "compute_dynamics_with_field.initial_state": (M.RHO_GEN2, t_cdf_state, False),
        "TwoTimeBathCorrelations.initial_state": (M.RHO_GEN2, t_bathdyn_state, False),
        "TimeDependentSystem.hamiltonian(t) output": (H_NP, t_td_h_output, False),
        "TimeDependentSystem.lindblad_operator(t) output": (M.SM + 0.2 * M.SZ, t_td_lind_output, False),
        "ParameterizedSystem.hamiltonian(x) output": (H_NP, t_param_h_output, False),
        "SimpleProcessTensor.set_mpo_tensor": (KICK, t_spt_mpo, False),
        "GibbsTempo.system_hamiltonian": (0.3 * M.SZ + 0.2 * M.SY, t_gibbs_h, True),
        "ChainControl.control": (KICK, t_cc_control, True),
    }


def layout_case(name):
    tab = api_table()
    ref_arg, fn, allow_list = tab[name]
    vio = []
    base = fn(np.ascontiguousarray(ref_arg).copy())
    n = 0
    for lname, arr in layouts(ref_arg, allow_list).items():
        if name == "state_gradient.parameters" and lname in ("list",):
            continue
        if name == "state_gradient.parameters":
            arr = np.real(arr) if lname != "real-dtype" else arr
            if lname == "strided":
                big = np.zeros((8, 2)) + 7.0
                big[::2, ::2] = np.real(ref_arg)
                arr = big[::2, ::2]
            elif lname == "F":
                arr = np.asfortranarray(np.real(ref_arg).copy())
            elif lname == "T-view":
                arr = np.ascontiguousarray(np.real(ref_arg).T.copy()).T
            elif lname == "readonly":
                arr = np.real(ref_arg).copy()
                arr.setflags(write=False)
            else:
                arr = np.real(ref_arg).copy()
        before = buf_hash(arr)
        n += 1
        try:
            got = fn(arr)
        except Exception as ex:  # noqa
            vio.append((f"layout|{name}|{lname}|exception:{type(ex).__name__}", f"{name} given a {lname} array: {ex}"[:200], lname))
            continue
        if buf_hash(arr) != before:
            vio.append((f"layout|{name}|{lname}|caller-buffer-modified", f"{name}: caller's {lname} array changed", lname))
        if got.shape != base.shape or np.abs(got - base).max() > 1e-7:
            vio.append((f"layout|{name}|{lname}|result-differs", f"{name} given a {lname} array: result differs by "
                                                                f"{np.abs(got - base).max() if got.shape == base.shape else 'shape'}", lname))
    return {"vio": vio, "n": n}


# ------------------------------------------------------------------------------------------------
# (4) no aliasing of caller arrays: mutate the caller's array AFTER the call, the object must not notice

def retention_table():
    """name -> function(arr) -> observer; observer() -> array.  arr is a writable C-contiguous complex128 array
    (the layout for which np.asarray / ascontiguousarray / reshape return the caller's own buffer)."""
    E = layout_env()
    bath, prm, pt = E["bath"], E["prm"], E["pt"]

    def dynamics_add(a):
        d = oq.Dynamics()
        d.add(0.0, a)
        return lambda: np.array(d.states).ravel()

    def dynamics_ctor(a):
        d = oq.Dynamics(times=[0.0, 1.0], states=[a, a])
        return lambda: np.concatenate([np.array(d.states).ravel(), d.expectations(M.SZ)[1]])

    def mf_dynamics_add(a):
        from oqupy.dynamics import MeanFieldDynamics
        d = MeanFieldDynamics()
        d.add(0.0, [a], 0.5 + 0j)
        return lambda: np.array(d.system_dynamics[0].states).ravel()

    def system_h(a):
        s_ = oq.System(a)
        return lambda: np.concatenate([np.asarray(s_.hamiltonian).ravel(), np.asarray(s_.liouvillian()).ravel()[:4]])

    def system_lind(a):
        s_ = oq.System(H_NP, gammas=[0.3], lindblad_operators=[a])
        return lambda: np.asarray(s_.lindblad_operators[0]).ravel()

    def bath_op(a):
        b = oq.Bath(a, M.ohmic(alpha=0.2, temperature=0.3))
        return lambda: np.concatenate([b.coupling_operator.ravel(), b.unitary_transform.ravel()])

    def control_add(a):
        c = oq.Control(2)
        c.add_single(1, a)
        return lambda: np.asarray(c.get_controls(1, dt=0.1, start_time=0.0)[0]).ravel()

    def chain_control_add(a):
        c = oq.ChainControl([2, 2])
        c.add_single_site_control(a, site=0, step=1)
        return lambda: np.asarray(c.get_single_site_controls(1, post=False)[0]).ravel()

    def spt_mpo(a):
        from oqupy.process_tensor import SimpleProcessTensor
        p_ = SimpleProcessTensor(hilbert_space_dimension=2, dt=0.1)
        p_.set_mpo_tensor(0, a.reshape(1, 1, 4, 4))
        return lambda: p_.get_mpo_tensor(0).ravel()

    def spt_cap(a):
        from oqupy.process_tensor import SimpleProcessTensor
        p_ = SimpleProcessTensor(hilbert_space_dimension=2, dt=0.1)
        p_.set_cap_tensor(0, a.reshape(16))
        return lambda: np.asarray(p_.get_cap_tensor(0)).ravel()

    def mps_gamma(a):
        m = oq.AugmentedMPS([a.reshape(1, 4, 1, 1), M.RHO_PLUS])
        return lambda: np.asarray(m.gammas[0]).ravel()

    def mps_gamma2(a):
        m = oq.AugmentedMPS([a, M.RHO_PLUS])
        return lambda: np.asarray(m.gammas[0]).ravel()

    def chain_h(a):
        ch = oq.SystemChain(hilbert_space_dimensions=[2, 2])
        ch.add_site_hamiltonian(site=0, hamiltonian=a)
        return lambda: np.asarray(ch.site_liouvillians[0]).ravel()

    def tempo_state(a):
        t = oq.Tempo(oq.System(H_NP), bath, prm, a, 0.0)
        return lambda: np.array(t.compute(1.4 * DT, progress_type="silent").states).ravel()

    def mft_state(a):
        s_ = oq.TimeDependentSystemWithField(lambda t, f: 0.5 * M.SZ + np.real(f) * M.SX)
        m = oq.MeanFieldSystem([s_], lambda t, st, f: -0.1 * f)
        t = oq.MeanFieldTempo(m, [bath], prm, [a], 0.5)
        return lambda: np.array(t.compute(1.4 * DT, progress_type="silent").system_dynamics[0].states).ravel()

    def bathdyn_corr(a):
        tt = oq.bath_dynamics.TwoTimeBathCorrelations(oq.System(0.4 * M.SZ), bath, pt, initial_state=M.RHO_GEN2,
                                                      system_correlations=a[:2, :2])
        return lambda: np.asarray(tt.occupation(1.3, change_only=True, progress_type="silent")[1]).ravel()

    rho = M.RHO_GEN2
    kick = KICK
    return {
        "Dynamics.add": (rho, dynamics_add), "Dynamics(times, states)": (rho, dynamics_ctor),
        "MeanFieldDynamics.add": (rho, mf_dynamics_add), "System.hamiltonian": (H_NP, system_h),
        "System.lindblad_operators": (M.SM + 0.2 * M.SZ, system_lind), "Bath.coupling_operator": (0.5 * M.SX, bath_op),
        "Control.add_single": (kick, control_add), "ChainControl.add_single_site_control": (kick, chain_control_add),
        "SimpleProcessTensor.set_mpo_tensor": (kick, spt_mpo), "SimpleProcessTensor.set_cap_tensor": (kick, spt_cap),
        "AugmentedMPS.gamma(rank4)": (rho, mps_gamma), "AugmentedMPS.gamma(rank2)": (rho, mps_gamma2),
        "SystemChain.add_site_hamiltonian": (H_NP, chain_h), "Tempo.initial_state": (rho, tempo_state),
        "MeanFieldTempo.initial_state_list": (rho, mft_state),
        "TwoTimeBathCorrelations.system_correlations": (np.triu(np.full((4, 4), 0.25 + 0j)), bathdyn_corr),
    }


def retention_case(name):
    tab = retention_table()
    ref_arr, build = tab[name]
    vio = []
    pristine = build(np.array(ref_arr, dtype=complex, order="C").copy())()
    arr = np.array(ref_arr, dtype=complex, order="C").copy()
    try:
        obs = build(arr)
        arr *= 0.0
        arr += 7.0 - 3.0j
        after = obs()
    except Exception as ex:  # noqa
        return {"vio": [(f"retention|{name}|exception:{type(ex).__name__}", str(ex)[:150])], "n": 1}
    if after.shape != pristine.shape or np.abs(after - pristine).max() > 1e-9:
        vio.append((f"retention|{name}|object-follows-later-mutation-of-the-callers-array",
                    f"{name}: after the caller overwrote its array in place the object answers differently (dev "
                    f"{np.abs(after - pristine).max() if after.shape == pristine.shape else 'shape'})"))
    return {"vio": vio, "n": 1}


# ------------------------------------------------------------------------------------------------
# (4b) query histories on one TwoTimeBathCorrelations object: the table of system correlations it accumulates while
#      answering earlier (shorter) queries must not change what a later query returns

BD_QUERIES = ["c11", "c12", "c23", "c14", "c34", "c22", "occ", "occ2"]
_BD = {}


def bd_env():
    if not _BD:
        bath = oq.Bath(0.5 * M.SZ, M.ohmic(alpha=0.3, temperature=0.5))
        prm = oq.TempoParameters(dt=DT, epsrel=1e-9)
        _BD["bath"] = bath
        _BD["pt"] = oq.pt_tempo_compute(bath, 0.0, 4.3 * DT, prm, progress_type="silent")
        # the system does not commute with the coupling: two-time system correlations vary over the table
        _BD["sys"] = oq.System(0.9 * M.SX + 0.3 * M.SZ)
        _BD["ref"] = {q: bd_query(bd_new(), q) for q in BD_QUERIES}
    return _BD


def bd_new(given=None):
    E = _BD
    return oq.bath_dynamics.TwoTimeBathCorrelations(E["sys"], E["bath"], E["pt"], initial_state=M.RHO_GEN2,
                                                    system_correlations=given)


def bd_query(tt, q):
    if q == "occ":
        return np.asarray(tt.occupation(1.3, change_only=True, progress_type="silent")[1], dtype=complex).ravel()
    if q == "occ2":
        return np.asarray(tt.occupation(0.6, 0.2, change_only=False, progress_type="silent")[1], dtype=complex).ravel()
    k1, k2 = int(q[1]), int(q[2])
    return np.array([complex(tt.correlation(1.3, k1 * DT, freq_2=0.8, time_2=k2 * DT, dagg=dg, progress_type="silent"))
                     for dg in ((1, 0), (0, 1), (1, 1))])


def bathdyn_history_case(hist):
    E = bd_env()
    vio = []
    given = None
    qs = list(hist)
    if qs[0].startswith("given"):
        # the caller supplies a (correct) shorter table of system correlations, as the API allows
        n = int(qs[0][5:])
        full = bd_new()
        full.generate_system_correlations(4 * DT, progress_type="silent")
        given = np.array(full._system_correlations[:n, :n])
        qs = qs[1:]
    tt = bd_new(given)
    for i, q in enumerate(qs):
        try:
            obs = bd_query(tt, q)
        except Exception as ex:  # noqa
            vio.append((f"bathdyn|{q[:1]}-query-after-earlier-queries|exception:{type(ex).__name__}", f"history {hist}: {ex}"[:200]))
            break
        ref = E["ref"][q]
        if obs.shape != ref.shape or np.abs(obs - ref).max() > 1e-7:
            before = "+".join(sorted(set(("table-given" if h.startswith("given") else "occupation" if h.startswith("occ")
                                          else "correlation") for h in hist[:len(hist) - len(qs) + i]))) or "nothing"
            vio.append((f"bathdyn|{'occupation' if q.startswith('occ') else 'correlation'}-after-{before}|"
                        f"differs-from-a-fresh-object",
                        f"history {hist}: query {q} differs from the same query on a fresh object by "
                        f"{np.abs(obs - ref).max() if obs.shape == ref.shape else 'shape'}"))
            break
    return {"vio": vio, "n": len(qs)}


def bathdyn_histories(tier):
    out = []
    depth = 3 if tier == "quick" else 4
    for L in range(1, depth + 1):
        out += list(itertools.product(BD_QUERIES, repeat=L))
    for g in ("given1", "given2", "given3"):
        for L in (1, 2):
            out += [(g,) + h for h in itertools.product(BD_QUERIES, repeat=L)]
    return out


# ------------------------------------------------------------------------------------------------
# (5) a process tensor whose tensors are replaced answers with its current tensors

def pt_update_case(args):
    kind, file_backed, order = args
    from mc import ancilla as A, refmodel as R
    d, e, n = 2, 2, 3
    sigma = np.diag([0.7, 0.3]).astype(complex)
    v = M.generic_unitary(2, 4) if kind.endswith("T") else None
    recompute = "recompute" in order      # caps are recomputed by compute_caps() instead of being set explicitly
    order = tuple(o for o in order if o != "recompute")
    capmode = "computed" if recompute else "explicit"

    def tensors(tag):
        if kind == "pttempo":
            # truncated PT-MPOs: their caps are NOT the plain trace vectors, so stale caps are visible
            bath = oq.Bath(0.5 * M.SZ, M.ohmic(alpha=0.2 if tag == 400 else 0.7, temperature=0.1 if tag == 400 else 0.9))
            return oq.pt_tempo_compute(bath, 0.0, (n + 0.4) * DT, oq.TempoParameters(dt=DT, epsrel=1e-7), progress_type="silent")
        if kind.startswith("rank4"):
            ks = [[R.random_free_unitary(d * e, tag + k)] for k in range(n)]
            return A.build_pt(d, e, sigma, ks, dt=DT, basis_v=v, caps=capmode)
        us = [[R.random_free_unitary(e, tag + 10 * k + t) for t in range(d)] for k in range(n)]
        return A.build_pt(d, e, sigma, None, dt=DT, rank3_us=us, basis_v=v, caps=capmode)
    p1, p2 = tensors(400), tensors(500)
    sysm = oq.System(0.5 * M.SX + 0.2 * M.SZ)

    def consume(pt):
        return np.array(oq.compute_dynamics(sysm, M.RHO_GEN2, process_tensor=pt, progress_type="silent").states).ravel()
    fresh2 = consume(p2)
    if file_backed:
        from oqupy.process_tensor import FileProcessTensor
        obj = FileProcessTensor(mode="write", filename=None, hilbert_space_dimension=d, dt=DT,
                                transform_in=p1.transform_in, transform_out=p1.transform_out)
        for k in range(n):
            obj.set_mpo_tensor(k, p1.get_mpo_tensor(k, transformed=False))
        for k in range(n + 1):
            obj.set_cap_tensor(k, p1.get_cap_tensor(k))
    else:
        obj = p1
    vio = []
    try:
        for op in order:
            if op == "use":
                consume(obj)
            elif op == "get":
                [obj.get_mpo_tensor(k) for k in range(n)]
                [obj.get_cap_tensor(k) for k in range(n + 1)]
                obj.get_bond_dimensions()
        for k in range(n):
            obj.set_mpo_tensor(k, p2.get_mpo_tensor(k, transformed=False))
        if recompute:
            obj.compute_caps()
        else:
            for k in range(n + 1):
                obj.set_cap_tensor(k, p2.get_cap_tensor(k))
        after = consume(obj)
        if np.abs(after - fresh2).max() > 1e-10:
            vio.append((f"pt-update|{kind}|{'file' if file_backed else 'simple'}|after-{'+'.join(order) or 'nothing'}"
                        f"{'|caps-recomputed' if recompute else ''}|uses-stale-tensors",
                        f"{kind} file={file_backed}: after {order} and replacing all tensors the dynamics differ from a fresh "
                        f"process tensor by {np.abs(after - fresh2).max():.2e}"))
        for k in range(n):
            if not np.allclose(obj.get_mpo_tensor(k), p2.get_mpo_tensor(k), atol=1e-13):
                vio.append((f"pt-update|{kind}|{'file' if file_backed else 'simple'}|after-{'+'.join(order) or 'nothing'}|get_mpo_tensor-stale", f"step {k}"))
                break
    except Exception as ex:  # noqa
        vio.append((f"pt-update|{kind}|exception:{type(ex).__name__}", str(ex)[:150]))
    finally:
        if file_backed:
            try:
                obj.remove()
            except Exception:  # noqa
                pass
    return {"vio": vio, "n": 1}


# ------------------------------------------------------------------------------------------------
# (3) reuse of shared objects in every order

def reuse_case(perm):
    corr = M.ohmic(alpha=0.25, temperature=0.4)
    bath = oq.Bath(0.5 * M.SX, corr)
    sysm = oq.System(0.5 * M.SZ + 0.2 * M.SX)
    tds = oq.TimeDependentSystem(M.td_hamiltonian)
    prm = oq.TempoParameters(dt=DT, epsrel=1e-9, dkmax=2)
    shared = {"pt": None}

    def fresh():
        c = M.ohmic(alpha=0.25, temperature=0.4)
        return oq.Bath(0.5 * M.SX, c), oq.System(0.5 * M.SZ + 0.2 * M.SX), oq.TimeDependentSystem(M.td_hamiltonian), \
            oq.TempoParameters(dt=DT, epsrel=1e-9, dkmax=2)

    def make_ctrl():
        c_ = oq.Control(2)
        c_.add_single(1, KICK)
        c_.add_single(1, np.diag([1.0, 0.5, 0.5, 1.0]).astype(complex))
        c_.add_single(2, KICK.conj().T, post=True)
        c_.add_single(2, np.diag([1.0, 0.3, 0.3, 1.0]).astype(complex), post=True)
        return c_
    ctrl = make_ctrl()

    def comp(name, bath, sysm, tds, prm, pt, ctrl=None):
        ctrl = ctrl if ctrl is not None else make_ctrl()
        if name == "tempo":
            return np.array(oq.Tempo(sysm, bath, prm, M.RHO_GEN2, 0.0).compute(3.4 * DT, progress_type="silent").states).ravel()
        if name == "tempo-td":
            return np.array(oq.Tempo(tds, bath, prm, M.RHO_PLUS, 0.5).compute(0.5 + 3.4 * DT, progress_type="silent").states).ravel()
        if name == "pttempo":
            p = oq.pt_tempo_compute(bath, 0.0, 3.4 * DT, prm, progress_type="silent")
            return np.array(oq.compute_dynamics(sysm, M.RHO_GEN2, process_tensor=p, progress_type="silent").states).ravel()
        if name == "dynamics":
            return np.array(oq.compute_dynamics(tds, M.RHO_GEN2, process_tensor=pt, start_time=0.3, progress_type="silent").states).ravel()
        if name == "dynamics-late":      # the same time-dependent system and process tensor, another start time
            return np.array(oq.compute_dynamics(tds, M.RHO_GEN2, process_tensor=pt, start_time=1.9, progress_type="silent").states).ravel()
        if name == "controlled":
            return np.array(oq.compute_dynamics(sysm, M.RHO_GEN2, process_tensor=pt, control=ctrl, progress_type="silent").states).ravel()
        if name == "correlations":
            return oq.compute_correlations(sysm, pt, M.SZ, M.SX, [0, 1], slice(None), initial_state=M.RHO_GEN2,
                                           start_time=0.0, progress_type="silent")[1].ravel()
    bf, sf, tf, pf = fresh()
    pt_fresh = oq.pt_tempo_compute(bf, 0.0, 3.4 * DT, pf, progress_type="silent")
    shared["pt"] = pt_fresh      # the PT itself is shared by 'dynamics' and 'correlations' (gauge: same object on both sides)
    vio = []
    for i, name in enumerate(perm):
        got = comp(name, bath, sysm, tds, prm, shared["pt"], ctrl)
        b2, s2, t2, p2 = fresh()
        exp = comp(name, b2, s2, t2, p2, shared["pt"])
        m = ~np.isnan(exp)
        if got.shape != exp.shape or np.abs(got[m] - exp[m]).max() > 1e-6:
            vio.append((f"reuse|{name}-after-{'+'.join(perm[:i]) or 'nothing'}|differs-from-fresh-objects",
                        f"order {perm}: {name} on shared objects differs from fresh objects"))
    return {"vio": vio, "n": len(perm)}


# ------------------------------------------------------------------------------------------------
# (7) module-level constructor functions are pure: the value returned for given arguments does not depend on what the
#     caller did (in place) with arrays returned by earlier calls, and the arguments are not modified

def pure_function_table():
    from oqupy import operators as O
    a2 = M.generic_herm(2, 3, 0.7)
    b2 = M.generic_herm(2, 5, 0.4) + 0.3j * M.SX
    tab = {}
    for nm in ("id", "x", "y", "z", "+", "-"):
        tab[f"operators.sigma({nm!r})"] = (lambda nm=nm: O.sigma(nm), ())
    for nm in ("up", "down", "z+", "z-", "x+", "x-", "y+", "y-", "mixed"):
        tab[f"operators.spin_dm({nm!r})"] = (lambda nm=nm: O.spin_dm(nm), ())
    for n in (2, 3):
        tab[f"operators.identity({n})"] = (lambda n=n: O.identity(n), ())
        tab[f"operators.create({n})"] = (lambda n=n: O.create(n), ())
        tab[f"operators.destroy({n})"] = (lambda n=n: O.destroy(n), ())
    for fn in ("commutator", "acommutator", "left_super", "right_super"):
        tab[f"operators.{fn}(A)"] = (lambda a, fn=fn: getattr(O, fn)(a), (a2,))
    for fn in ("left_right_super", "cross_commutator", "cross_acommutator", "cross_left_right_super"):
        if fn == "cross_left_right_super":
            tab[f"operators.{fn}(A,B,A,B)"] = (lambda a, b, fn=fn: getattr(O, fn)(a, b, b, a), (a2, b2))
        else:
            tab[f"operators.{fn}(A,B)"] = (lambda a, b, fn=fn: getattr(O, fn)(a, b), (a2, b2))
    return tab


def pure_function_case(name):
    f, args = pure_function_table()[name]
    vio = []
    try:
        mine = [np.array(a, copy=True) for a in args]
        first = f(*mine)
        pristine = np.array(first, copy=True)
        if any(not np.array_equal(m, a) for m, a in zip(mine, args)):
            vio.append((f"pure|{name.split('(')[0]}|argument-modified", name))
        for k in range(2):
            got = f(*[np.array(a, copy=True) for a in args])
            if got.shape != pristine.shape or not np.array_equal(got, pristine):
                vio.append((f"pure|{name.split('(')[0]}|value-depends-on-what-the-caller-did-with-an-earlier-result",
                            f"{name}: call {k + 2} differs from call 1 after the caller overwrote the earlier result in place"))
                break
            if got.flags.writeable:
                got *= 0.0
                got += 3.0 - 2.0j
            if isinstance(first, np.ndarray) and first.flags.writeable:
                first[...] = 5.0
    except Exception as ex:  # noqa
        vio.append((f"pure|{name.split('(')[0]}|exception:{type(ex).__name__}", f"{name}: {ex}"[:150]))
    return {"vio": vio, "n": 3}


# ------------------------------------------------------------------------------------------------
# (8) a SystemChain that gains terms between computations: every run must use the terms the chain has NOW

CHAIN_OPS = ["R", "Hs", "Hn", "Ds", "Dn"]


def _chain_apply(chain, op, count):
    f = 1.0 + 0.3 * count          # a repeated operation adds a different amount
    if op == "Hs":
        chain.add_site_hamiltonian(site=0, hamiltonian=0.6 * f * M.SX)
    elif op == "Hn":
        chain.add_nn_hamiltonian(site=0, hamiltonian_l=0.5 * f * M.SZ, hamiltonian_r=M.SX)
    elif op == "Ds":
        chain.add_site_dissipation(site=1, lindblad_operator=M.SM, gamma=0.4 * f)
    elif op == "Dn":
        chain.add_nn_dissipation(site=0, lindblad_operator_l=M.SM, lindblad_operator_r=M.SZ, gamma=0.3 * f)


def _chain_run(chain):
    t = oq.PtTebd(oq.AugmentedMPS([M.RHO_GEN2, M.RHO_PLUS]), chain, [None, None],
                  oq.PtTebdParameters(dt=DT, order=2, epsrel=1e-10), dynamics_sites=[0, 1])
    r = t.compute(2, progress_type="silent")
    return np.concatenate([np.array(r["dynamics"][0].states).ravel(), np.array(r["dynamics"][1].states).ravel()])


def chain_history_case(hist):
    def base():
        c = oq.SystemChain(hilbert_space_dimensions=[2, 2])
        c.add_site_hamiltonian(site=1, hamiltonian=0.3 * M.SZ)
        return c
    chain = base()
    applied = []
    vio = []
    for i, op in enumerate(hist):
        try:
            if op != "R":
                _chain_apply(chain, op, applied.count(op))
                applied.append(op)
                continue
            got = _chain_run(chain)
            fresh = base()
            seen = []
            for a in applied:
                _chain_apply(fresh, a, seen.count(a))
                seen.append(a)
            exp = _chain_run(fresh)
        except Exception as ex:  # noqa
            vio.append((f"chain|{op}|exception:{type(ex).__name__}", f"history {hist} op {i}: {ex}"[:160]))
            break
        if got.shape != exp.shape or np.abs(got - exp).max() > 1e-8:
            nruns = sum(1 for o in hist[:i] if o == "R")
            vio.append((f"chain|run-{'after-earlier-runs-and-added-terms' if nruns else 'first'}|differs-from-a-fresh-chain",
                        f"history {hist}: run at op {i} differs from a freshly built chain with the same terms by "
                        f"{np.abs(got - exp).max() if got.shape == exp.shape else 'shape'}"))
            break
    return {"vio": vio, "n": len(hist)}


def chain_histories(tier):
    depth = 4 if tier == "quick" else 5
    return [h for L in range(2, depth + 1) for h in itertools.product(CHAIN_OPS, repeat=L)
            if h[-1] == "R" and h.count("R") >= 2 and any(o != "R" for o in h)]


# ------------------------------------------------------------------------------------------------
# (9) parameter objects handed to the library are never modified, and a parameter object shared by several computations
#     (of different lengths) gives what a fresh equal parameter object gives

def _public_state(obj):
    out = {}
    for k in dir(obj):
        if k.startswith("_"):
            continue
        try:
            v = getattr(obj, k)
        except Exception:  # noqa
            continue
        if callable(v):
            continue
        out[k] = repr(np.asarray(v).tolist()) if isinstance(v, np.ndarray) else repr(v)
    return out


REINIT_OPS = {"dt2": ("dt", 2 * 0.1), "dt1": ("dt", 0.1), "order1": ("order", 1), "order2": ("order", 2), "keep": None}


def reinit_case(hist):
    """One PtTebd object and its parameter object: after every element of the history a public attribute of the
    parameters is assigned, initialize() is called and three steps are computed; every result must equal that of a
    freshly constructed PtTebd with freshly constructed parameters of the same values (times and states)."""
    def chain():
        ch = oq.SystemChain(hilbert_space_dimensions=[2, 2])
        ch.add_site_hamiltonian(site=0, hamiltonian=0.5 * M.SX)
        ch.add_site_hamiltonian(site=1, hamiltonian=0.3 * M.SZ + 0.2 * M.SX)
        ch.add_nn_hamiltonian(site=0, hamiltonian_l=0.4 * M.SZ, hamiltonian_r=M.SZ)
        ch.add_site_dissipation(1, M.SM, 0.2)
        return ch
    vals = {"dt": 0.1, "order": 2}
    prm = oq.PtTebdParameters(dt=vals["dt"], order=vals["order"], epsrel=1e-10)
    t = oq.PtTebd(oq.AugmentedMPS([M.RHO_GEN2, M.RHO_PLUS]), chain(), [None, None], prm, dynamics_sites=[0, 1])
    t.compute(2, progress_type="silent")
    vio = []
    for i, op in enumerate(hist):
        if REINIT_OPS[op] is not None:
            a, v = REINIT_OPS[op]
            setattr(prm, a, v)
            vals[a] = v
        try:
            t.initialize()
            r = t.compute(3, progress_type="silent")
            f = oq.PtTebd(oq.AugmentedMPS([M.RHO_GEN2, M.RHO_PLUS]), chain(), [None, None],
                          oq.PtTebdParameters(dt=vals["dt"], order=vals["order"], epsrel=1e-10), dynamics_sites=[0, 1])
            e = f.compute(3, progress_type="silent")
        except Exception as ex:  # noqa
            vio.append((f"reinit|{op}|exception:{type(ex).__name__}", f"history {hist[:i + 1]}: {ex}"[:160]))
            break
        for site in (0, 1):
            got, exp = r["dynamics"][site], e["dynamics"][site]
            if len(got.times) != len(exp.times) or np.abs(np.asarray(got.times) - np.asarray(exp.times)).max() > 1e-12:
                vio.append((f"reinit|{op}|times-differ-from-a-fresh-object", f"history {hist[:i + 1]} site {site}"))
            elif np.abs(np.asarray(got.states) - np.asarray(exp.states)).max() > 1e-7:
                vio.append((f"reinit|{op}|states-differ-from-a-fresh-object",
                            f"history {hist[:i + 1]} site {site}: re-initialised PtTebd with {vals} differs from a fresh one by "
                            f"{np.abs(np.asarray(got.states) - np.asarray(exp.states)).max():.2e}"))
    return {"vio": vio, "n": len(hist)}


PARAM_COMPS = ["pt-short", "pt-long", "tempo-short", "tempo-long", "mf-long", "gibbs", "gibbs-cold", "tebd"]


def parameter_case(perm):
    mem, order = perm
    dk = {"none": None, "dk3": 3}[mem]
    bath = oq.Bath(0.5 * M.SX, M.ohmic(alpha=0.4, temperature=0.4))

    def fresh():
        return {"tempo": oq.TempoParameters(dt=DT, epsrel=1e-9, dkmax=dk),
                "gibbs": oq.GibbsParameters(n_steps=4, epsrel=1e-9),
                "tebd": oq.PtTebdParameters(dt=DT, order=2, epsrel=1e-9)}

    def comp(name, P):
        sysm = oq.System(0.5 * M.SZ + 0.2 * M.SX)
        if name.startswith("pt-"):
            n = 2 if name == "pt-short" else 6
            pt = oq.pt_tempo_compute(bath, 0.0, (n + 0.4) * DT, P["tempo"], progress_type="silent")
            return np.array(oq.compute_dynamics(sysm, M.RHO_GEN2, process_tensor=pt, progress_type="silent").states)[-1].ravel()
        if name.startswith("tempo-"):
            n = 2 if name == "tempo-short" else 6
            return np.array(oq.Tempo(sysm, bath, P["tempo"], M.RHO_GEN2, 0.0).compute((n + 0.4) * DT, progress_type="silent").states)[-1].ravel()
        if name == "mf-long":
            s_ = oq.TimeDependentSystemWithField(lambda t, a: 0.5 * M.SZ + np.real(a) * M.SX)
            m = oq.MeanFieldSystem([s_], lambda t, st, a: -0.1 * a - 0.1j * np.trace(M.SM @ st[0]))
            t_ = oq.MeanFieldTempo(m, [bath], P["tempo"], [M.RHO_GEN2], 0.5, 0.0)
            return np.array(t_.compute(5.4 * DT, progress_type="silent").system_dynamics[0].states)[-1].ravel()
        if name in ("gibbs", "gibbs-cold"):
            b = oq.Bath(np.diag([0.5, -0.5]).astype(complex), M.ohmic(alpha=0.2, temperature=0.7 if name == "gibbs" else 0.25))
            return np.asarray(oq.gibbs_tempo_compute(oq.System(0.3 * M.SZ + 0.2 * M.SX), b, P["gibbs"], progress_type="silent")).ravel()
        chain = oq.SystemChain(hilbert_space_dimensions=[2, 2])
        chain.add_site_hamiltonian(site=0, hamiltonian=0.5 * M.SX)
        chain.add_nn_hamiltonian(site=0, hamiltonian_l=0.4 * M.SZ, hamiltonian_r=M.SZ)
        t_ = oq.PtTebd(oq.AugmentedMPS([M.RHO_GEN2, M.RHO_PLUS]), chain, [None, None], P["tebd"], dynamics_sites=[0])
        return np.asarray(t_.compute(3, progress_type="silent")["dynamics"][0].states)[-1].ravel()
    shared = fresh()
    before = {k: _public_state(v) for k, v in shared.items()}
    vio = []
    for i, name in enumerate(order):
        try:
            got = comp(name, shared)
            exp = comp(name, fresh())
        except Exception as ex:  # noqa
            vio.append((f"parameters|{name}|exception:{type(ex).__name__}", f"memory={mem} order {order}: {ex}"[:160]))
            break
        after = {k: _public_state(v) for k, v in shared.items()}
        changed = [f"{k}.{a}" for k in after for a in after[k] if after[k][a] != before[k].get(a)]
        if changed:
            vio.append((f"parameters|{name}|the-callers-parameter-object-was-modified",
                        f"memory={mem} order {order}: after {name} the attributes {changed[:4]} of the caller's parameter object "
                        f"changed: {[(before[c.split('.')[0]].get(c.split('.')[1]), after[c.split('.')[0]][c.split('.')[1]]) for c in changed[:2]]}"))
            before = after
        if got.shape != exp.shape or np.abs(got - exp).max() > 1e-6:
            vio.append((f"parameters|{name}-after-{'+'.join(order[:i]) or 'nothing'}|differs-from-fresh-parameter-objects",
                        f"memory={mem} order {order}: {name} with the shared parameter object differs from a fresh one by "
                        f"{np.abs(got - exp).max() if got.shape == exp.shape else 'shape'}"))
    return {"vio": vio, "n": len(order)}


RESOLUTION_COMPS = ["tempo-dt1", "tempo-dt2", "free-dt1", "free-dt2", "td-dt2", "mf-dt2", "mf-dt1"]


def resolution_case(args):
    """one System / TimeDependentSystem / MeanFieldSystem / Bath shared by computations at DIFFERENT time steps
    (a convergence check), in every order; each result is compared with freshly constructed objects.
    construct_first: all Tempo / MeanFieldTempo objects of the order are constructed before any of them is propagated."""
    perm, construct_first = args if isinstance(args[0], (tuple, list)) else (args, False)

    def objs():
        s_ = oq.TimeDependentSystemWithField(lambda t, a: 0.5 * M.SZ + np.real(a) * M.SX)
        return {"bath": oq.Bath(0.5 * M.SX, M.ohmic(alpha=0.25, temperature=0.4)),
                "sys": oq.System(0.5 * M.SZ + 0.2 * M.SX, gammas=[0.1], lindblad_operators=[M.SM]),
                "tds": oq.TimeDependentSystem(M.td_hamiltonian),
                "mf": oq.MeanFieldSystem([s_], lambda t, st, a: -0.1 * a - 0.1j * np.trace(M.SM @ st[0]))}
    dts = {"dt1": DT, "dt2": 0.5 * DT}

    def build(name, o):
        kind, dtn = name.rsplit("-", 1)
        prm = oq.TempoParameters(dt=dts[dtn], epsrel=1e-9, dkmax=2)
        if kind == "tempo":
            return oq.Tempo(o["sys"], o["bath"], prm, M.RHO_GEN2, 0.0)
        if kind == "mf":
            return oq.MeanFieldTempo(o["mf"], [o["bath"]], prm, [M.RHO_GEN2], 0.5, 0.0)
        return None

    def comp(name, o, obj=None):
        kind, dtn = name.rsplit("-", 1)
        dt = dts[dtn]
        n = 2 if dtn == "dt1" else 4
        if kind == "tempo":
            return np.array((obj or build(name, o)).compute((n + 0.4) * dt, progress_type="silent").states)[-1].ravel()
        if kind == "free":
            return np.array(oq.compute_dynamics(o["sys"], M.RHO_GEN2, dt=dt, num_steps=n, progress_type="silent").states)[-1].ravel()
        if kind == "td":
            return np.array(oq.compute_dynamics(o["tds"], M.RHO_GEN2, dt=dt, num_steps=n, start_time=0.3, progress_type="silent").states)[-1].ravel()
        return np.array((obj or build(name, o)).compute((n + 0.4) * dt, progress_type="silent").system_dynamics[0].states)[-1].ravel()
    shared = objs()
    built = {i: build(name, shared) for i, name in enumerate(perm)} if construct_first else {}
    vio = []
    tag = "constructed-first|" if construct_first else ""
    for i, name in enumerate(perm):
        try:
            got = comp(name, shared, built.get(i))
            exp = comp(name, objs())
        except Exception as ex:  # noqa
            vio.append((f"resolution|{tag}{name}|exception:{type(ex).__name__}", f"order {perm}: {ex}"[:160]))
            break
        if got.shape != exp.shape or np.abs(got - exp).max() > 1e-6:
            before = "+".join(sorted(set(x.rsplit("-", 1)[1] for x in perm[:i]))) or "nothing"
            vio.append((f"resolution|{tag}{name.rsplit('-', 1)[0]}-after-runs-at-{before}|differs-from-fresh-objects",
                        f"order {perm} (construct_first={construct_first}): {name} on shared system/bath objects differs from "
                        f"fresh objects by {np.abs(got - exp).max() if got.shape == exp.shape else 'shape'}"))
    return {"vio": vio, "n": len(perm)}


def run(tier, seed):
    rep = Report(LEVEL)
    depth = 4 if tier == "quick" else 5
    kinds = ["PowerLawSD", "CustomSD", "CustomCorrelations"]
    jobs = []
    for kind in kinds:
        d = depth if kind != "CustomCorrelations" else min(depth, 4)
        for L in range(1, d + 1):
            for h in itertools.product(OPS, repeat=L):
                if not any(o in ("E", "R", "T") for o in h):
                    continue
                if h[0] in ("R", "T") or h[-1] in ("S1", "S2", "X", "B"):
                    continue
                if kind == "CustomCorrelations" and sum(o in ("E", "R", "T") for o in h) > 2:
                    continue       # dblquad-based integrals are slow; at most two evaluations per history
                jobs.append((kind, h))
    # the zero-temperature world: all histories one level shallower
    for kind in ("PowerLawSD@T0", "CustomSD@T0"):
        for L in range(1, depth):
            for h in itertools.product(OPS, repeat=L):
                if not any(o in ("E", "R", "T") for o in h) or "S2" not in h:
                    continue
                if h[0] in ("R", "T") or h[-1] in ("S1", "S2", "X", "B"):
                    continue
                jobs.append((kind, h))
    # world Z (S1 = exponent zeta / cutoff frequency instead of the coupling strength): one level shallower
    for kind in ("PowerLawSD@Z", "CustomSD@Z"):
        for L in range(1, depth):
            for h in itertools.product(OPS, repeat=L):
                if not any(o in ("E", "R", "T") for o in h) or "S1" not in h:
                    continue
                if h[0] in ("R", "T") or h[-1] in ("S1", "S2", "X", "B"):
                    continue
                jobs.append((kind, h))
    precompute_references(kinds + ["PowerLawSD@Z", "CustomSD@Z"])       # before the worker pool is forked: workers inherit the pristine references
    res = pmap(history_case, jobs, seed=seed)
    states, trans = set(), 0
    for (kind, h), r in zip(jobs, res):
        trans += r["nops"]
        states.add((kind,) + tuple(r["key"]))
        for cls, what in r["vio"]:
            rep.add(Violation(cls, what, {"part": "history", "kind": kind, "hist": list(h)}))
    layout_env()
    names = list(api_table())
    lres = pmap(layout_case, names, chunksize=1, seed=seed)
    nl = 0
    for nm, r in zip(names, lres):
        nl += r["n"]
        for cls, what, lname in r["vio"]:
            rep.add(Violation(cls, what, {"part": "layout", "api": nm}))
    rnames = list(retention_table())
    rr = pmap(retention_case, rnames, chunksize=1, seed=seed)
    for nm, r in zip(rnames, rr):
        nl += r["n"]
        for cls, what in r["vio"]:
            rep.add(Violation(cls, what, {"part": "retention", "api": nm}))
    bd_env()
    bh = bathdyn_histories(tier)
    br = pmap(bathdyn_history_case, bh, seed=seed)
    for h, r in zip(bh, br):
        nl += r["n"]
        for cls, what in r["vio"]:
            rep.add(Violation(cls, what, {"part": "bathdyn", "hist": list(h)}))
    ujobs = [(k, f, o) for k in ("rank4", "rank4T", "rank3", "rank3T", "pttempo") for f in (False, True)
             for o in ((), ("use",), ("get",), ("get", "use"), ("use", "get"), ("recompute",), ("use", "recompute"))]
    ur = pmap(pt_update_case, ujobs, seed=seed)
    for j, r in zip(ujobs, ur):
        nl += r["n"]
        for cls, what in r["vio"]:
            rep.add(Violation(cls, what, {"part": "ptupdate", "args": [j[0], j[1], list(j[2])]}))
    comps = ["tempo", "tempo-td", "pttempo", "dynamics", "dynamics-late", "correlations", "controlled", "controlled"]
    allp = sorted(set(itertools.permutations(comps)))
    perms = allp[::48] if tier == "thorough" else [p for p in allp if p[0] in ("tempo", "pttempo", "dynamics", "controlled")][::320]
    # every ordered pair of computations next to each other at the start of some order (pairwise coverage of "B after A")
    firsts = set(p[:2] for p in perms)
    for a_, b_ in itertools.permutations(sorted(set(comps)), 2):
        if (a_, b_) not in firsts:
            perms.append((a_, b_) + tuple(c for c in comps if c not in (a_, b_)) + (("controlled",) if "controlled" in (a_, b_) else ()))
            firsts.add((a_, b_))
    rres = pmap(reuse_case, perms, seed=seed)
    for p, r in zip(perms, rres):
        trans += r["n"]
        for cls, what in r["vio"]:
            rep.add(Violation(cls, what, {"part": "reuse", "perm": list(p)}))
    pnames = list(pure_function_table())
    pres_ = pmap(pure_function_case, pnames, seed=seed)
    for nm, r in zip(pnames, pres_):
        nl += r["n"]
        for cls, what in r["vio"]:
            rep.add(Violation(cls, what, {"part": "pure", "name": nm}))
    chs = chain_histories(tier)
    cres_ = pmap(chain_history_case, chs, seed=seed)
    for h, r in zip(chs, cres_):
        nl += r["n"]
        for cls, what in r["vio"]:
            rep.add(Violation(cls, what, {"part": "chain", "hist": list(h)}))
    pperms = [(mem, o_) for mem in ("none", "dk3") for o_ in itertools.permutations(PARAM_COMPS, 2 if tier == "quick" else 3)]
    ppres = pmap(parameter_case, pperms, seed=seed)
    for p_, r in zip(pperms, ppres):
        trans += r["n"]
        for cls, what in r["vio"]:
            rep.add(Violation(cls, what, {"part": "parameters", "perm": [p_[0], list(p_[1])]}))
    rih = [h_ for n_ in (1, 2, 3 if tier == "quick" else 4) for h_ in itertools.product(sorted(REINIT_OPS), repeat=n_)]
    for h_, r in zip(rih, pmap(reinit_case, rih, seed=seed)):
        trans += r["n"]
        for cls, what in r["vio"]:
            rep.add(Violation(cls, what, {"part": "reinit", "hist": list(h_)}))
    rperms = [(p_, False) for p_ in itertools.permutations(RESOLUTION_COMPS, 3 if tier == "quick" else 4)]
    rperms += [(p_, True) for p_ in itertools.permutations(["tempo-dt1", "tempo-dt2", "mf-dt1", "mf-dt2", "free-dt1"], 2 if tier == "quick" else 3)]
    qres = pmap(resolution_case, rperms, seed=seed)
    for (p_, cf), r in zip(rperms, qres):
        trans += r["n"]
        for cls, what in r["vio"]:
            rep.add(Violation(cls, what, {"part": "resolution", "perm": list(p_), "construct_first": cf}))
    rep.coverage = {
        "states": len(states) + nl,
        "transitions": trans + nl,
        "traces_validated_against_impl": len(jobs) + nl + len(perms),
        "histories": len(jobs), "history_depth": depth, "layout_runs": nl, "apis_with_array_arguments": len(names),
        "reuse_orders": len(perms), "bath_dynamics_query_histories": len(bh), "resolution_orders": len(rperms), "pure_functions": len(pnames), "chain_histories": len(chs), "parameter_object_orders": len(pperms), "reinitialisation_histories": len(rih),
        "exhaustive": tier == "thorough",
        "rule": "state = (current public parameter values of objects A and B, selected object, parameters the latest bath was "
                "built with); every history over {E,B,R,T,S1,S2,X} up to the depth that ends in an observation is executed on real "
                "objects (CustomCorrelations: depth <= 4 and at most two evaluations); oracle = same observation on freshly "
                "constructed objects; layouts: 19 array arguments x up to 7 layouts; retention: 16 APIs that keep a caller array, the caller "
                "overwrites its array in place after the call and the object must answer as before; bath dynamics: every sequence "
                "of up to 3 (thorough 4) queries out of 8 (correlations at 6 time pairs, 2 occupations) on one TwoTimeBathCorrelations "
                "object, optionally starting from a caller-supplied shorter table, each answer compared with a fresh object; process-tensor update: 4 kinds x "
                "{in-memory, file-backed} x 5 use/get prefixes, then all tensors are replaced and the object must behave like a fresh one; reuse: orders of 7 computations (5 kinds + the same stacked Control object used twice) on "
                "shared objects, a regular sub-sample of the 20160 distinct orders of 8 computations (quick every 320th, thorough every "
                "48th) completed so that every ordered pair of computations starts some order; resolution: every "
                "ordered selection of 3 (thorough 4) out of 7 computations at two different time steps on shared system / bath objects",
        "samples": [{"kind": jobs[(17 * seed) % len(jobs)][0], "history": list(jobs[(17 * seed) % len(jobs)][1])},
                    {"layout": ["AugmentedMPS.gamma(rank2)", "T-view"]}, {"reuse": list(perms[0])}],
    }
    rep.assumptions = ["reference observations are computed in freshly spawned interpreters (one evaluation per process)",
                       "public attributes considered: alpha / j_function / correlation_function (S1) and temperature (S2); temperature "
                       "values 0.2/0.9/0.7 and, in a second world explored one level shallower, 0 -> 0.7 and 0.9 -> 0",
                       "fresh-object replay is the oracle; Tempo comparisons to 1e-6 at epsrel 1e-9"]
    return rep


def replay(rp):
    if rp["part"] == "history":
        r = history_case((rp["kind"], tuple(rp["hist"])))
        return {"obs": r["vio"], "violation": r["vio"][0][0] if r["vio"] else None}
    if rp["part"] == "layout":
        r = layout_case(rp["api"])
        return {"obs": [v[:2] for v in r["vio"]], "violation": r["vio"][0][0] if r["vio"] else None}
    if rp["part"] == "ptupdate":
        a = rp["args"]
        r = pt_update_case((a[0], a[1], tuple(a[2])))
        return {"obs": r["vio"], "violation": r["vio"][0][0] if r["vio"] else None}
    if rp["part"] == "parameters":
        r = parameter_case((rp["perm"][0], tuple(rp["perm"][1])))
        return {"obs": r["vio"], "violation": r["vio"][0][0] if r["vio"] else None}
    if rp["part"] == "reinit":
        r = reinit_case(tuple(rp["hist"]))
        return {"obs": r["vio"], "violation": r["vio"][0][0] if r["vio"] else None}
    if rp["part"] == "chain":
        r = chain_history_case(tuple(rp["hist"]))
        return {"obs": r["vio"], "violation": r["vio"][0][0] if r["vio"] else None}
    if rp["part"] == "pure":
        r = pure_function_case(rp["name"])
        return {"obs": r["vio"], "violation": r["vio"][0][0] if r["vio"] else None}
    if rp["part"] == "resolution":
        r = resolution_case((tuple(rp["perm"]), bool(rp.get("construct_first"))))
        return {"obs": r["vio"], "violation": r["vio"][0][0] if r["vio"] else None}
    if rp["part"] == "bathdyn":
        bd_env()
        r = bathdyn_history_case(tuple(rp["hist"]))
        return {"obs": r["vio"], "violation": r["vio"][0][0] if r["vio"] else None}
    if rp["part"] == "retention":
        r = retention_case(rp["api"])
        return {"obs": r["vio"], "violation": r["vio"][0][0] if r["vio"] else None}
    r = reuse_case(tuple(rp["perm"]))
    return {"obs": r["vio"], "violation": r["vio"][0][0] if r["vio"] else None}
