"""Shared by C01 / C02: spectral-density alphabet, an independent quadrature for the discretised bath
kernel cells, the independent-boson closed form with the discretised memory semantics, the explicit
finite-mode simulation, and a thin driver for TEMPO and PT-TEMPO + compute_dynamics.

Nothing in the oracle part imports oqupy.  The kernel cells are NOT obtained as differences of an
eta(t) function (which is what the library does) but by integrating, for every cell separately,

    cell = int_0^inf dw J(w) [ coth(w/2T) Re K(w) + i Im K(w) ],     K(w) = iint_cell exp(-i w (t'-t'')) dt'' dt'

with K(w) in closed form:   triangle 0<t''<t'<D            K = (D - (1-e^{-iwD})/(iw)) / (iw)
                            rectangle t' in [a,b], t'' in [0,D]   K = e^{-iw(a+b)/2} (b-a) sinc(w(b-a)/2) * e^{iwD/2} D sinc(wD/2)
(a square is the rectangle [k D, (k+1) D]).
"""
import math

import numpy as np
import scipy.integrate as si
import scipy.linalg as sl

from mc.common import bind_repo
from mc import refmodel as R
from . import models as M

oq = bind_repo()


# ---------------------------------------------------------------------------------------------
# spectral densities (own formulas) and the corresponding library objects

def sd_spec(kind="power", alpha=0.3, zeta=1.0, wc=3.0, cutoff="exponential", temp=0.0):
    return {"kind": kind, "alpha": alpha, "zeta": zeta, "wc": wc, "cutoff": cutoff, "temp": temp}


def sd_key(s):
    return (s["kind"], s["alpha"], s["zeta"], s["wc"], s["cutoff"], s["temp"])


def _envelope(s, w):
    c, wc = s["cutoff"], s["wc"]
    if c == "hard":
        return 1.0 if w < wc else 0.0
    if c == "exponential":
        return math.exp(-w / wc)
    if c == "gaussian":
        return math.exp(-(w / wc) ** 2)
    raise ValueError(c)


def _structured_j(s, w):
    """the 'custom J' member that is not a power law: ohmic rise with a Lorentzian bump"""
    wc = s["wc"]
    return 2.0 * s["alpha"] * w * (1.0 + 1.5 / (1.0 + ((w - 0.6 * wc) / (0.25 * wc)) ** 2))


def j_own(s, w):
    """J(w) including the cut-off envelope, own formula."""
    if s["kind"] in ("power", "custom-power"):
        j = 2.0 * s["alpha"] * w ** s["zeta"] / s["wc"] ** (s["zeta"] - 1.0)
    elif s["kind"] == "custom-structured":
        j = _structured_j(s, w)
    else:
        raise ValueError(s["kind"])
    return j * _envelope(s, w)


def w_max(s):
    return {"hard": 1.0, "exponential": 42.0, "gaussian": 6.5}[s["cutoff"]] * s["wc"]


def lib_correlations(s):
    if s["kind"] == "power":
        return oq.PowerLawSD(alpha=s["alpha"], zeta=s["zeta"], cutoff=s["wc"], cutoff_type=s["cutoff"],
                             temperature=s["temp"])
    if s["kind"] == "custom-power":
        a, z, wc = s["alpha"], s["zeta"], s["wc"]
        return oq.CustomSD(lambda w: 2.0 * a * w ** z * wc ** (1.0 - z), cutoff=wc, cutoff_type=s["cutoff"],
                           temperature=s["temp"])
    if s["kind"] == "custom-structured":
        return oq.CustomSD(lambda w: _structured_j(s, w), cutoff=s["wc"], cutoff_type=s["cutoff"],
                           temperature=s["temp"])
    raise ValueError(s["kind"])


# ---------------------------------------------------------------------------------------------
# own quadrature of the kernel cells

def _sinc(x):
    return 1.0 if abs(x) < 1e-8 else math.sin(x) / x


def _k_tri(w, d):
    x = w * d
    if x < 0.05:
        re = d * d * (0.5 - x * x / 24.0 + x ** 4 / 720.0 - x ** 6 / 40320.0)
        im = -d * d * x * (1.0 / 6.0 - x * x / 120.0 + x ** 4 / 5040.0 - x ** 6 / 362880.0)
    else:
        re = (1.0 - math.cos(x)) / (w * w)
        im = -(x - math.sin(x)) / (w * w)
    return re, im


def _k_rect(w, a, b, d):
    amp = (b - a) * _sinc(0.5 * w * (b - a)) * d * _sinc(0.5 * w * d)
    ph = -0.5 * w * (a + b) + 0.5 * w * d
    return amp * math.cos(ph), amp * math.sin(ph)


def _coth_half(w, temp):
    """coth(w/2T); T=0 -> 1."""
    if temp == 0.0:
        return 1.0
    x = w / (2.0 * temp)
    if x > 30.0:
        return 1.0
    return 1.0 / math.tanh(x)


QUAD_EPS = 1e-11
_CELLS = {}


def _integrate(f, s, tmax):
    """int_0^wmax f(w) dw with the substitution w = u^2 on the first segment (removes the w^(zeta-1)
    end-point singularity of thermal sub-ohmic integrands); fixed break points."""
    wm = w_max(s)
    wc = s["wc"]
    brk = sorted({b for b in (0.25 * wc, wc, 2 * wc, 4 * wc, 8 * wc, 16 * wc, wm) if b <= wm})
    tot = 0.0
    err = 0.0
    lo = 0.0
    for i, hi in enumerate(brk):
        if i == 0:
            v, e = si.quad(lambda u: 2.0 * u * f(u * u), 0.0, math.sqrt(hi), epsabs=0.0, epsrel=QUAD_EPS, limit=400)
        else:
            v, e = si.quad(f, lo, hi, epsabs=1e-18, epsrel=QUAD_EPS, limit=400)
        tot += v
        err += e
        lo = hi
    return tot, err


def cell(s, shape, a, b, d):
    """Complex kernel cell.  shape 'tri': 0<t''<t'<d;  'rect': t' in [a,b], t'' in [0,d]."""
    key = (sd_key(s), shape, round(a, 12), round(b, 12), round(d, 12))
    if key in _CELLS:
        return _CELLS[key]
    temp = s["temp"]
    if shape == "tri":
        def kre(w):
            return _k_tri(w, d)[0]

        def kim(w):
            return _k_tri(w, d)[1]
    else:
        def kre(w):
            return _k_rect(w, a, b, d)[0]

        def kim(w):
            return _k_rect(w, a, b, d)[1]
    re, e1 = _integrate(lambda w: j_own(s, w) * _coth_half(w, temp) * kre(w) if w > 0 else 0.0, s, b)
    im, e2 = _integrate(lambda w: j_own(s, w) * kim(w) if w > 0 else 0.0, s, b)
    val = complex(re, im)
    _CELLS[key] = (val, e1 + e2)
    return _CELLS[key]


def memory_exponents(s, dt, n_steps, dkmax, tau_add):
    """E_n (n = 0..n_steps): accumulated kernel of a path with constant coupling value, with exactly the
    documented discretised memory: at step m (state at t_m) the current slot interacts with itself (triangle),
    with the slots at distance 1..K-1 (squares), and with the slot at distance K through
        - the square(K)                                   if add_correlation_time is None, or m == K+1
        - the rectangle [K dt, K dt + min((m-K) dt, dt + tau_add)]   otherwise;
    without dkmax all distances 1..m-1 enter as squares.  Returns (E list, accumulated quadrature error)."""
    es = [0.0 + 0.0j]
    err = 0.0
    for m in range(1, n_steps + 1):
        c, e = cell(s, "tri", 0.0, dt, dt)
        err += e
        top = m - 1 if dkmax is None else min(m - 1, dkmax - 1)
        for dk in range(1, top + 1):
            v, e = cell(s, "rect", dk * dt, (dk + 1) * dt, dt)
            c += v
            err += e
        if dkmax is not None and m - 1 >= dkmax:
            if tau_add is None:
                v, e = cell(s, "rect", dkmax * dt, (dkmax + 1) * dt, dt)
            else:
                width = min((m - dkmax) * dt, dt + tau_add)
                v, e = cell(s, "rect", dkmax * dt, dkmax * dt + width, dt)
            c += v
            err += e
        es.append(es[-1] + c)
    return es, err


def independent_boson(h, o, rho0, dt, exps, start=0.0):
    """rho(t_n) = sum_ab P_a U_n rho0 U_n^dag P_b exp(-(o_a-o_b)[(o_a-o_b) Re E_n + i (o_a+o_b) Im E_n])
    for [h, o] = 0; P_a spectral projectors of o (degenerate eigenvalues grouped)."""
    assert np.abs(h @ o - o @ h).max() < 1e-12
    w, v = np.linalg.eigh(o)
    groups = []
    for i, x in enumerate(w):
        if groups and abs(x - groups[-1][0]) < 1e-9:
            groups[-1][1].append(i)
        else:
            groups.append([x, [i]])
    projs = [(x, v[:, idx] @ v[:, idx].conj().T) for x, idx in groups]
    out = []
    for n, e in enumerate(exps):
        u = sl.expm(-1j * h * dt * n)
        r = u @ rho0 @ u.conj().T
        acc = np.zeros_like(r)
        for oa, pa in projs:
            for ob, pb in projs:
                f = np.exp(-(oa - ob) * ((oa - ob) * e.real + 1j * (oa + ob) * e.imag))
                acc = acc + f * (pa @ r @ pb)
        out.append(acc)
    return out


# ---------------------------------------------------------------------------------------------
# finite-mode bath: correlation function and explicit simulation

def modes_correlation(modes):
    """C(tau) = sum_k g_k^2 [coth(w_k/2T_k) cos(w_k tau) - i sin(w_k tau)]; modes = [(w, g, T), ...]"""
    def c(tau):
        tot = 0.0 + 0.0j
        for (w, g, t) in modes:
            tot += g * g * (_coth_half(w, t) * math.cos(w * tau) - 1j * math.sin(w * tau))
        return tot
    return c


def fock_sizes(modes, onorm, margin=0):
    """Fock truncation per mode: thermal tail exp(-n w/T) and the Poisson tail of the largest coherent displacement
    2 g |o|/w both below ~1e-13.  Only a starting point: the caller repeats the simulation with a larger cut and
    requires agreement (see C01 finite-mode family)."""
    out = []
    for (w, g, t) in modes:
        n_th = 0 if t == 0 else int(math.ceil(30.0 * t / w))
        amp = 2.0 * g * onorm / w
        n_d = int(math.ceil(amp * amp + 8.0 * amp + 6.0))
        out.append(n_th + n_d + margin)
    return out


def modes_simulation(o, modes, rho0, dt, n_steps, props, margin=0):
    """Explicit density-matrix evolution of system (x) modes with the symmetric splitting
       half system step P1(k),  exp(-i dt (O (x) sum_k g_k (b_k + b_k^dag) + sum_k w_k b_k^dag b_k)),  half system step P2(k);
    modes start in their thermal states.  props(k) -> (P1, P2) system superoperators (row-major vec).
    The joint unitary is applied as the product over modes of exp(-i dt (O (x) g_k x_k + w_k n_k)) (each a dense
    matrix exponential on system (x) mode k); the factors commute exactly, so this *is* the joint exponential.
    State tensor R[s, n_1..n_m, s', n_1'..n_m']."""
    d = o.shape[0]
    m = len(modes)
    sizes = fock_sizes(modes, float(np.abs(np.linalg.eigvalsh(o)).max()), margin)
    us = []
    rho = np.asarray(rho0, dtype=complex)
    for (w, g, t), nf in zip(modes, sizes):
        a = np.diag(np.sqrt(np.arange(1, nf)), 1).astype(complex)
        hk = np.kron(o, g * (a + a.conj().T)) + np.kron(np.eye(d), w * (a.conj().T @ a))
        us.append(sl.expm(-1j * dt * hk).reshape(d, nf, d, nf))
        if t > 0:
            p = np.exp(-w * np.arange(nf) / t)
        else:
            p = np.zeros(nf)
            p[0] = 1.0
        rho = np.kron(rho, np.diag(p / p.sum()).astype(complex))
    dims = [d] + list(sizes)
    rho = rho.reshape(dims + dims)
    nax = m + 1

    def sys_apply(sup, r):
        s4 = np.asarray(sup).reshape(d, d, d, d)                      # [s, s', t, t']
        r = np.tensordot(s4, r, axes=([2, 3], [0, nax]))               # [s, s', n.., n'..]
        return np.moveaxis(r, 1, nax)

    def env_apply(k, r):
        u4 = us[k]
        r = np.tensordot(u4, r, axes=([2, 3], [0, 1 + k]))             # [s, n_k, (others)...]
        r = np.moveaxis(r, 1, 1 + k)
        r = np.tensordot(u4.conj(), r, axes=([2, 3], [nax, nax + 1 + k]))   # [s', n_k', (rest in order)]
        r = np.moveaxis(r, [0, 1], [nax, nax + 1 + k])
        return r

    def reduced(r):
        idx = list(range(2 * nax))
        for j in range(1, nax):
            idx[nax + j] = idx[j]
        return np.einsum(r, idx, [0, nax])

    states = [reduced(rho)]
    for k in range(n_steps):
        p1, p2 = props(k)
        rho = sys_apply(p1, rho)
        for j in range(m):
            rho = env_apply(j, rho)
        rho = sys_apply(p2, rho)
        states.append(reduced(rho))
    return states, sizes


# ---------------------------------------------------------------------------------------------
# driving the library

def make_params(dt, epsrel, dkmax=None, tcut=None, add=None, **kw):
    return oq.TempoParameters(dt=dt, epsrel=epsrel, dkmax=dkmax, tcut=tcut, add_correlation_time=add, **kw)


def run_tempo(system, bath, prm, rho0, start, n_steps, unique):
    t = oq.Tempo(system, bath, prm, rho0, start, unique=unique)
    dyn = t.compute(start + (n_steps + 0.25) * prm.dt, progress_type="silent")
    return np.array(dyn.times), np.array(dyn.states)


def run_pt(bath, prm, start, n_steps, unique):
    ptt = oq.PtTempo(bath, start, start + (n_steps + 0.25) * prm.dt, prm, unique=unique)
    ptt.compute(progress_type="silent")
    return ptt.get_process_tensor(progress_type="silent")


def run_pt_dynamics(system, pt, rho0, start, num_steps=None, **kw):
    dyn = oq.compute_dynamics(system, initial_state=rho0, process_tensor=pt, start_time=start, num_steps=num_steps,
                              progress_type="silent", **kw)
    return np.array(dyn.times), np.array(dyn.states)


def physicality(states):
    """(max |tr-1|, max non-Hermiticity, min eigenvalue of the Hermitian part)"""
    tr = max(abs(np.trace(s) - 1.0) for s in states)
    nh = max(np.abs(s - s.conj().T).max() for s in states)
    me = min(np.linalg.eigvalsh((s + s.conj().T) / 2).min() for s in states)
    return float(tr), float(nh), float(me)


def ratio_class(x):
    """Coarse, run-to-run stable label of deviation / tolerance (truncated tensor networks are reproducible only to a
    few epsrel, so replay observations must not contain raw digits)."""
    if x <= 1.0:
        return "<=1"
    return f">1e{int(math.floor(math.log10(x)))}"
