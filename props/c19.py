"""C19  No computation leaves background activity behind, whether it returns or fails.

(a) Schedules: stateless model checking of the real oqupy.util.ProgressBar under a cooperative scheduler
    (mc/sched.py): logical threads = the calling thread + every timer callback; scheduling points = every source
    line of oqupy/util.py; the timer (threading.Timer as seen by oqupy.util) is virtual and may fire at any
    scheduling point while armed.  All interleavings with at most B preemptions (B = 0, 1, 2 completed in turn; 3 in
    the thorough tier) and at most 3 timer firings are executed.  Terminal check: no armed timer, no write to the
    output stream after exit() returned, no deadlock, no exception in any thread.
(b) Fault points: for every API x progress type x invocation index of every user callable (plus structural faults)
    an exception is made to propagate out of the call; afterwards no timer may be left armed.  The timer seen by
    oqupy.util is a registry stand-in (never fires by itself); a free-running pass with the real Timer in a child
    interpreter per API checks that the interpreter can exit (reported as smoke run).
"""
import io
import itertools
import os
import subprocess
import sys
import threading

import numpy as np

from mc.common import Report, Violation, pmap, bind_repo, VERIF, REPO
from mc import sched as S
from . import models as M

oq = bind_repo()
import oqupy.util as U  # noqa

LEVEL = "model_checking"
FILES = ("oqupy/util.py",)
DRIVERS = {
    "enter-update-update-exit": ["enter", "update0", "update1", "exit"],
    "enter-exit": ["enter", "exit"],
    "enter-update-exit": ["enter", "update0", "exit"],
}


class Recorder(io.StringIO):
    def __init__(self, sched, state):
        super().__init__()
        self.s, self.state = sched, state

    def write(self, txt):
        self.s.log.append(("write", self.s.cur_tid(), bool(self.state["exit_returned"])))
        return len(txt)

    def flush(self):
        pass


def install(sched):
    saved = {}
    for nm, repl in (("Timer", S.VTimer), ("Lock", S.VLock), ("RLock", S.VRLock), ("Event", S.VEvent)):
        if hasattr(U, nm):
            saved[nm] = getattr(U, nm)
            setattr(U, nm, repl)
    if hasattr(U, "threading"):
        saved["threading"] = U.threading

        class _T:
            Timer, Lock, RLock, Event = S.VTimer, S.VLock, S.VRLock, S.VEvent
            current_thread = staticmethod(threading.current_thread)
            get_ident = staticmethod(threading.get_ident)
        U.threading = _T
    return saved


def restore(saved):
    for k, v in saved.items():
        setattr(U, k, v)


def execute(prefix, driver, max_firings=3):
    s = S.Scheduler(FILES, prefix=prefix, max_firings=max_firings)
    S.VTimer.sched = s
    S.VLock.sched = s
    S.VEvent.sched = s
    state = {"exit_returned": False}
    saved = install(s)
    old_out = sys.stdout
    try:
        sys.stdout = Recorder(s, state)
        bar = U.ProgressBar(3, "title")
        sys.stdout = old_out

        def main():
            for op in DRIVERS[driver]:
                if op == "enter":
                    bar.enter()
                elif op == "exit":
                    bar.exit()
                else:
                    bar.update(int(op[-1]))
            state["exit_returned"] = True
        s.run(main)
    finally:
        sys.stdout = old_out
        restore(saved)
    return s


def check_execution(x):
    v = []
    if x.deadlock:
        v.append("deadlock")
    if any(tm.armed and not tm.fired for tm in x.timers):
        v.append("timer-left-armed-after-exit")
    if any(e[0] == "write" and e[2] for e in x.log):
        v.append("write-to-stream-after-exit-returned")
    for t in x.threads:
        if t.exc is not None:
            v.append(f"exception-in-thread:{type(t.exc).__name__}")
    if x.capped:
        v.append("execution-did-not-terminate")
    return v


def explore_job(args):
    driver, bound, prefix = args
    found, stats = S.explore(lambda p: execute(p, driver), bound, check_execution, prefix=prefix)
    outcomes = {}
    sigs = {}
    for ch, v in found:
        key = "+".join(sorted(set(v)))
        outcomes[key] = outcomes.get(key, 0) + 1
        if key not in sigs or len(ch) < len(sigs[key]):
            sigs[key] = ch
    return {"stats": stats, "outcomes": outcomes, "witness": sigs}


def schedule_part(tier, seed):
    bounds = [0, 1, 2] + ([3] if tier == "thorough" else [])
    vio = []
    summary = {}
    total_exec = 0
    total_points = 0
    for driver in DRIVERS:
        for b in bounds:
            # split the exploration at the first level for parallelism: root execution + its alternatives
            root = execute([], driver)
            jobs = []
            for i, p in enumerate(root.points):
                cost = root.preemptions_before(i) + (1 if p["running_enabled"] else 0)
                if cost > b:
                    continue
                for alt in range(1, p["n"]):
                    jobs.append((driver, b, list(root.choices[:i]) + [alt]))
            res = pmap(explore_job, jobs, chunksize=1, seed=seed)
            n_exec = 1 + sum(r["stats"]["executions"] for r in res)
            n_pts = len(root.points) + sum(r["stats"]["points"] for r in res)
            out = {}
            wit = {}
            rv = check_execution(root)
            if rv:
                out["+".join(sorted(set(rv)))] = 1
                wit["+".join(sorted(set(rv)))] = []
            for r in res:
                for k, c in r["outcomes"].items():
                    out[k] = out.get(k, 0) + c
                    if k not in wit or len(r["witness"][k]) < len(wit[k]):
                        wit[k] = r["witness"][k]
            summary[f"{driver}/bound{b}"] = {"executions": n_exec, "scheduling_points": n_pts, "violating": out}
            total_exec += n_exec
            total_points += n_pts
            for k, c in out.items():
                vio.append(Violation(f"schedule|{driver}|{k}",
                                     f"{c} of {n_exec} schedules with <= {b} preemptions (smallest bound that shows it): {k}; witness choices {wit[k]}",
                                     {"part": "schedule", "driver": driver, "choices": wit[k]}))
    # only report each signature at its smallest bound per driver
    seen = set()
    keep = []
    for v in vio:
        key = v["cls"]
        if key in seen:
            continue
        seen.add(key)
        keep.append(v)
    return keep, summary, total_exec, total_points, bounds


# ------------------------------------------------------------------------------------------------
# (b) fault points

class RegTimer:
    """threading.Timer stand-in that only keeps books (never fires)."""
    registry = []

    def __init__(self, interval, function, args=None, kwargs=None):
        self.armed = False
        self.daemon = False
        RegTimer.registry.append(self)

    def start(self):
        self.armed = True

    def cancel(self):
        self.armed = False

    def is_alive(self):
        return self.armed

    def join(self, timeout=None):
        pass


class InjectedFault(Exception):
    pass


class InjectedInterrupt(BaseException):
    """outside the Exception hierarchy, like KeyboardInterrupt / SystemExit raised while a user callable runs"""


class FailingOut(io.StringIO):
    """an output stream whose k-th write fails (closed pipe / full disk); counts writes"""

    def __init__(self, k=None):
        super().__init__()
        self.k = k
        self.n = 0

    def write(self, txt):
        self.n += 1
        if self.k is not None and self.n == self.k:
            raise OSError(32, "Broken pipe (injected)")
        return super().write(txt)


class Counter:
    def __init__(self):
        self.n = 0
        self.k = None
        self.exc = InjectedFault
        self.keep = []      # the user keeps a reference to the objects it created while the census is taken

    def wrap(self, f):
        def g(*a, **kw):
            self.n += 1
            if self.k is not None and self.n == self.k:
                raise self.exc()
            return f(*a, **kw)
        return g


_PTS = {}


def pts():
    if not _PTS:
        bath = oq.Bath(0.5 * M.SZ, M.ohmic(alpha=0.2, temperature=0.4))
        prm = oq.TempoParameters(dt=0.1, epsrel=1e-6)
        _PTS["pt"] = oq.pt_tempo_compute(bath, 0.0, 0.35, prm, progress_type="silent")
        _PTS["bath"] = bath
    return _PTS


def api_calls():
    """name -> function(counter, progress_type) performing the call with user callables wrapped by the counter."""
    P = pts()
    bath = P["bath"]

    def tdsys(c):
        return oq.TimeDependentSystem(c.wrap(M.td_hamiltonian), gammas=[c.wrap(lambda t: 0.1)],
                                      lindblad_operators=[c.wrap(lambda t: M.SM)])

    def mfs(c):
        s = oq.TimeDependentSystemWithField(c.wrap(lambda t, a: 0.5 * M.SZ + np.real(a) * M.SX))
        return oq.MeanFieldSystem([s], c.wrap(lambda t, st, a: -0.1 * a - 0.1j * np.trace(M.SM @ st[0])))

    prm = oq.TempoParameters(dt=0.1, epsrel=1e-6, subdiv_limit=None)

    def compute_dynamics(c, pt):
        return oq.compute_dynamics(tdsys(c), M.RHO_GEN2, process_tensor=P["pt"], subdiv_limit=None, progress_type=pt)

    def compute_dynamics_with_field(c, pt):
        return oq.compute_dynamics_with_field(mfs(c), 0.5, process_tensor_list=[P["pt"]], initial_state_list=[M.RHO_GEN2],
                                              subdiv_limit=None, progress_type=pt)

    def state_gradient(c, pt):
        from oqupy.gradient import state_gradient as sg
        hw = c.wrap(lambda x: 0.5 * x * M.SX + 0.2 * M.SZ)
        psys = oq.ParameterizedSystem(hamiltonian=lambda x: hw(x))      # signature is inspected by the library
        xs = np.linspace(0.5, 1.5, 6).reshape(6, 1)
        return sg(psys, M.RHO_GEN2, c.wrap(lambda rho: M.RHO_PLUS.T.copy()), [P["pt"]], xs, progress_type=pt)

    def tempo(c, pt):
        c.keep.append(oq.Tempo(tdsys(c), bath, prm, M.RHO_GEN2, 0.0))
        c.keep[-1].compute(0.0, progress_type=pt)           # nothing to do yet
        r = c.keep[-1].compute(0.35, progress_type=pt)
        c.keep[-1].compute(0.35, progress_type=pt)          # end time already reached: a call that propagates no step
        return r

    def mean_field_tempo(c, pt):
        c.keep.append(oq.MeanFieldTempo(mfs(c), [bath], prm, [M.RHO_GEN2], 0.5))
        r = c.keep[-1].compute(0.35, progress_type=pt)
        c.keep[-1].compute(0.35, progress_type=pt)          # end time already reached
        return r

    def pt_tempo(c, pt):
        corr = oq.CustomSD(c.wrap(lambda w: 0.2 * w * np.exp(-w / 3.0)), cutoff=30.0, cutoff_type="hard", temperature=0.2)
        b = oq.Bath(0.5 * M.SZ, corr)
        c.keep.append(oq.PtTempo(b, 0.0, 0.35, oq.TempoParameters(dt=0.1, epsrel=1e-4)))
        r = c.keep[-1].get_process_tensor(progress_type=pt)
        c.keep[-1].compute(progress_type=pt)                # already complete
        return r

    def gibbs_tempo(c, pt):
        corr = oq.CustomSD(c.wrap(lambda w: 0.2 * w * np.exp(-w / 3.0)), cutoff=30.0, cutoff_type="hard", temperature=0.7)
        b = oq.Bath(np.diag([0.5, -0.5]).astype(complex), corr)
        g = oq.GibbsTempo(oq.System(0.4 * M.SZ), b, oq.GibbsParameters(n_steps=3, epsrel=1e-4))
        c.keep.append(g)
        r = g.compute(progress_type=pt)
        g.compute(progress_type=pt)                         # already complete
        return r

    def compute_correlations(c, pt):
        return oq.compute_correlations(tdsys(c), P["pt"], M.SZ, M.SX, [0, 1], [1, 2], initial_state=M.RHO_GEN2,
                                       start_time=0.0, progress_type=pt)

    def pt_tebd(c, pt):
        # no user callables in a chain computation: structural fault = a process tensor that runs out of caps
        chain = oq.SystemChain(hilbert_space_dimensions=[2, 2])
        chain.add_site_hamiltonian(site=0, hamiltonian=0.5 * M.SX)
        chain.add_nn_hamiltonian(site=0, hamiltonian_l=0.3 * M.SZ, hamiltonian_r=M.SZ)
        t = oq.PtTebd(oq.AugmentedMPS([M.RHO_GEN2, M.RHO_PLUS]), chain, [P["pt"], None],
                      oq.PtTebdParameters(dt=0.1, order=2, epsrel=1e-7), dynamics_sites=[0])
        c.n += 1
        c.keep.append(t)
        if c.k is None:
            # calls that propagate no step: end_step 0 on a fresh object, and an end step that has been reached already
            t.compute(0, progress_type=pt)
            r = t.compute(3, progress_type=pt)
            t.compute(3, progress_type=pt)
            t.compute(2, progress_type=pt)
            return r
        return t.compute(5, progress_type=pt)     # 5 > len(pt): fails midway

    def pt_tebd_multithread(c, pt):
        # real ThreadPoolExecutor of the back-end: its worker threads must be gone when compute() returns or raises
        chain = oq.SystemChain(hilbert_space_dimensions=[2, 2, 2, 2])
        for s_ in range(4):
            chain.add_site_hamiltonian(site=s_, hamiltonian=0.5 * M.SX)
        for s_ in range(3):
            chain.add_nn_hamiltonian(site=s_, hamiltonian_l=0.3 * M.SZ, hamiltonian_r=M.SZ)
        t = oq.PtTebd(oq.AugmentedMPS([M.RHO_GEN2, M.RHO_PLUS, M.RHO_GEN2, M.RHO_PLUS]), chain, [P["pt"], None, None, None],
                      oq.PtTebdParameters(dt=0.1, order=2, epsrel=1e-7), dynamics_sites=[0],
                      backend_config={"parallel": "multithread"})
        c.n += 1
        c.keep.append(t)
        return t.compute(2 if c.k is None else 5, progress_type=pt)

    return {f.__name__: f for f in (compute_dynamics, compute_dynamics_with_field, state_gradient, tempo,
                                    mean_field_tempo, pt_tempo, gibbs_tempo, compute_correlations, pt_tebd,
                                    pt_tebd_multithread)}


def structural_calls():
    P = pts()
    from oqupy.process_tensor import SimpleProcessTensor

    def broken_pt(kind):
        src = P["pt"]
        pt = SimpleProcessTensor(hilbert_space_dimension=2, dt=src.dt)
        for k in range(len(src)):
            t = src.get_mpo_tensor(k, transformed=False)
            if kind == "shape-mismatch" and k == 2:
                t = t[:, :, :3] if t.ndim == 3 else t[:, :, :3, :3]
            if kind == "out-leg-mismatch" and k == 1:
                if t.ndim == 3:     # expand the delta and cut the output leg only: the chain's physical leg becomes 3
                    full = np.zeros(t.shape + (t.shape[2],), dtype=t.dtype)
                    for i_ in range(t.shape[2]):
                        full[:, :, i_, i_] = t[:, :, i_]
                    t = full
                t = t[:, :, :, :3]
            pt.set_mpo_tensor(k, t)
        for k in range(len(src) + 1):
            if kind == "missing-cap" and k >= 2:
                break
            pt.set_cap_tensor(k, src.get_cap_tensor(k))
        return pt

    def cd_missing_cap(c, ptype):
        return oq.compute_dynamics(oq.System(0.5 * M.SX), M.RHO_GEN2, process_tensor=broken_pt("missing-cap"), progress_type=ptype)

    def cd_shape_mismatch(c, ptype):
        return oq.compute_dynamics(oq.System(0.5 * M.SX), M.RHO_GEN2, process_tensor=broken_pt("shape-mismatch"), progress_type=ptype)

    def cdf_missing_cap(c, ptype):
        s = oq.TimeDependentSystemWithField(lambda t, a: 0.5 * M.SZ + np.real(a) * M.SX)
        m = oq.MeanFieldSystem([s], lambda t, st, a: -0.1 * a)
        return oq.compute_dynamics_with_field(m, 0.5, process_tensor_list=[broken_pt("missing-cap")],
                                              initial_state_list=[M.RHO_GEN2], progress_type=ptype)

    def grad_shape_mismatch(c, ptype):
        from oqupy.gradient import state_gradient as sg
        psys = oq.ParameterizedSystem(hamiltonian=lambda x: 0.5 * x * M.SX)
        xs = np.ones((6, 1))
        return sg(psys, M.RHO_GEN2, M.RHO_PLUS.T.copy(), [broken_pt("shape-mismatch")], xs, progress_type=ptype)

    def tebd_mt_shape_mismatch(c, ptype):
        # a tensor operation fails INSIDE a gate layer of the multithread back-end (worker of the executor)
        chain = oq.SystemChain(hilbert_space_dimensions=[2, 2, 2, 2])
        for s_ in range(4):
            chain.add_site_hamiltonian(site=s_, hamiltonian=0.5 * M.SX)
        for s_ in range(3):
            chain.add_nn_hamiltonian(site=s_, hamiltonian_l=0.3 * M.SZ, hamiltonian_r=M.SZ)
        t = oq.PtTebd(oq.AugmentedMPS([M.RHO_GEN2, M.RHO_PLUS, M.RHO_GEN2, M.RHO_PLUS]), chain,
                      [None, broken_pt("out-leg-mismatch"), None, None],
                      oq.PtTebdParameters(dt=0.1, order=2, epsrel=1e-7), dynamics_sites=[0],
                      backend_config={"parallel": "multithread"})
        c.keep.append(t)
        return t.compute(3, progress_type=ptype)

    return {f.__name__: f for f in (cd_missing_cap, cd_shape_mismatch, cdf_missing_cap, grad_shape_mismatch,
                                    tebd_mt_shape_mismatch)}


def fault_case(args):
    """mode 'exc': the k-th user-callable invocation raises an Exception; 'base': it raises a BaseException that is not
    an Exception; 'write': the k-th write to the output stream fails with OSError."""
    api, ptype, k = args[:3]
    mode = args[3] if len(args) > 3 else "exc"
    calls = dict(api_calls(), **structural_calls())
    c = Counter()
    c.k = k if mode != "write" else None
    c.exc = InjectedInterrupt if mode == "base" else InjectedFault
    RegTimer.registry = []
    saved = U.Timer
    U.Timer = RegTimer
    old_out = sys.stdout
    out = sys.stdout = FailingOut(k if mode == "write" else None)
    raised = None
    before = set(threading.enumerate())
    result = None
    held = None
    try:
        result = calls[api](c, ptype)       # kept alive, like a user who holds on to what the call returned
    except BaseException as ex:  # noqa
        raised = type(ex).__name__
        held = ex       # the caller keeps the exception (with its traceback and frames) while the census is taken, as
        #                 pytest.raises, a logger or an interactive session do
    finally:
        sys.stdout = old_out
        U.Timer = saved
    armed = sum(1 for t in RegTimer.registry if t.armed)
    import time as _time
    left = [t for t in threading.enumerate() if t not in before and t.is_alive()]
    if left:
        _time.sleep(0.05)       # threads that are merely finishing are not a leak
        left = [t for t in threading.enumerate() if t not in before and t.is_alive()]
    del held
    return {"raised": raised, "armed": armed, "timers": len(RegTimer.registry), "count": c.n, "writes": out.n,
            "threads_left": [t.name for t in left]}


def fault_part(tier, seed):
    apis = list(api_calls())
    structs = list(structural_calls())
    ptypes = ["silent", "simple", "bar", None]
    # count invocations with a clean run
    counts = {}
    for api in apis:
        r = fault_case((api, "silent", None))
        counts[api] = r["count"]
    jobs = []
    for api in apis:
        K = counts[api]
        ks = list(range(1, K + 1))
        if tier == "quick" and K > 24:
            # every invocation index is still enumerated for 'bar'; other progress types use a stride
            pass
        if tier == "quick" and K > 60:
            # quick tier: the first 20 invocation indices, then 40 evenly spaced ones (thorough: every index)
            ks = sorted(set(list(range(1, 21)) + [int(round(x)) for x in np.linspace(21, K, 40)]))
        for pt in ptypes:
            for k in ks:
                if tier == "quick" and pt in ("silent", "simple") and len(ks) > 24 and k % 4 != 1:
                    continue
                jobs.append((api, pt, k))
    # the same fault points with an exception outside the Exception hierarchy (Ctrl-C / sys.exit inside the callable)
    jobs += [(a, pt, k, "base") for (a, pt, k) in list(jobs) if pt in ("bar", None)]
    # environment fault: the k-th write to the output stream fails, for every write of every reporting mode
    nwr = {}
    for api in apis + structs:
        for pt in ("simple", "bar", None):
            w = fault_case((api, pt, None, "write"))["writes"]
            nwr[f"{api}/{pt}"] = w
            for k in range(1, w + 1):
                jobs.append((api, pt, k, "write"))
    counts = dict(counts, writes=nwr)
    for api in structs:
        for pt in ptypes:
            jobs.append((api, pt, 1))
    for api in apis:
        for pt in ptypes:
            jobs.append((api, pt, None))       # undisturbed call: nothing may be left behind after a normal return either
    res = pmap(fault_case, jobs, seed=seed)
    vio = []
    hist = {}
    for j, r in zip(jobs, res):
        key = f"{j[0]}/{'default' if j[1] is None else j[1]}"
        h = hist.setdefault(key, {"runs": 0, "raised": 0, "armed_after": 0})
        h["runs"] += 1
        h["raised"] += bool(r["raised"])
        h["armed_after"] += bool(r["armed"])
        mode = j[3] if len(j) > 3 else "exc"
        mtag = {"exc": "", "base": "non-Exception-", "write": "failed-write-"}[mode]
        if r["armed"]:
            pt = "default" if j[1] is None else j[1]
            where = "write to the output stream" if mode == "write" else "user-callable invocation"
            vio.append(Violation(f"fault|{j[0]}|progress={pt}|{mtag}timer-left-armed-after-exception",
                                 f"{j[0]}(progress_type={j[1]!r}): exception ({r['raised']}) at {where} {j[2]} "
                                 f"propagated and left {r['armed']} progress timer(s) armed",
                                 {"part": "fault", "api": j[0], "ptype": j[1], "k": j[2], "mode": mode}))
        if r.get("threads_left"):
            pt = "default" if j[1] is None else j[1]
            how = "after-exception" if r["raised"] else "after-return"
            vio.append(Violation(f"fault|{j[0]}|progress={pt}|{mtag}threads-left-alive-{how}",
                                 f"{j[0]}(progress_type={j[1]!r}): {len(r['threads_left'])} thread(s) started by the call still "
                                 f"alive {how}: {r['threads_left'][:3]}",
                                 {"part": "fault", "api": j[0], "ptype": j[1], "k": j[2], "mode": mode}))
    return vio, hist, len(jobs), counts


SMOKE = r"""
import sys, threading, time
sys.path.insert(0, %r); sys.path.insert(0, %r)
from props import c19
import oqupy.util as U
import threading as th
_orig = th.Timer
U.Timer = lambda interval, fn, *a, **k: _orig(0.02, fn, *a, **k)
calls = dict(c19.api_calls(), **c19.structural_calls())
c = c19.Counter(); c.k = %d
try:
    calls[%r](c, 'bar')
except BaseException as ex:
    pass
time.sleep(0.2)
alive = [t for t in threading.enumerate() if t is not threading.main_thread() and not t.daemon]
print('ALIVE', len(alive))
"""


def smoke_case(api):
    code = SMOKE % (REPO, VERIF, 12 if api in ("compute_dynamics", "tempo") else 3, api)
    try:
        r = subprocess.run([sys.executable, "-c", code], capture_output=True, text=True, timeout=25,
                           env=dict(os.environ, VERIF_REPO=REPO))
        alive = [l for l in r.stdout.splitlines() if l.startswith("ALIVE")]
        return {"api": api, "exit": "exited", "alive": alive[-1] if alive else "?"}
    except subprocess.TimeoutExpired:
        return {"api": api, "exit": "INTERPRETER-DID-NOT-EXIT-WITHIN-25s"}


def run(tier, seed):
    rep = Report(LEVEL)
    pts()
    svio, ssum, nexec, npts, bounds = schedule_part(tier, seed)
    for v in svio:
        rep.add(v)
    fvio, fhist, nfault, counts = fault_part(tier, seed)
    for v in fvio:
        rep.add(v)
    smoke = pmap(smoke_case, ["compute_dynamics", "tempo", "state_gradient", "cd_missing_cap"], chunksize=1, seed=seed)
    rep.coverage = {
        "states": npts,
        "transitions": nexec,
        "traces_validated_against_impl": nexec + nfault,
        "completed_preemption_bounds": bounds, "max_timer_firings": 3,
        "schedules": ssum,
        "fault_runs": nfault, "invocations_per_api": counts, "fault_histogram": fhist,
        "free_running_smoke": smoke,
        "exhaustive": True,
        "rule": "states = scheduling points visited (source lines of oqupy/util.py at which a thread parked), transitions = "
                "complete executions (schedules) of the real ProgressBar under the cooperative scheduler, all schedules with "
                "<= B preemptions and <= 3 timer firings for each completed bound B; fault runs: every user-callable "
                "invocation index for progress type 'bar' and default (quick tier: APIs with > 60 invocations use the first "
                "20 indices + 40 evenly spaced ones, and stride 4 for silent/simple; thorough: every index) x 10 APIs + 4 "
                "structural faults; the same indices with a BaseException for 'bar'/default; every write to the output stream "
                "failing once (OSError) for simple/bar/default",
        "samples": [{"driver": "enter-update-update-exit", "choices": [0, 0, 1, 0, 0, 2]},
                    {"fault": ["compute_dynamics", "bar", 3]}],
    }
    rep.assumptions = ["scheduling points are source lines of oqupy/util.py; byte-code level preemption inside one line is not "
                       "explored (each line of ProgressBar touches _timer/_step at most once)",
                       "a timer may fire at any scheduling point while armed (virtual time), at most 3 firings per execution",
                       "smoke run (real Timer, separate interpreter) is not evidence"]
    return rep


def replay(rp):
    if rp["part"] == "schedule":
        x = execute(rp["choices"], rp["driver"])
        v = check_execution(x)
        obs = {"log": [list(e) for e in x.log], "choices": x.choices}
        key = "+".join(sorted(set(v)))
        return {"obs": obs, "violation": f"schedule|{rp['driver']}|{key}" if v else None}
    mode = rp.get("mode", "exc")
    r = fault_case((rp["api"], rp["ptype"], rp["k"], mode))
    pt = "default" if rp["ptype"] is None else rp["ptype"]
    mtag = {"exc": "", "base": "non-Exception-", "write": "failed-write-"}[mode]
    v = None
    if r["armed"]:
        v = f"fault|{rp['api']}|progress={pt}|{mtag}timer-left-armed-after-exception"
    elif r.get("threads_left"):
        v = f"fault|{rp['api']}|progress={pt}|{mtag}threads-left-alive-" + ("after-exception" if r["raised"] else "after-return")
    return {"obs": r, "violation": v}
