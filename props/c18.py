"""C18  Control operations act at the stated time, side of measurement and order.

Model checking of the control schedule space over a grid of N=3 steps: every schedule of the families
below is installed through the real Control / ChainControl API and run through the real
compute_dynamics (without PT and with an exact ancilla PT) and PtTebd (2-site chain); every recorded
state is compared with the dense reference that applies, per step, pre controls in insertion order,
record, post controls in insertion order, propagate.
"""
import itertools

import numpy as np

from mc.common import Report, Violation, pmap, bind_repo
from mc import refmodel as R
from mc import ancilla as A
from . import models as M

oq = bind_repo()
LEVEL = "model_checking"
N = 3
DT = 0.2
TOL = 1e-10
D = 2

U_KICK = M.generic_unitary(2, 9)
MAPS = {
    "kick": R.conj_super(U_KICK),
    "reset": np.outer(np.array([1, 0, 0, 0], dtype=complex), np.array([1, 0, 0, 1], dtype=complex)),  # rho -> tr(rho)|0><0|
    "proj": np.kron(np.diag([1.0, 0.0]) + 0.5 * np.array([[0, 1], [1, 0]]), (np.diag([1.0, 0.0]) + 0.5 * np.array([[0, 1], [1, 0]])).conj()),
    "id": np.eye(4, dtype=complex),
}
SPECS = ["int", "fgrid", "foff+", "foff-"]
H0 = 0.7 * M.SX + 0.3 * M.SZ
H1 = 0.4 * M.SY - 0.5 * M.SZ


def spec_time(spec, step, start):
    if spec == "int":
        return int(step)
    off = {"fgrid": 0.0, "foff+": 0.3, "foff-": -0.3}[spec]
    return float(start + (step + off) * DT)


def spec_class(ctrls):
    kinds = set("int" if c[2] == "int" else "float" for c in ctrls)
    if kinds == {"int"}:
        return "int"
    if kinds == {"float"}:
        return "float-same-time" if len(set(c[2] for c in ctrls)) == 1 else "float-distinct-times"
    return "int+float"


def schedules(tier="quick"):
    """schedule = tuple of controls (step, side, spec, map) in insertion order."""
    out = []
    steps, sides = range(N + 1), ("pre", "post")
    for st, sd, sp, mp in itertools.product(steps, sides, SPECS, MAPS):
        out.append(((st, sd, sp, mp),))
    nonid = ["kick", "reset", "proj"]
    for st, sd, s1, s2 in itertools.product(steps, sides, SPECS[:3], SPECS[:3]):
        for m1, m2 in itertools.permutations(nonid, 2):
            out.append(((st, sd, s1, m1), (st, sd, s2, m2)))
    slots = [(st, sd) for st in steps for sd in sides]
    for (a, b) in itertools.permutations(slots, 2):
        for sp in ("int", "fgrid"):
            out.append(((a[0], a[1], sp, "kick"), (b[0], b[1], sp, "reset")))
    for st, sd, sp in itertools.product(steps, sides, ("int", "fgrid")):
        for perm in itertools.permutations(nonid, 3):
            out.append(tuple((st, sd, sp, m) for m in perm))
    if tier == "thorough":
        # three stacked controls with every mixture of specifications (int / float on grid / float off grid)
        for st, sd in itertools.product(steps, sides):
            for sps in itertools.product(SPECS[:3], repeat=3):
                if len(set(sps)) == 1 and sps[0] in ("int", "fgrid"):
                    continue
                for perm in itertools.permutations(nonid, 3):
                    out.append(tuple((st, sd, sp, m) for sp, m in zip(sps, perm)))
    return out


_ENV = {}


def env():
    if not _ENV:
        e = 2
        sigma = np.diag([0.7, 0.3]).astype(complex)
        ks = [[R.random_free_unitary(D * e, 40 + k)] for k in range(N)]
        _ENV["ks"] = ks
        _ENV["sigma"] = sigma
        _ENV["pt"] = A.build_pt(D, e, sigma, ks, dt=DT)
        _ENV["p"] = R.half_props(H0, DT)
        _ENV["p1"] = R.half_props(H1, DT)
    return _ENV


def reference(sched, with_pt, h_props):
    E = env()
    pre, post = {}, {}
    for (st, sd, sp, mp) in sched:
        tgt = pre if sd == "pre" else post
        tgt[st] = MAPS[mp] @ tgt[st] if st in tgt else MAPS[mp]
    if with_pt:
        return R.simulate(M.RHO_GEN2, [E["sigma"]], lambda j, k: E["ks"][k], lambda k: h_props, N, pre, post)
    return R.simulate(M.RHO_GEN2, [], lambda j, k: None, lambda k: h_props, N, pre, post)


def run_single(sched, with_pt, start):
    E = env()
    ctrl = oq.Control(D)
    for (st, sd, sp, mp) in sched:
        ctrl.add_single(spec_time(sp, st, start), MAPS[mp].copy(), post=(sd == "post"))
    kw = dict(process_tensor=E["pt"]) if with_pt else dict(dt=DT, num_steps=N)
    import io
    import contextlib
    buf = io.StringIO()
    with contextlib.redirect_stdout(buf):
        dyn = oq.compute_dynamics(oq.System(H0), M.RHO_GEN2, control=ctrl, start_time=start,
                                  progress_type="silent", **kw)
        # the same Control object used for a second computation must act exactly as in the first one
        dyn2 = oq.compute_dynamics(oq.System(H0), M.RHO_GEN2, control=ctrl, start_time=start,
                                   progress_type="silent", **kw)
    if np.abs(np.array(dyn2.states) - np.array(dyn.states)).max() > 1e-13:
        return np.array(dyn2.states), "REUSE-DIFFERS"
    # only the final state recorded: every control must still act (the final state is the last recorded one)
    dyn3 = oq.compute_dynamics(oq.System(H0), M.RHO_GEN2, control=ctrl, start_time=start, record_all=False,
                               progress_type="silent", **kw)
    if len(dyn3.states) != 1 or np.abs(np.array(dyn3.states)[0] - np.array(dyn.states)[-1]).max() > 1e-13:
        return np.array(dyn.states), "FINAL-ONLY-DIFFERS"
    # the same Control object used again on a grid of half the time step: float time stamps on the coarse grid are
    # grid points of the fine grid too, so the control must act at step 2k there
    if not with_pt and sched and all(c[2] == "fgrid" for c in sched):
        pre, post = {}, {}
        for (st, sd, sp, mp) in sched:
            tgt = pre if sd == "pre" else post
            tgt[2 * st] = MAPS[mp] @ tgt[2 * st] if 2 * st in tgt else MAPS[mp]
        p2 = R.half_props(H0, DT / 2)
        ref2 = np.array(R.simulate(M.RHO_GEN2, [], lambda j, k: None, lambda k: p2, 2 * N, pre, post))
        dyn4 = oq.compute_dynamics(oq.System(H0), M.RHO_GEN2, control=ctrl, start_time=start, dt=DT / 2, num_steps=2 * N,
                                   progress_type="silent")
        if np.abs(np.array(dyn4.states) - ref2).max() > TOL:
            return np.array(dyn.states), "OTHER-GRID-DIFFERS"
    return np.array(dyn.states), buf.getvalue()


def run_chain(sched, site, with_pt):
    """2 uncoupled sites; the schedule acts on `site`; the other site carries no control."""
    E = env()
    cc = oq.ChainControl([D, D])
    for (st, sd, sp, mp) in sched:
        cc.add_single_site_control(MAPS[mp].copy(), site=site, step=int(st), post=(sd == "post"))
    chain = oq.SystemChain(hilbert_space_dimensions=[D, D])
    hs = [H0, H1] if site == 0 else [H1, H0]
    chain.add_site_hamiltonian(site=0, hamiltonian=hs[0])
    chain.add_site_hamiltonian(site=1, hamiltonian=hs[1])
    pts = [None, None]
    if with_pt:
        pts[site] = E["pt"]
    tebd = oq.PtTebd(oq.AugmentedMPS([M.RHO_GEN2, M.RHO_GEN2]), chain, pts,
                     oq.PtTebdParameters(dt=DT, order=2, epsrel=1e-12), chain_control=cc,
                     dynamics_sites=[0, 1])
    r = tebd.compute(N, progress_type="silent")
    first = np.array(r["dynamics"][site].states)
    tebd2 = oq.PtTebd(oq.AugmentedMPS([M.RHO_GEN2, M.RHO_GEN2]), chain, pts,
                      oq.PtTebdParameters(dt=DT, order=2, epsrel=1e-12), chain_control=cc, dynamics_sites=[0, 1])
    r2 = tebd2.compute(N, progress_type="silent")
    if np.abs(np.array(r2["dynamics"][site].states) - first).max() > 1e-12:
        first = np.array(r2["dynamics"][site].states) + 1.0     # reuse of the ChainControl object changed the result
    return first, np.array(r["dynamics"][1 - site].states), np.array(r["norm"])


def worker(args):
    idx, sched = args
    E = env()
    out = []
    scls = spec_class(sched)
    stack = len(sched) if len(set((c[0], c[1]) for c in sched)) == 1 else 1
    # detailed input class for stacked controls: side and the sequence of specifications in insertion order
    dcls = f"{sched[0][1]}:{','.join(c[2] for c in sched)}" if stack > 1 else scls
    ident = all(c[3] == "id" for c in sched)
    nruns = 0
    hashes = []
    for with_pt in (False, True):
        ref = np.array(reference(sched, with_pt, E["p"]))
        base = np.array(reference((), with_pt, E["p"]))
        for start in (0.0, 1.7):
            if scls == "int" and start != 0.0 and len(sched) > 1:
                continue
            got, printed = run_single(sched, with_pt, start)
            nruns += 2
            if printed == "OTHER-GRID-DIFFERS":
                out.append((f"single|{dcls}|stack{stack}|same-Control-on-a-grid-of-half-the-time-step-differs",
                            f"schedule {sched} start={start}: the Control object used before with dt={DT} acts at the wrong "
                            f"step when it is used again with dt={DT / 2}"))
            if printed == "FINAL-ONLY-DIFFERS":
                out.append((f"single|{dcls}|stack{stack}|final-state-with-record_all=False-differs",
                            f"schedule {sched} pt={with_pt} start={start}: the only state returned with record_all=False is not "
                            f"the last state of the full record"))
            if printed == "REUSE-DIFFERS":
                out.append((f"single|{dcls}|stack{stack}|second-run-with-the-same-Control-object-differs",
                            f"schedule {sched} pt={with_pt} start={start}: reusing the Control object changes the result"))
            dev = np.abs(got - ref).max(axis=(1, 2))
            if dev.max() > TOL:
                k = int(np.argmax(dev > TOL))
                # diagnose: does the result equal the reference with the stacking order reversed?
                sig = "state-mismatch"
                if stack > 1:
                    rev = np.array(reference(tuple(reversed(sched)), with_pt, E["p"]))
                    if np.abs(got - rev).max() < TOL:
                        sig = "applied-in-reverse-insertion-order"
                out.append((f"single|{dcls}|stack{stack}|{sig}",
                            f"schedule {sched} pt={with_pt} start={start}: |rho-ref|={dev.max():.2e} first at step {k}"))
            if ident and np.abs(got - base).max() > 1e-14:
                out.append((f"single|{scls}|identity-changes-state", f"{sched}"))
            hashes.append(np.round(got, 9).tobytes())
        if scls == "int":
            href = np.array(reference((), False, E["p1"]))
            for site in (0, 1):
                got, other, norm = run_chain(sched, site, with_pt)
                nruns += 1
                dev = np.abs(got - ref).max(axis=(1, 2))
                if dev.max() > 1e-9:
                    sig = "state-mismatch"
                    if stack > 1:
                        rev = np.array(reference(tuple(reversed(sched)), with_pt, E["p"]))
                        if np.abs(got - rev).max() < 1e-9:
                            sig = "applied-in-reverse-insertion-order"
                    out.append((f"chain|int|stack{stack}|{sig}",
                                f"schedule {sched} site={site} pt={with_pt}: |rho-ref|={dev.max():.2e}"))
                # product state: a non-trace-preserving control on `site` rescales the other site's reduced state
                scale = np.trace(ref, axis1=1, axis2=2)[:, None, None]
                if np.abs(other - scale * href).max() > 1e-9:
                    out.append((f"chain|int|stack{stack}|other-site-affected", f"{sched} site={site}"))
    import hashlib
    return {"idx": idx, "vio": out, "nruns": nruns, "scls": scls,
            "outcome": hashlib.sha1(b"".join(hashes)).hexdigest()[:10]}


DT2 = 0.5          # second grid: with dt = 0.5 the float time stamps of the grid points are whole numbers (1.0, 2.0, -1.0, ...)
STARTS2 = (0.0, -1.0, 2.0, 0.25)


def integral_time_worker(args):
    """single controls and ordered pairs given by float time on a grid whose time stamps are integral floats"""
    idx, sched = args
    p2 = R.half_props(H0, DT2)
    pre, post = {}, {}
    for (st, sd, sp, mp) in sched:
        tgt = pre if sd == "pre" else post
        tgt[st] = MAPS[mp] @ tgt[st] if st in tgt else MAPS[mp]
    ref = np.array(R.simulate(M.RHO_GEN2, [], lambda j, k: None, lambda k: p2, N, pre, post))
    out = []
    for start in STARTS2:
        ctrl = oq.Control(D)
        stamps = []
        for (st, sd, sp, mp) in sched:
            off = {"fgrid": 0.0, "foff+": 0.3, "foff-": -0.3}[sp]
            t = float(start + (st + off) * DT2)
            stamps.append(t)
            ctrl.add_single(t, MAPS[mp].copy(), post=(sd == "post"))
        dyn = oq.compute_dynamics(oq.System(H0), M.RHO_GEN2, control=ctrl, start_time=start, dt=DT2, num_steps=N,
                                  progress_type="silent")
        got = np.array(dyn.states)
        dev = np.abs(got - ref).max(axis=(1, 2))
        if dev.max() > TOL:
            whole = any(float(t).is_integer() for t in stamps)
            out.append((f"single|float-time-{'whole-number' if whole else 'fractional'}|dt=0.5|stack{len(sched)}|state-mismatch",
                        f"schedule {sched} dt={DT2} start={start} (time stamps {stamps}): |rho-ref|={dev.max():.2e} first at step "
                        f"{int(np.argmax(dev > TOL))}"))
    return {"idx": idx, "vio": out, "nruns": len(STARTS2)}


def integral_time_schedules():
    out = []
    for st, sd, sp, mp in itertools.product(range(N + 1), ("pre", "post"), ("fgrid", "foff+", "foff-"), ("kick", "reset")):
        out.append(((st, sd, sp, mp),))
    for st, sd, s1, s2 in itertools.product(range(N + 1), ("pre", "post"), ("fgrid", "foff+"), ("fgrid", "foff-")):
        out.append(((st, sd, s1, "kick"), (st, sd, s2, "reset")))
    return out


def chain_sequences(tier):
    """insertion sequences over both sites of a 2-site chain: every word of length 3 (thorough: and 4) over
    {site 0, site 1} x {kick, reset, proj}, all controls at one (step, side) slot -- so the controls of one site are
    in general NOT adjacent in insertion order -- plus words whose controls sit at two different slots."""
    alpha = [(site, m) for site in (0, 1) for m in ("kick", "reset", "proj")]
    out = []
    slots = [(0, "pre"), (1, "pre"), (3, "pre"), (0, "post"), (2, "post")]
    for (st, sd) in slots:
        lens = (3, 4) if (tier == "thorough" or (st, sd) in ((1, "pre"), (2, "post"))) else (3,)
        for L in lens:
            for w in itertools.product(alpha, repeat=L):
                if len(set(x[0] for x in w)) < 2:
                    continue        # one site only: covered by the single-site schedules
                out.append(tuple((site, st, sd, m) for (site, m) in w))
    for w in itertools.product(alpha, repeat=3):
        if len(set(x[0] for x in w)) < 2:
            continue
        for sl in itertools.product([(1, "pre"), (1, "post"), (2, "pre")], repeat=3):
            if len(set(sl)) == 1:
                continue
            out.append(tuple((site, st, sd, m) for (site, m), (st, sd) in zip(w, sl)))
    return out


def chain_multi_worker(args):
    idx, seq = args
    E = env()
    cc = oq.ChainControl([D, D])
    for (site, st, sd, mp) in seq:
        cc.add_single_site_control(MAPS[mp].copy(), site=site, step=int(st), post=(sd == "post"))
    chain = oq.SystemChain(hilbert_space_dimensions=[D, D])
    chain.add_site_hamiltonian(site=0, hamiltonian=H0)
    chain.add_site_hamiltonian(site=1, hamiltonian=H1)
    tebd = oq.PtTebd(oq.AugmentedMPS([M.RHO_GEN2, M.RHO_GEN2]), chain, [E["pt"], None],
                     oq.PtTebdParameters(dt=DT, order=2, epsrel=1e-12), chain_control=cc, dynamics_sites=[0, 1])
    r = tebd.compute(N, progress_type="silent")
    refs = []
    for site in (0, 1):
        sub = tuple((st, sd, "int", mp) for (s_, st, sd, mp) in seq if s_ == site)
        refs.append(np.array(reference(sub, site == 0, E["p"] if site == 0 else E["p1"])))
    out = []
    adjacent = all(len(list(g)) >= 1 for _, g in itertools.groupby(seq, key=lambda c: c[0])) and \
        len([k for k, _ in itertools.groupby(seq, key=lambda c: c[0])]) == 2
    fam = "contiguous-per-site" if adjacent else "interleaved-sites"
    for site in (0, 1):
        scale = np.trace(refs[1 - site], axis1=1, axis2=2)[:, None, None]
        got = np.array(r["dynamics"][site].states)
        dev = np.abs(got - scale * refs[site]).max()
        if dev > 1e-9:
            nsite = sum(1 for c in seq if c[0] == site)
            out.append((f"chain|two-sites|{fam}|{nsite}-controls-on-site|state-mismatch",
                        f"insertion sequence (site, step, side, map) {seq}: site {site} |rho-ref|={dev:.2e}"))
    # the same PtTebd object re-run after MORE controls were added to the ChainControl it holds: the first run sees the
    # first half of the insertion sequence, the re-run (initialize + compute) must see all of it
    half = len(seq) // 2
    cc2 = oq.ChainControl([D, D])
    for (site, st, sd, mp) in seq[:half]:
        cc2.add_single_site_control(MAPS[mp].copy(), site=site, step=int(st), post=(sd == "post"))
    tebd2 = oq.PtTebd(oq.AugmentedMPS([M.RHO_GEN2, M.RHO_GEN2]), chain, [E["pt"], None],
                      oq.PtTebdParameters(dt=DT, order=2, epsrel=1e-12), chain_control=cc2, dynamics_sites=[0, 1])
    tebd2.compute(N, progress_type="silent")
    for (site, st, sd, mp) in seq[half:]:
        cc2.add_single_site_control(MAPS[mp].copy(), site=site, step=int(st), post=(sd == "post"))
    tebd2.initialize()
    r2 = tebd2.compute(N, progress_type="silent")
    for site in (0, 1):
        scale = np.trace(refs[1 - site], axis1=1, axis2=2)[:, None, None]
        got = np.array(r2["dynamics"][site].states)
        if got.shape != refs[site].shape or np.abs(got - scale * refs[site]).max() > 1e-9:
            out.append((f"chain|two-sites|re-run-after-controls-were-added-to-the-ChainControl|state-mismatch",
                        f"insertion sequence {seq}: first run with the first {half} controls, then the rest added, "
                        f"initialize() and compute(): site {site} differs from the reference for all controls"))
            break
    return {"idx": idx, "vio": out, "nruns": 2, "outcome": np.round(np.array(r["dynamics"][0].states), 9).tobytes()[:64]}


def run(tier, seed):
    rep = Report(LEVEL)
    scheds = schedules(tier)
    res = pmap(worker, list(enumerate(scheds)), seed=seed)
    isch = integral_time_schedules()
    ires = pmap(integral_time_worker, list(enumerate(isch)), seed=seed)
    for sq, r in zip(isch, ires):
        for cls, what in r["vio"]:
            rep.add(Violation(cls, what, {"integral_time_schedule": [list(c) for c in sq]}))
    cseqs = chain_sequences(tier)
    cres = pmap(chain_multi_worker, list(enumerate(cseqs)), seed=seed)
    for sq, r in zip(cseqs, cres):
        for cls, what in r["vio"]:
            rep.add(Violation(cls, what, {"chain_sequence": [list(c) for c in sq]}))
    nruns = 0
    outcomes = set()
    classes = {}
    for s, r in zip(scheds, res):
        nruns += r["nruns"]
        outcomes.add(r["outcome"])
        classes[r["scls"]] = classes.get(r["scls"], 0) + 1
        for cls, what in r["vio"]:
            rep.add(Violation(cls, what, {"schedule": [list(c) for c in s]}))
    rep.coverage = {
        "states": len(scheds) + len(cseqs),
        "transitions": nruns + len(cseqs),
        "traces_validated_against_impl": nruns + len(cseqs),
        "two_site_insertion_sequences": len(cseqs), "schedules_on_the_dt_0.5_grid": len(isch),
        "distinct_outcomes": len(outcomes),
        "schedule_classes": classes,
        "exhaustive": True,
        "rule": "state = control schedule (tuple of (step 0..3, pre/post, int|float-on-grid|float+-0.3dt, map)) over N=3; "
                "families: all single controls, all ordered pairs on one (step, side) over 3 non-commuting maps and all "
                "spec pairs, all ordered pairs of distinct (step, side) slots, all orders of 3 stacked controls; each "
                "schedule is executed with/without an exact ancilla PT, start_time 0 and 1.7, and (int schedules) on either "
                "site of a 2-site chain via PtTebd; plus every insertion word of length 3 (4 at two slots; thorough: all) over "
                "{site 0, site 1} x 3 maps at one slot and length-3 words spread over mixed slots, on a 2-site chain with "
                "controls on both sites; single controls and pairs by float time on a dt = 0.5 grid (whole-number time stamps) at "
                "start times 0, -1, 2, 0.25; transitions = real executions",
        "samples": [[list(c) for c in scheds[(seed * 37) % len(scheds)]], [list(c) for c in scheds[500]]],
    }
    rep.assumptions = ["dense reference mc/refmodel.simulate with insertion-order composition",
                       "chains are uncoupled here (site-local comparison); coupled chains are covered by C10"]
    return rep


def replay(rp):
    if "integral_time_schedule" in rp:
        r = integral_time_worker((0, tuple(tuple(c) for c in rp["integral_time_schedule"])))
        return {"obs": r["vio"], "violation": r["vio"][0][0] if r["vio"] else None}
    if "chain_sequence" in rp:
        r = chain_multi_worker((0, tuple(tuple(c) for c in rp["chain_sequence"])))
        return {"obs": r["vio"], "violation": r["vio"][0][0] if r["vio"] else None}
    sched = tuple(tuple(c) for c in rp["schedule"])
    r = worker((0, sched))
    return {"obs": r["vio"], "violation": r["vio"][0][0] if r["vio"] else None}
