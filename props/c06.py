"""C06  Degeneracy reduction (unique=True) never changes results.

(a) Map level (internal seam Bath.north_degeneracy_map / west_degeneracy_map, dimension 2..5): for EVERY eigenvalue
    multiset of size 2..5 over the alphabet {-2, 0, 1, 3} (121 multisets; they realise every coincidence pattern of
    o_i - o_j and o_i + o_j reachable with four values, including none and total degeneracy) plus 6 symmetric
    spectra x scale {1, 0.37}
    (0.37 makes sums that coincide mathematically differ in the last bit) x basis {diagonal sorted, diagonal permuted,
    conjugated by a generic unitary}: the maps must be exactly the brute-force partition of the index pairs (i, j) by
    the exact integer values (o_i - o_j, o_i + o_j) [north] and (o_i - o_j) [west], with contiguous labels 0..n-1.

(b) Dynamics (differential): all 65 multisets of size 2..4 (plus 4 symmetric spectra) x basis {diagonal, conjugated by a generic unitary} x
    memory {full, dkmax 2 < N, dkmax 2 + add_correlation_time} x method {TEMPO, PT-TEMPO + compute_dynamics,
    MeanFieldTempo} (x systems x states): states (and field) with unique=True equal those with unique=False at EVERY
    step to C * epsrel * N.  Cases are keyed by their (north map, west map) pattern.
"""
import itertools

import numpy as np

from mc.common import Report, Violation, pmap, bind_repo
from . import c05_common as K

oq = bind_repo()
LEVEL = "exploration"

EPS = 1e-8
C_TOL = 100.0                     # measured: dev <= 4.2 eps (eps=1e-8), <= 11.7 eps (eps=1e-5) over the thorough product
ALPHABET = (-2, 0, 1, 3)
# symmetric spectra (o_i + o_j = 0 = 2 o_k coincidences, the only kind the repository's tests use) are not reachable
# with the alphabet above and are added explicitly
SYMMETRIC = [(-1, 1), (-1, 0, 1), (-1, 0, 0, 1), (-1, -1, 1, 1)]
SYMMETRIC_MAPS = SYMMETRIC + [(-2, -1, 0, 1, 2), (-1, -1, 0, 1, 1)]
OP_SCALE = 0.5                     # coupling operator = 0.5 * diag(ev) (keeps the decoherence moderate)
EXTREME_SCALES = (2.0e7, 1.0e-4)
MAP_SCALES = (1.0, 0.37) + EXTREME_SCALES
MIN_INFLUENCE = 0.05
MIN_MOVE = 0.01
BASES = {"diag": "id", "nondiag": "gen1"}
# propagators of time-dependent systems: quadrature for TEMPO, mid-point sampling (cheaper) for the others; C05 uses
# the quadrature everywhere
SUBDIV = {"tempo": "default", "pt": None, "mf": None}


def tol(eps):
    return C_TOL * eps * K.N


# ------------------------------------------------------------------------------------------------
# (a) maps against the brute-force partition

def brute_partition(values):
    """values: list of hashable exact keys; returns the list of classes as frozensets of positions"""
    cls = {}
    for pos, val in enumerate(values):
        cls.setdefault(val, []).append(pos)
    return {frozenset(v) for v in cls.values()}


def partition_of_map(m):
    return brute_partition([int(x) for x in m])


def map_case(args):
    ev, scale, basis = args
    d = len(ev)
    v = K.UNITARIES[{"diag": "id", "perm": "perm", "nondiag": "gen1"}[basis]](d)
    op = K.coupling(ev, v, scale)
    base = f"maps|d{d}|{basis}"
    out = {"cls": None, "what": None, "blocked": None, "n_north": None, "n_west": None}
    try:
        b = oq.Bath(op, K.correlations())
    except Exception as ex:  # noqa  -- not the business of C06 (C05 reports it); nothing to decide here
        out["blocked"] = K.exc_name(ex)
        return out
    try:
        north = np.array(b.north_degeneracy_map)
        west = np.array(b.west_degeneracy_map)
        diag = np.real(np.diag(np.array(b.coupling_operator))) / scale
    except Exception as ex:  # noqa
        out["cls"] = f"{base}|exception:{K.exc_name(ex)}"
        out["what"] = f"ev={ev} scale={scale}: {K.exc_name(ex)}: {str(ex)[:80]}"
        return out
    ints = np.rint(diag).astype(int)
    if np.abs(diag - ints).max() > 1e-9 or sorted(ints) != sorted(ev):
        out["blocked"] = "eigenvalues-not-reproduced"      # C05's business
        return out
    pairs_n = [(int(ints[i] - ints[j]), int(ints[i] + ints[j])) for i in range(d) for j in range(d)]
    pairs_w = [int(ints[i] - ints[j]) for i in range(d) for j in range(d)]
    for name, m, want in (("north", north, brute_partition(pairs_n)), ("west", west, brute_partition(pairs_w))):
        ok_shape = m.shape == (d * d,) and np.issubdtype(m.dtype, np.integer)
        if not ok_shape:
            out["cls"] = f"{base}|{name}-map-wrong-shape"
            out["what"] = f"ev={ev} scale={scale}: {name} map has shape {m.shape} dtype {m.dtype}"
            return out
        if scale in EXTREME_SCALES:
            # operators in very large / small units: rounding of the computed eigenvalues may split a class (that only
            # costs time); the map must never MERGE entries whose sums / differences differ (that changes results)
            lib_classes = {}
            for idx, lab in enumerate(m.tolist()):
                lib_classes.setdefault(lab, []).append(idx)
            vals = pairs_n if name == "north" else pairs_w
            merged = [c for c in lib_classes.values() if len(set(vals[i] for i in c)) > 1]
            if merged:
                out["cls"] = f"{base}|{name}-map-merges-distinct-values(extreme-scale)"
                out["what"] = (f"ev={ev} scale={scale}: {name} map {m.tolist()} puts entries with different "
                               f"{'(difference, sum)' if name == 'north' else 'difference'} values {sorted(set(vals[i] for i in merged[0]))} into one class")
                return out
            continue
        if partition_of_map(m) != want:
            out["cls"] = f"{base}|{name}-map-is-not-the-brute-force-partition"
            out["what"] = (f"ev={ev} scale={scale}: {name} map {m.tolist()} has {len(partition_of_map(m))} classes, "
                           f"brute force {len(want)}")
            return out
        if sorted(set(int(x) for x in m)) != list(range(len(want))):
            out["cls"] = f"{base}|{name}-map-labels-not-contiguous"
            out["what"] = f"ev={ev} scale={scale}: {name} map labels {sorted(set(m.tolist()))}"
            return out
    if scale in EXTREME_SCALES:
        return out
    out["n_north"], out["n_west"] = int(north.max()) + 1, int(west.max()) + 1
    out["pattern"] = (tuple(int(x) for x in north), tuple(int(x) for x in west))
    return out


def map_cases():
    evs = K.multisets(ALPHABET, (2, 3, 4, 5)) + SYMMETRIC_MAPS
    return [(ev, s, b) for ev in evs for s in MAP_SCALES for b in ("diag", "perm", "nondiag")]


# ------------------------------------------------------------------------------------------------
# (b) dynamics, unique on vs off

def dyn_item(item):
    """item: (method, ev, basis, mem, eps, syskind, statekind); for 'pt' syskind = statekind = None (all are run)."""
    method, ev, basis, mem, eps, syskind, statekind = item
    d = len(ev)
    v = K.UNITARIES[BASES[basis]](d)
    op = K.coupling(ev, v, OP_SCALE)
    combos = [(s, st) for s in K.SYSTEMS for st in K.STATES] if method == "pt" else [(syskind, statekind)]
    K.take_retries()

    def rec(c, **kw):
        r = {"key": [method, list(ev), basis, mem, eps, c[0], c[1]], "dev": None, "cls": None, "what": None,
             "blocked": None, "infl": 0.0, "move": 0.0, "pattern": None, "n_north": None, "n_west": None}
        r.update(kw)
        return r

    try:
        b = oq.Bath(op, K.correlations())
        north = tuple(int(x) for x in b.north_degeneracy_map)
        west = tuple(int(x) for x in b.west_degeneracy_map)
    except Exception as ex:  # noqa  -- Bath refuses the operator for unique on and off alike: C05's business
        return [rec(c, blocked=K.exc_name(ex)) for c in combos]
    nn, nw = max(north) + 1, max(west) + 1
    base = f"dyn|{method}|d{d}|{basis}|{mem}|north{nn}-west{nw}-of{d * d}"

    def runner(unique):
        if method == "tempo":
            return {c: K.run_tempo(op, d, v, c[0], c[1], mem, unique, eps) for c in combos}
        if method == "mf":
            return {c: K.run_mf(op, d, v, c[0], c[1], mem, unique, eps, SUBDIV["mf"]) for c in combos}
        pt = K.build_pt(op, mem, unique, eps)
        return {c: K.run_pt(pt, d, v, c[0], c[1], SUBDIV["pt"]) for c in combos}

    res, exc = {}, {}
    for unique in (False, True):
        try:
            res[unique] = runner(unique)
        except Exception as ex:  # noqa
            exc[unique] = f"{K.exc_name(ex)}"
            exc[str(unique) + "msg"] = str(ex)[:80]
    if exc:
        which = "both" if (False in exc and True in exc) else ("unique-on" if True in exc else "unique-off")
        name = exc.get(True, exc.get(False))
        return [rec(c, cls=f"{base}|exception-{which}:{name}", pattern=(north, west), n_north=nn, n_west=nw,
                    what=f"{method} ev={ev} {basis} mem={mem}: run with {which} raises {name}: "
                         f"{exc.get('Truemsg', exc.get('Falsemsg'))}") for c in combos]
    out = []
    for c in combos:
        a, bb = res[False][c], res[True][c]
        free = K.back_rotate(K.free_states(d, c[0], c[1], SUBDIV[method]), v.conj().T)   # V rho V^dagger
        infl = float(np.abs(bb["states"] - free).max())
        move = float(np.abs(bb["states"][-1] - bb["states"][0]).max())
        r = rec(c, infl=infl, move=move, pattern=(north, west), n_north=nn, n_west=nw)
        if a["states"].shape != bb["states"].shape:
            r["cls"] = f"{base}|shape-differs"
            r["what"] = f"{method} ev={ev}: {a['states'].shape} vs {bb['states'].shape}"
            out.append(r)
            continue
        dev = np.abs(a["states"] - bb["states"]).max(axis=(1, 2))
        if a["fields"] is not None:
            dev = np.maximum(dev, np.abs(a["fields"] - bb["fields"]))
        # relative to the size of the compared states (1 for physical states; DESIGN sec. 2.7) -- a non-unitary
        # transform stored by Bath (C05) makes both runs blow up alike, which is not a difference between them
        dev = dev / max(1.0, float(np.abs(a["states"]).max()), float(np.abs(bb["states"]).max()))
        r["dev"] = float(dev.max())
        if np.abs(a["times"] - bb["times"]).max() > 1e-12:
            r["cls"] = f"{base}|times-differ"
            r["what"] = f"{method} ev={ev}: time axes differ"
        elif (dev > tol(eps)).any():
            r["cls"] = f"{base}|state-mismatch"
            r["what"] = (f"{method} ev={ev} {basis} {c[0]}/{c[1]} mem={mem} epsrel={eps}: |rho_unique - rho_full| = "
                         f"{dev.max():.2e} (relative to max(1, |rho|)) > {tol(eps):.1e} first at step {int(np.argmax(dev > tol(eps)))}; maps reduce "
                         f"{d * d} -> north {nn}, west {nw}; bath influence {infl:.2f}")
        out.append(r)
    if out:
        out[0]["retries"] = K.take_retries()
    return out


def dyn_items(tier):
    evs = K.multisets(ALPHABET, (2, 3, 4)) + SYMMETRIC
    items = []
    eps_list = [EPS] if tier == "quick" else [EPS, 1e-5]
    for ev, basis, eps in itertools.product(evs, ("diag", "nondiag"), eps_list):
        for mem in ("full", "dk2", "dk2+add"):
            items.append(("pt", ev, basis, mem, eps, None, None))
            if tier == "quick":
                if mem == "dk2" and len(ev) == 4:
                    continue          # d = 4: TEMPO / mean-field with the two extreme memory settings only
                items.append(("tempo", ev, basis, mem, eps, "H+L", "mixed"))
                items.append(("mf", ev, basis, mem, eps, "mfA", "mixed"))
            else:
                for s, st in itertools.product(K.SYSTEMS, K.STATES):
                    items.append(("tempo", ev, basis, mem, eps, s, st))
                for s in K.MF_SYSTEMS:
                    items.append(("mf", ev, basis, mem, eps, s, "mixed"))
    return items


# ------------------------------------------------------------------------------------------------

# ------------------------------------------------------------------------------------------------
# mean-field TEMPO with SEVERAL systems whose baths have DIFFERENT coupling operators (per-bath degeneracy data)

MF_MULTI = [
    ((0.0, 1.0), (0.5, -0.5)),
    ((1.0, 1.0, 0.0), (1.0, 0.0, 0.0)),
    ((0.5, -0.5), (1.0, 1.0, 0.0)),
    ((1.0, 0.0, 0.0), (0.0, 1.0), (1.0, 1.0, -1.0)),
]


def mf_multi_case(args):
    idx, order, mem, basis = args
    evs = [MF_MULTI[idx][i] for i in order]
    import oqupy as oq
    from . import models as M_
    systems, baths, states = [], [], []
    for k, ev in enumerate(evs):
        d = len(ev)
        v = M_.generic_unitary(d, 11 + k) if basis == "nondiag" else np.eye(d, dtype=complex)
        op = (v * np.array(ev)) @ v.conj().T
        h0 = M_.generic_herm(d, 3 + k, 0.6)
        h1 = M_.generic_herm(d, 5 + k, 0.4)
        systems.append(oq.TimeDependentSystemWithField(lambda t, a, h0=h0, h1=h1: h0 + np.real(a) * h1))
        baths.append(oq.Bath(op, oq.PowerLawSD(alpha=0.4, zeta=1.0, cutoff=3.0, cutoff_type="exponential", temperature=0.3 + 0.2 * k)))
        states.append(M_.generic_state(d, 2 + k))
    mfs = oq.MeanFieldSystem(systems, lambda t, st, a: -0.2 * a - 0.3j * sum(s[0, -1] for s in st))
    kw = {"dkmax": None} if mem == "full" else {"dkmax": 2, "add_correlation_time": 0.3}
    prm = oq.TempoParameters(dt=0.2, epsrel=EPS, subdiv_limit=None, **kw)
    out = {}
    for unique in (False, True):
        def go():
            d_ = oq.MeanFieldTempo(mfs, baths, prm, states, 0.4 + 0.1j, start_time=0.0, unique=unique).compute(
                5.4 * 0.2, progress_type="silent")
            return [np.array(sd.states) for sd in d_.system_dynamics], np.array(d_.fields)
        for attempt in range(6):
            try:
                out[unique] = go()
                break
            except np.linalg.LinAlgError:
                continue
            except Exception as ex:  # noqa
                return {"cls": f"mf-multi|{len(evs)}-systems-different-couplings|{basis}|{mem}|exception:{type(ex).__name__}"
                               f"(unique={unique})", "what": f"couplings {evs}: {ex}"[:200], "dev": None, "move": 0.0}
        else:
            return {"cls": "mf-multi|lapack-svd-did-not-converge-6-times", "what": str(args), "dev": None, "move": 0.0}
    dev = max(max(np.abs(a - b).max() for a, b in zip(out[True][0], out[False][0])), np.abs(out[True][1] - out[False][1]).max())
    move = max(np.abs(s - s[0]).max() for s in out[False][0])
    cls = None
    if dev > tol(EPS):
        cls = f"mf-multi|{len(evs)}-systems-different-couplings|{basis}|{mem}|state-mismatch"
    return {"cls": cls, "what": f"couplings {evs} basis={basis} memory={mem}: unique on/off differ by {dev:.2e}", "dev": dev,
            "move": float(move)}


def sequence_case(args):
    """Within ONE process: unique=True computations for the same eigenvalue multiset written in different orders, one
    after the other (state left behind by an earlier object must not leak into a later one)."""
    ev, method = args
    import itertools as it
    import oqupy as oq
    from . import models as M_
    d = len(ev)
    bad = []
    h = M_.generic_herm(d, 3, 0.6)
    rho = M_.generic_state(d, 2)
    for order in it.permutations(range(d)):
        op = np.diag(np.array([ev[i] for i in order], dtype=complex))
        res = {}
        for unique in (True, False):
            bath = oq.Bath(op, oq.PowerLawSD(alpha=0.4, zeta=1.0, cutoff=3.0, cutoff_type="exponential", temperature=0.3))
            prm = oq.TempoParameters(dt=0.2, epsrel=EPS, dkmax=2)
            if method == "tempo":
                dyn = oq.Tempo(oq.System(h), bath, prm, rho, 0.0, unique=unique).compute(4.4 * 0.2, progress_type="silent")
            else:
                pt = oq.pt_tempo_compute(bath, 0.0, 4.4 * 0.2, prm, unique=unique, progress_type="silent")
                dyn = oq.compute_dynamics(oq.System(h), rho, process_tensor=pt, progress_type="silent")
            res[unique] = np.array(dyn.states)
        dev = np.abs(res[True] - res[False]).max()
        if dev > tol(EPS):
            bad.append((f"sequence|{method}|same-multiset-different-order|state-mismatch",
                        f"eigenvalues {[ev[i] for i in order]} (after other orders of the same multiset in this process): "
                        f"unique on/off differ by {dev:.2e}"))
    return {"bad": bad, "n": 12}


def mf_multi_cases():
    import itertools as it
    out = []
    for idx, evs in enumerate(MF_MULTI):
        for order in it.permutations(range(len(evs))):
            for mem in ("full", "dkmax2+tau"):
                for basis in ("diag", "nondiag"):
                    out.append((idx, order, mem, basis))
    return out


def run(tier, seed):
    rep = Report(LEVEL)
    mmc = mf_multi_cases()
    mmr = pmap(mf_multi_case, mmc, seed=seed)
    mm_nontrivial = 0
    mm_maxdev = 0.0
    for c, r in zip(mmc, mmr):
        if r["cls"]:
            rep.add(Violation(r["cls"], r["what"], {"part": "mfmulti", "args": [c[0], list(c[1]), c[2], c[3]]}))
        if r["dev"] is not None:
            mm_maxdev = max(mm_maxdev, r["dev"])
            mm_nontrivial += int(r["move"] > 0.01)
    sq = [(ev, m) for ev in ((3.0, 1.0, 0.0), (1.0, 0.0, -2.0), (1.0, 1.0, 0.0)) for m in ("tempo", "pt")]
    sqr = pmap(sequence_case, sq, chunksize=1, seed=seed)
    for c, r in zip(sq, sqr):
        for cls, what in r["bad"]:
            rep.add(Violation(cls, what, {"part": "sequence", "args": [list(c[0]), c[1]]}))
    mcases = map_cases()
    mres = pmap(map_case, mcases, seed=seed)
    map_patterns = set()
    map_blocked = 0
    for c, r in zip(mcases, mres):
        if r["cls"]:
            rep.add(Violation(r["cls"], r["what"], {"part": "maps", "ev": list(c[0]), "scale": c[1], "basis": c[2]}))
        if r["blocked"]:
            map_blocked += 1
        elif r.get("pattern") is not None and r["n_north"] < len(c[0]) ** 2:
            map_patterns.add((c[2], r["pattern"]))

    items = dyn_items(tier)
    order = sorted(range(len(items)), key=lambda i: (-len(items[i][1]), items[i][3] != "full", items[i][0] == "pt", i))
    rs = pmap(dyn_item, [items[i] for i in order], chunksize=1, seed=seed)
    res = [None] * len(items)
    for i, r in zip(order, rs):
        res[i] = r
    n_eval = blocked = trivial = retries = 0
    keys = set()
    patterns = set()
    maxdev = {}
    min_infl = min_move = None
    north_reduced = 0
    for recs in res:
        for r in recs:
            n_eval += 1
            retries += r.get("retries", 0)
            eps = r["key"][4]
            if r["blocked"]:
                blocked += 1
                continue
            if r["cls"]:
                rep.add(Violation(r["cls"], r["what"], {"part": "dyn", "key": r["key"]}))
            if r["dev"] is not None and not (r["cls"] or "").endswith("state-mismatch"):
                maxdev[eps] = max(maxdev.get(eps, 0.0), r["dev"])
            d = len(r["key"][1])
            reduced = r["n_north"] is not None and (r["n_north"] < d * d or r["n_west"] < d * d)
            if reduced and r["infl"] > MIN_INFLUENCE and r["move"] > MIN_MOVE:
                keys.add((r["key"][0], r["key"][2], r["key"][3], r["pattern"]))
                patterns.add(r["pattern"])
                north_reduced += int(r["n_north"] < d * d)
                min_infl = r["infl"] if min_infl is None else min(min_infl, r["infl"])
                min_move = r["move"] if min_move is None else min(min_move, r["move"])
            else:
                trivial += 1
    worst = max((m / tol(e) for e, m in maxdev.items()), default=0.0)
    flat = [r for recs in res for r in recs if r["infl"] > MIN_INFLUENCE and r["move"] > MIN_MOVE] or \
        [r for recs in res for r in recs]
    samples = [{"key": r["key"], "dev": r["dev"], "north_classes": r["n_north"], "west_classes": r["n_west"],
                "bath_influence": r["infl"], "blocked": r["blocked"], "violation": r["cls"]}
               for r in (flat[0], flat[len(flat) // 2], flat[-1])]
    rep.coverage = {
        "evaluations": len(mcases) + n_eval + len(mmc) + 12 * len(sq),
        "distinct_nontrivial": len(keys) + len(map_patterns),
        "mean_field_multi_system": {"cases": len(mmc), "nontrivial": mm_nontrivial, "max_dev": mm_maxdev,
                                    "rule": "2-3 systems with different coupling operators, all orders x memory x basis"},
        "map_level": {"cases": len(mcases), "blocked_by_bath_exception": map_blocked,
                      "distinct_patterns_with_north_reduction": len(map_patterns), "dims": [2, 3, 4, 5],
                      "alphabet": list(ALPHABET), "scales": list(MAP_SCALES), "bases": ["diag", "perm", "nondiag"]},
        "dynamics": {"pairs_compared": n_eval - blocked, "blocked_by_bath_exception": blocked,
                     "nontrivial_pairs": n_eval - blocked - trivial, "trivial_pairs": trivial,
                     "distinct_keys(method,basis,memory,north map,west map)": len(keys),
                     "distinct_map_patterns": len(patterns), "pairs_with_north_reduction": north_reduced,
                     "worker_items": len(items), "steps_compared_per_pair": K.N + 1,
                     "multisets": len(K.multisets(ALPHABET, (2, 3, 4))) + len(SYMMETRIC)},
        "rule": "map level: all multisets of size 2..5 over {-2,0,1,3} (+6 symmetric spectra) x scale {1,0.37} x {diagonal, permuted diagonal, "
                "generic non-diagonal}; dynamics: all multisets of size 2..4 (+4 symmetric spectra) x {diagonal, non-diagonal} x memory x method "
                "(x systems x states), unique=True vs unique=False at every step.  A pair is non-trivial iff a map really "
                "reduces a dimension, the bath moves the state by > 0.05 w.r.t. the bath-free evolution and the state "
                "moves by > 0.01 from the initial state; distinct cases are keyed by (method, basis, memory, north map, "
                "west map).  Cases in which Bath() itself rejects the operator (unique on and off alike) are counted as "
                "blocked: C05 reports them, C06 cannot be decided there and 'exhaustive' is false while any exist.",
        "samples": samples,
        "exhaustive": blocked == 0 and map_blocked == 0,
        "max_dev": maxdev.get(EPS, 0.0),
        "max_dev_by_epsrel": {str(e): m for e, m in sorted(maxdev.items())},
        "tolerance": tol(EPS),
        "tolerance_rule": f"{C_TOL} * epsrel * {K.N} steps",
        "max_dev_over_tol": worst,
        "min_bath_influence_nontrivial": min_infl,
        "min_state_move_nontrivial": min_move,
        "diagnostic_lapack_svd_retries": retries,
    }
    rep.assumptions = [
        "differential oracle: unique=False is the partner of unique=True; errors common to both are C01/C02's business",
        "quick tier: TEMPO and MeanFieldTempo use one system/state per case and skip the middle memory setting for d=4; "
        "PT-TEMPO process tensors are contracted with 3 systems x 2 states; the thorough tier runs the full product at "
        "two epsrel values",
        "LinAlgError('SVD did not converge') from LAPACK gesdd (input-bit dependent, seen for unique=False with "
        f"degenerate operators) is retried up to {K.SVD_RETRIES} times; only a persistent failure is reported",
        "max_dev excludes pairs already reported as state-mismatch (it is the noise floor of passing pairs)",
    ]
    return rep


def replay(rp):
    if rp.get("part") == "sequence":
        a = rp["args"]
        r = sequence_case((tuple(a[0]), a[1]))
        return {"obs": r["bad"][:3], "violation": r["bad"][0][0] if r["bad"] else None}
    if rp.get("part") == "mfmulti":
        a = rp["args"]
        r = mf_multi_case((a[0], tuple(a[1]), a[2], a[3]))
        return {"obs": {"dev": None if r["dev"] is None else round(r["dev"], 10)}, "violation": r["cls"]}
    if rp["part"] == "maps":
        r = map_case((tuple(rp["ev"]), rp["scale"], rp["basis"]))
        return {"obs": {"cls": r["cls"], "what": r["what"], "blocked": r["blocked"]}, "violation": r["cls"]}
    method, ev, basis, mem, eps, s, st = rp["key"]
    item = (method, tuple(ev), basis, mem, eps, None if method == "pt" else s, None if method == "pt" else st)
    for r in dyn_item(item):
        if r["key"][5] == s and r["key"][6] == st:
            dev = r["dev"]
            obs = {"dev": None if dev is None else ("<=tol" if dev <= tol(eps) else float(f"{dev:.3e}")),
                   "cls": r["cls"], "blocked": r["blocked"]}
            return {"obs": obs, "violation": r["cls"]}
    return {"obs": "case not found", "violation": None}
