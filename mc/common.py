"""Shared plumbing: repo binding, worker pool, violation records."""
import os
import sys
import time
import json
import hashlib
import warnings
import multiprocessing as mp

VERIF = os.path.dirname(os.path.dirname(os.path.abspath(__file__)))
REPO = os.path.realpath(os.environ.get("VERIF_REPO", "/repo"))
NWORKERS = int(os.environ.get("VERIF_WORKERS", str(min(16, os.cpu_count() or 1))))

_bound = False


def bind_repo():
    """Import oqupy from REPO's working tree and assert that this is what we got."""
    global _bound
    if _bound:
        return sys.modules["oqupy"]
    for k in ("OMP_NUM_THREADS", "OPENBLAS_NUM_THREADS", "MKL_NUM_THREADS"):
        os.environ.setdefault(k, "1")
    if REPO not in sys.path:
        sys.path.insert(0, REPO)
    warnings.filterwarnings("ignore", category=DeprecationWarning)
    import oqupy  # noqa
    got = os.path.realpath(oqupy.__file__)
    if not got.startswith(REPO + os.sep):
        raise RuntimeError(f"oqupy imported from {got}, expected under {REPO}")
    _bound = True
    return oqupy


class Violation(dict):
    """cls: 'input class | failure signature' string used for known-finding matching and grouping.
    what: one line. replay: json-able dict sufficient to re-run the case without the explorer."""

    def __init__(self, cls, what, replay, **extra):
        super().__init__(cls=cls, what=what, replay=replay, **extra)


class Report:
    def __init__(self, level):
        self.level = level
        self.coverage = {}
        self.violations = []
        self.assumptions = []

    def add(self, v):
        self.violations.append(v)


# ---------------------------------------------------------------------------------------------
# worker pool (fork once per worker after oqupy is imported in the parent; no fork per execution)

_POOL = None


def _init_worker():
    import signal
    signal.signal(signal.SIGINT, signal.SIG_IGN)
    warnings.filterwarnings("ignore")


def pool():
    global _POOL
    if _POOL is None:
        bind_repo()
        ctx = mp.get_context("fork")
        _POOL = ctx.Pool(NWORKERS, initializer=_init_worker)
    return _POOL


def close_pool():
    global _POOL
    if _POOL is not None:
        _POOL.terminate()
        _POOL.join()
        _POOL = None


def pmap(func, items, chunksize=None, seed=0, serial=False):
    """Ordered parallel map. The seed only rotates the order in which shards are issued."""
    items = list(items)
    n = len(items)
    if n == 0:
        return []
    if serial or NWORKERS <= 1 or n == 1:
        return [func(x) for x in items]
    rot = seed % n
    order = list(range(rot, n)) + list(range(0, rot))
    if chunksize is None:
        chunksize = max(1, n // (NWORKERS * 8))
    res = pool().map(func, [items[i] for i in order], chunksize=chunksize)
    out = [None] * n
    for i, r in zip(order, res):
        out[i] = r
    return out


def digest(obj):
    return hashlib.sha1(json.dumps(obj, sort_keys=True, default=repr).encode()).hexdigest()[:12]


def jsonable(x):
    import numpy as np
    if isinstance(x, dict):
        return {str(k): jsonable(v) for k, v in x.items()}
    if isinstance(x, (list, tuple)):
        return [jsonable(v) for v in x]
    if isinstance(x, np.ndarray):
        if np.iscomplexobj(x):
            return {"re": x.real.tolist(), "im": x.imag.tolist()}
        return x.tolist()
    if isinstance(x, (np.integer,)):
        return int(x)
    if isinstance(x, (np.floating,)):
        return float(x)
    if isinstance(x, (np.complexfloating, complex)):
        return {"re": float(x.real), "im": float(x.imag)}
    if isinstance(x, (np.bool_,)):
        return bool(x)
    if isinstance(x, slice):
        return {"slice": [x.start, x.stop, x.step]}
    if isinstance(x, (str, int, float, bool)) or x is None:
        return x
    return repr(x)


class Timer:
    def __init__(self):
        self.t0 = time.time()

    def __call__(self):
        return time.time() - self.t0
