"""Known-findings file (committed, never written at run time).

/verif/known_findings.txt, one entry per line:
  known: property=<ID> match=<regex on violation cls> :: <what fails>
  fixed: property=<ID> <commit> <what failed>
'fixed' entries suppress nothing.  A 'known' entry matches a violation iff the regex fully matches
the violation's cls string (input class | failure signature)."""
import os
import re

from .common import VERIF

PATH = os.path.join(VERIF, "known_findings.txt")


def load(prop):
    out = []
    if not os.path.exists(PATH):
        return out
    for line in open(PATH):
        line = line.strip()
        if not line or line.startswith("#"):
            continue
        m = re.match(r"known:\s+property=(\S+)\s+match=(\S+)\s+::\s+(.*)$", line)
        if m and m.group(1) == prop:
            out.append({"re": re.compile(m.group(2)), "what": m.group(3), "raw": m.group(2)})
    return out


def match(entries, cls):
    for e in entries:
        if e["re"].fullmatch(cls):
            return e
    return None
