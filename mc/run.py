"""CLI: python -m mc.run <ID> [--tier quick|thorough] [--replay file]"""
import argparse
import importlib
import json
import os
import subprocess
import sys
import time
import traceback

from . import common, findings

SCHEMA = "/root/.vp/EVIDENCE.schema.json"
SCHEMA_LOCAL = os.path.join(common.VERIF, "mc", "EVIDENCE.schema.json")
MAX_CLASSES_REPORTED = 25


def validate_evidence(path):
    schema = SCHEMA if os.path.exists(SCHEMA) else SCHEMA_LOCAL
    code = ("import json,sys,jsonschema;"
            "jsonschema.validate(json.load(open(sys.argv[1])),json.load(open(sys.argv[2])))")
    try:
        r = subprocess.run(["python3-vt", "-c", code, path, schema], capture_output=True, text=True,
                           timeout=60)
    except FileNotFoundError:
        return True, "python3-vt not available; not validated"
    return r.returncode == 0, r.stderr[-2000:]


def main(argv=None):
    ap = argparse.ArgumentParser()
    ap.add_argument("prop")
    ap.add_argument("--tier", default=os.environ.get("VERIF_TIER", "quick"),
                    choices=["quick", "thorough"])
    ap.add_argument("--replay", default=None)
    args = ap.parse_args(argv)
    pid = args.prop.upper()
    seed = int(os.environ.get("VERIF_SEED", "0") or 0)
    t0 = time.time()
    common.bind_repo()
    mod = importlib.import_module("props." + pid.lower())

    if args.replay:
        data = json.load(open(args.replay))
        rp = data.get("replay", data)
        r1 = mod.replay(rp)
        r2 = mod.replay(rp)
        o1, o2 = common.jsonable(r1.get("obs")), common.jsonable(r2.get("obs"))
        print(json.dumps({"obs": o1, "violation": r1.get("violation")}, indent=1)[:6000])
        if json.dumps(o1, sort_keys=True) != json.dumps(o2, sort_keys=True):
            print("HARNESS-ERROR: replay not deterministic")
            return 3
        if r1.get("violation"):
            kn = findings.match(findings.load(pid), r1["violation"])
            if kn:
                print(f"KNOWN-FINDING: property={pid} {kn['what']}")
                return 0
            print(f"VIOLATION property={pid} replay={os.path.abspath(args.replay)}")
            return 1
        print(f"OK property={pid} replay holds")
        return 0

    try:
        rep = mod.run(args.tier, seed)
    except BaseException as ex:  # noqa
        # the exploration itself crashed: an exception escaped from the code under test in a case the harness did not
        # anticipate.  On the unchanged tree this never happens (it would be a broken check); on a changed tree it means
        # the change makes an enumerated case blow up, which is reported as a violation with the traceback as replay.
        traceback.print_exc()
        common.close_pool()
        rdir = os.path.join(common.VERIF if common.REPO == "/repo" else os.path.join(common.VERIF, "scratch"), "replays", pid)
        os.makedirs(rdir, exist_ok=True)
        path = os.path.join(rdir, "crash.json")
        with open(path, "w") as fh:
            json.dump({"property": pid, "cls": "exploration-crashed", "what": f"{type(ex).__name__}: {ex}"[:500],
                       "traceback": traceback.format_exc()[-4000:]}, fh, indent=1)
        print(f"VIOLATION property={pid} replay={path}   # exploration crashed with {type(ex).__name__}: {str(ex)[:200]}")
        return 1
    finally:
        common.close_pool()
    wall = time.time() - t0

    known = findings.load(pid)
    classes = {}
    for v in rep.violations:
        classes.setdefault(v["cls"], []).append(v)
    base = common.VERIF if common.REPO == "/repo" else os.path.join(common.VERIF, "scratch")
    rdir = os.path.join(base, "replays", pid)
    os.makedirs(rdir, exist_ok=True)
    for f in os.listdir(rdir):
        if f.startswith("v") and f.endswith(".json"):
            os.remove(os.path.join(rdir, f))
    n_new = 0
    known_hit = {}
    lines = []
    summary = []
    for i, (cls, vs) in enumerate(classes.items()):
        kn = findings.match(known, cls)
        if kn is not None:
            known_hit.setdefault(kn["raw"], [kn, 0])
            known_hit[kn["raw"]][1] += len(vs)
            summary.append({"cls": cls, "count": len(vs), "known": True})
            continue
        n_new += len(vs)
        summary.append({"cls": cls, "count": len(vs), "known": False, "what": vs[0]["what"]})
        if len(lines) >= MAX_CLASSES_REPORTED:
            continue
        v = vs[0]
        path = os.path.join(rdir, f"v{len(lines):03d}.json")
        reproduced = None
        if hasattr(mod, "replay") and v.get("replay") is not None:
            try:
                r1 = mod.replay(v["replay"])
                r2 = mod.replay(v["replay"])
                same = json.dumps(common.jsonable(r1.get("obs")), sort_keys=True) == \
                    json.dumps(common.jsonable(r2.get("obs")), sort_keys=True)
                reproduced = bool(r1.get("violation")) and same
            except Exception:
                reproduced = False
                traceback.print_exc()
        with open(path, "w") as fh:
            json.dump(common.jsonable({"property": pid, "cls": cls, "what": v["what"],
                                       "count_in_class": len(vs), "replay": v["replay"],
                                       "replay_reproduced_twice": reproduced}), fh, indent=1)
        lines.append(f"VIOLATION property={pid} replay={path}   # {cls} :: {v['what']}"
                     f" (x{len(vs)}; replay reproduced twice: {reproduced})")

    cov = dict(rep.coverage)
    cov["violation_classes"] = summary[:400]
    ev = {"property_id": pid, "tier": args.tier, "seed": seed, "level": rep.level,
          "coverage": common.jsonable(cov), "assumptions": rep.assumptions,
          "wall_s": round(wall, 2), "violations": n_new,
          "known_findings_hit": [{"match": k, "count": c} for k, (e, c) in known_hit.items()],
          "repo": common.REPO}
    epath = os.path.join(base, "evidence", f"{pid}.json")
    os.makedirs(os.path.dirname(epath), exist_ok=True)
    with open(epath, "w") as fh:
        json.dump(ev, fh, indent=1)
    ok, msg = validate_evidence(epath)
    for k, (e, c) in known_hit.items():
        print(f"KNOWN-FINDING: property={pid} {e['what']} (x{c})")
    for ln in lines:
        print(ln)
    brief = {k: v for k, v in cov.items() if isinstance(v, (int, float, bool, str)) and k != "rule"}
    print(f"[{pid}] tier={args.tier} seed={seed} wall={wall:.1f}s violations={n_new} "
          f"known={sum(c for _, c in known_hit.values())} coverage={json.dumps(brief)}")
    if not ok:
        print("HARNESS-ERROR: evidence does not validate:", msg)
        return 3
    return 1 if n_new else 0


if __name__ == "__main__":
    sys.exit(main())
