"""Reference models, written independently of oqupy (numpy/scipy only).

Conventions: density matrices are vectorised row-major, vec(rho)[i*d+j] = rho[i, j];
a superoperator S acts as vec(rho') = S @ vec(rho);  vec(A rho B) = kron(A, B.T) @ vec(rho).
"""
import string

import numpy as np
import scipy.linalg as sl


# ---------------------------------------------------------------------------------------------
# superoperators

def left_super(a):
    return np.kron(a, np.eye(a.shape[0]))


def right_super(b):
    return np.kron(np.eye(b.shape[0]), b.T)


def conj_super(u):
    """rho -> u rho u^dagger"""
    return np.kron(u, u.conj())


def lindbladian(h, gammas=(), ops=()):
    d = h.shape[0]
    one = np.eye(d)
    liou = -1j * (np.kron(h, one) - np.kron(one, h.T))
    for g, a in zip(gammas, ops):
        ada = a.conj().T @ a
        liou = liou + g * (np.kron(a, a.conj()) - 0.5 * np.kron(ada, one) - 0.5 * np.kron(one, ada.T))
    return liou


def half_props(h, dt, gammas=(), ops=()):
    p = sl.expm(lindbladian(h, gammas, ops) * dt / 2.0)
    return p, p


def unvec(v, d):
    return np.asarray(v).reshape(d, d)


# ---------------------------------------------------------------------------------------------
# first-principles joint simulator: system (x) ancillas, density matrices, Kraus maps

class JointSim:
    """State tensor R[s, a1..am, s', a1'..am'] of system (dim d) and m ancillas."""

    def __init__(self, rho_sys, ancilla_states):
        self.d = rho_sys.shape[0]
        self.es = [s.shape[0] for s in ancilla_states]
        self.m = len(self.es)
        rho = np.asarray(rho_sys, dtype=complex)
        for s in ancilla_states:
            rho = np.kron(rho, np.asarray(s, dtype=complex))
        dims = [self.d] + self.es
        self.R = rho.reshape(dims + dims)

    def copy(self):
        c = object.__new__(JointSim)
        c.d, c.es, c.m = self.d, list(self.es), self.m
        c.R = self.R.copy()
        return c

    def apply_sys_superop(self, s):
        """s: d^2 x d^2 superoperator on the system."""
        d, n = self.d, self.m + 1
        s4 = np.asarray(s).reshape(d, d, d, d)  # [s, s', t, t']
        R = np.moveaxis(self.R, [0, n], [0, 1])  # [t, t', rest...]
        R = np.tensordot(s4, R, axes=([2, 3], [0, 1]))  # [s, s', rest]
        self.R = np.moveaxis(R, [0, 1], [0, n])

    def apply_env_kraus(self, j, kraus):
        """kraus: list of (d*e_j x d*e_j) matrices acting on system (x) ancilla j, index (s, a_j)."""
        d, e, n = self.d, self.es[j], self.m + 1
        ja, jb = 1 + j, n + 1 + j
        R = np.moveaxis(self.R, [0, ja, n, jb], [0, 1, 2, 3])  # [t, b, t', b', rest]
        rest = R.shape[4:]
        R = R.reshape(d * e, d * e, -1)
        out = np.zeros_like(R)
        for k in kraus:
            out += np.einsum("ij,jkr,lk->ilr", k, R, k.conj())
        out = out.reshape((d, e, d, e) + rest)
        self.R = np.moveaxis(out, [0, 1, 2, 3], [0, ja, n, jb])

    def reduced(self):
        n = self.m + 1
        R = self.R
        letters = string.ascii_letters
        idx = list(letters[:n]) + list(letters[n:2 * n])
        for j in range(1, n):
            idx[n + j] = idx[j]
        expr = "".join(idx) + "->" + idx[0] + idx[n]
        return np.einsum(expr, R)

    def norm(self):
        return np.trace(self.reduced())


def simulate(rho0, ancilla_states, env_kraus, props, num_steps, pre=None, post=None):
    """Documented step structure of compute_dynamics:
       for k in 0..N: pre-control(k); record; [k==N: stop]; post-control(k); half prop 1; environments
       in list order; half prop 2.
       env_kraus(j, k) -> Kraus list of environment j at step k; props(k) -> (P1, P2);
       pre/post: dict step -> superoperator (or None)."""
    sim = JointSim(rho0, ancilla_states)
    pre = pre or {}
    post = post or {}
    states = []
    for k in range(num_steps + 1):
        if pre.get(k) is not None:
            sim.apply_sys_superop(pre[k])
        states.append(sim.reduced())
        if k == num_steps:
            break
        if post.get(k) is not None:
            sim.apply_sys_superop(post[k])
        p1, p2 = props(k)
        sim.apply_sys_superop(p1)
        for j in range(len(ancilla_states)):
            kr = env_kraus(j, k)
            if kr is not None:
                sim.apply_env_kraus(j, kr)
        sim.apply_sys_superop(p2)
    return states


# ---------------------------------------------------------------------------------------------
# exact ancilla process-tensor data (pure numpy; turned into oqupy objects by mc.ancilla)

def mpo_from_kraus(kraus, d, e):
    """M[(b b'), (a a'), (t t'), (s s')] = sum_i K_i[(s a),(t b)] conj(K_i[(s' a'),(t' b')])."""
    m = np.zeros((e, e, e, e, d, d, d, d), dtype=complex)
    for k in kraus:
        k4 = k.reshape(d, e, d, e)  # [s, a, t, b]
        m += np.einsum("satb,SATB->bBaAtTsS", k4, k4.conj())
    return m.reshape(e * e, e * e, d * d, d * d)


def mpo3_from_controlled(us, e):
    """Controlled unitary sum_t |t><t| (x) U_t:  M3[(b b'),(a a'),(t t')] = U_t[a,b] conj(U_t'[a',b'])."""
    d = len(us)
    m = np.zeros((e, e, e, e, d, d), dtype=complex)
    for t in range(d):
        for tp in range(d):
            m[:, :, :, :, t, tp] = np.einsum("ab,AB->bBaA", us[t], us[tp].conj())
    return m.reshape(e * e, e * e, d * d)


def controlled_kraus(us):
    d = len(us)
    e = us[0].shape[0]
    k = np.zeros((d, e, d, e), dtype=complex)
    for t in range(d):
        k[t, :, t, :] = us[t]
    return [k.reshape(d * e, d * e)]


def cap_vec(e):
    return np.eye(e, dtype=complex).reshape(e * e)


# ---------------------------------------------------------------------------------------------
# self-test helpers

def random_free_unitary(n, tag):
    k = np.arange(n)
    a = np.cos(1.3 * tag + np.add.outer(k, 2.1 * k)) + 1j * np.sin(0.7 * tag + np.add.outer(1.7 * k, k + tag))
    a = a + a.conj().T
    return sl.expm(1j * a)


def amplitude_damping_kraus_joint(d, e, tag, p=0.3):
    """A non-unitary CPTP map on system (x) ancilla: unitary followed by partial dephasing/damping."""
    u = random_free_unitary(d * e, tag)
    n = d * e
    k0 = np.eye(n, dtype=complex)
    k1 = np.zeros((n, n), dtype=complex)
    k0[n - 1, n - 1] = np.sqrt(1 - p)
    k1[0, n - 1] = np.sqrt(p)
    return [k0 @ u, k1 @ u]
