"""Stateless exploration of thread interleavings on real Python code (cooperative scheduler on sys.settrace).

Logical threads are real threading.Threads; only one runs at a time.  Every 'line' event in a frame whose code
lives in one of the instrumented files is a scheduling point: the thread parks and the controller picks who runs
next from the *choice sequence*.  An execution is a pure function of the choice sequence.

Owned nondeterminism:
  * VTimer (stand-in for threading.Timer): start() arms, cancel() disarms; FIRING is a scheduler choice available at
    every scheduling point while armed (virtual time).  Once fired, a later cancel() does not stop the callback
    (the real Timer.run tests its flag once, then calls).  Firings per execution are capped (horizon).
  * VLock / VRLock: cooperative locks; a thread blocked on a held lock is not enabled; nobody enabled = deadlock.
Canonical order of the enabled list: the running thread first (if still enabled), other started threads by id,
then armed timers by creation order (choosing one fires it and runs its callback thread).
"""
import sys
import threading


class Deadlock(Exception):
    pass


class ReplayDivergence(Exception):
    pass


class _OSWorker(threading.Thread):
    """Long-lived OS thread that runs the bodies of logical threads one after the other.  Logical threads are mapped
    onto a small set of reusable OS threads because BLAS/LAPACK libraries allocate per-calling-thread buffers and
    stall after a few hundred distinct threads have called into them."""
    free = []
    lock = threading.Lock()

    def __init__(self):
        super().__init__(daemon=True, name="verif-sched-worker")
        self.job = None
        self.go = threading.Semaphore(0)

    def run(self):
        while True:
            self.go.acquire()
            job, self.job = self.job, None
            try:
                job()
            finally:
                with _OSWorker.lock:
                    _OSWorker.free.append(self)

    @classmethod
    def submit(cls, job):
        with cls.lock:
            w = cls.free.pop() if cls.free else None
        if w is None:
            w = cls()
            w.start()
        w.job = job
        w.go.release()
        return w


def _reset_workers_after_fork():
    # OS threads do not survive fork(): a forked worker process must not reuse the parent's idle workers
    _OSWorker.free = []
    _OSWorker.lock = threading.Lock()


import os as _os
_os.register_at_fork(after_in_child=_reset_workers_after_fork)


class _Starter:
    def __init__(self, body):
        self.body = body

    def start(self):
        _OSWorker.submit(self.body)


class LThread:
    def __init__(self, sched, tid, fn, name):
        self.sched, self.tid, self.fn, self.name = sched, tid, fn, name
        self.sem = threading.Semaphore(0)
        self.done = False
        self.started = False
        self.blocked_on = None
        self.exc = None
        self.thread = _Starter(self._body)

    def _body(self):
        self.sem.acquire()
        self.sched.current_tls.lt = self
        sys.settrace(self.sched._global_trace)
        try:
            self.fn()
        except BaseException as ex:  # noqa
            self.exc = ex
        finally:
            sys.settrace(None)
            self.done = True
            self.sched.ctrl.release()


class VTimer:
    """threading.Timer stand-in bound to the scheduler that is active when it is created."""
    sched = None     # set by Scheduler while an execution runs

    def __init__(self, interval, function, args=None, kwargs=None):
        self.interval, self.function = interval, function
        self.args, self.kwargs = args or [], kwargs or {}
        self.armed = False
        self.fired = False
        self.cancelled = False
        self.daemon = False
        self.name = "VTimer"
        s = VTimer.sched
        self.s = s
        self.idx = len(s.timers)
        s.timers.append(self)
        s.log.append(("timer-new", s.cur_tid(), self.idx))

    def start(self):
        self.armed = not self.cancelled
        self.s.log.append(("timer-start", self.s.cur_tid(), self.idx))

    def cancel(self):
        self.cancelled = True
        self.armed = False
        self.s.log.append(("timer-cancel", self.s.cur_tid(), self.idx, "after-fire" if self.fired else "ok"))

    def is_alive(self):
        return self.armed

    def join(self, timeout=None):
        # joining a timer: wait until it is neither armed nor running -> cooperative wait
        self.s.block_until(lambda: not (self.armed or any((not t.done) and t.name == f"timer{self.idx}"
                                                          for t in self.s.threads)))

    def setDaemon(self, v):
        self.daemon = v


class VLock:
    sched = None

    def __init__(self):
        self.owner = None
        self.count = 0
        self.reentrant = False
        self.s = VLock.sched

    def acquire(self, blocking=True, timeout=-1):
        s = self.s
        me = s.cur_tid()
        free = lambda: self.owner is None or (self.reentrant and self.owner == me)
        if not free():
            if not blocking:
                return False
            s.block_until(free)
        self.owner = me
        self.count += 1
        return True

    def release(self):
        self.count -= 1
        if self.count <= 0:
            self.owner = None
            self.count = 0

    def locked(self):
        return self.owner is not None

    __enter__ = acquire

    def __exit__(self, *a):
        self.release()


class VRLock(VLock):
    def __init__(self):
        super().__init__()
        self.reentrant = True


class VEvent:
    sched = None

    def __init__(self):
        self.flag = False
        self.s = VEvent.sched

    def set(self):
        self.flag = True

    def clear(self):
        self.flag = False

    def is_set(self):
        return self.flag

    def wait(self, timeout=None):
        if timeout is not None:
            return self.flag
        self.s.block_until(lambda: self.flag)
        return True


class Scheduler:
    def __init__(self, files, prefix=(), max_firings=3, max_points=5000):
        self.files = tuple(files)
        self.prefix = list(prefix)
        self.max_firings = max_firings
        self.max_points = max_points
        self.threads = []
        self.timers = []
        self.log = []
        self.points = []          # per scheduling point: dict(enabled=[labels], choice=int, running_enabled=bool)
        self.choices = []
        self.firings = 0
        self.ctrl = threading.Semaphore(0)
        self.current_tls = threading.local()
        self.running = None
        self.deadlock = False
        self.capped = False

    # -- helpers used by V-objects
    def cur(self):
        return getattr(self.current_tls, "lt", None)

    def cur_tid(self):
        lt = self.cur()
        return lt.tid if lt else -1

    def _global_trace(self, frame, event, arg):
        if event == "call" and frame.f_code.co_filename.endswith(self.files):
            return self._local_trace
        return None

    def _local_trace(self, frame, event, arg):
        if event == "line":
            self._yield(frame.f_lineno)
        return self._local_trace

    def _yield(self, lineno):
        lt = self.cur()
        lt.at = lineno
        self.ctrl.release()
        lt.sem.acquire()

    def wait_point(self):
        """Plain yield (the thread stays enabled)."""
        self._yield(-1)

    def block_until(self, cond):
        """Blocking wait made visible to the controller: the calling thread is not enabled while cond() is false."""
        lt = self.cur()
        while not cond():
            lt.blocked_on = cond
            self._yield(-1)
        lt.blocked_on = None

    # -- controller
    def spawn(self, fn, name):
        lt = LThread(self, len(self.threads), fn, name)
        self.threads.append(lt)
        lt.thread.start()
        return lt

    spawn_runnable = spawn

    def _enabled(self):
        en = []
        run = self.running
        def ok(t):
            if t.done:
                return False
            b = t.blocked_on
            if b is not None and not b():
                return False
            return True
        if run is not None and ok(run):
            en.append(("T", run.tid))
        for t in self.threads:
            if t is not run and ok(t):
                en.append(("T", t.tid))
        if self.firings < self.max_firings:
            for tm in self.timers:
                if tm.armed and not tm.fired:
                    en.append(("F", tm.idx))
        return en

    def run(self, main_fn, after_main=None):
        """Runs one execution.  main_fn is the body of logical thread 0."""
        VTimer.sched = self
        VLock.sched = self
        VEvent.sched = self
        main = self.spawn(main_fn, "main")
        self.running = main
        nxt = main
        while True:
            # let nxt run until its next scheduling point or its end
            nxt.started = True
            self.running = nxt
            nxt.sem.release()
            self.ctrl.acquire()
            if len(self.points) >= self.max_points:
                self.capped = True
                break
            en = self._enabled()
            if not en:
                if any(not t.done for t in self.threads):
                    self.deadlock = True
                break
            run_enabled = bool(en) and self.running is not None and en[0] == ("T", self.running.tid) and not self.running.done
            i = len(self.points)
            if i < len(self.prefix):
                c = self.prefix[i]
                if c >= len(en):
                    raise ReplayDivergence(f"choice {c} at point {i} but only {len(en)} enabled")
            else:
                c = 0
            self.points.append({"n": len(en), "running_enabled": run_enabled, "enabled": en})
            self.choices.append(c)
            kind, ident = en[c]
            if kind == "F":
                tm = self.timers[ident]
                tm.fired = True
                tm.armed = False
                self.firings += 1
                self.log.append(("timer-fire", -1, ident))
                fn = (lambda tm=tm: tm.function(*tm.args, **tm.kwargs))
                nxt = self.spawn(fn, f"timer{ident}")
            else:
                nxt = self.threads[ident]
        # release everything that is still parked (capped / deadlocked executions): let them finish freely is not
        # safe; they are daemon threads parked on semaphores and are simply abandoned.
        return self

    def preemptions_before(self, i):
        n = 0
        for p, c in zip(self.points[:i], self.choices[:i]):
            if c != 0 and p["running_enabled"]:
                n += 1
        return n


def explore(make_execution, bound, check, prefix=(), max_executions=None, stats=None):
    """Recursive preemption-bounded exploration.  make_execution(prefix) -> Scheduler (after run);
    check(sched) -> list of violation tuples.  Returns list of (choices, violations)."""
    stats = stats if stats is not None else {"executions": 0, "points": 0, "capped": 0}
    found = []
    stack = [list(prefix)]
    while stack:
        pre = stack.pop()
        x = make_execution(pre)
        stats["executions"] += 1
        stats["points"] += len(x.points)
        stats["capped"] += bool(x.capped)
        v = check(x)
        if v:
            found.append((list(x.choices), v))
        if max_executions and stats["executions"] >= max_executions:
            stats["hit_execution_cap"] = True
            break
        cum = [0]
        for p, c in zip(x.points, x.choices):
            cum.append(cum[-1] + (1 if (c != 0 and p["running_enabled"]) else 0))
        for i in range(len(pre), len(x.points)):
            p = x.points[i]
            cost = cum[i]
            if p["running_enabled"]:
                cost += 1
            if cost > bound:
                continue
            for alt in range(1, p["n"]):
                stack.append(list(x.choices[:i]) + [alt])
    return found, stats


def children_of(x, pre_len, bound):
    """Alternative prefixes branching off execution x at points >= pre_len within the preemption bound.
    -> list of (cost, prefix)"""
    out = []
    cum = [0]
    for p, c in zip(x.points, x.choices):
        cum.append(cum[-1] + (1 if (c != 0 and p["running_enabled"]) else 0))
    for i in range(pre_len, len(x.points)):
        p = x.points[i]
        cost = cum[i] + (1 if p["running_enabled"] else 0)
        if cost > bound:
            continue
        for alt in range(1, p["n"]):
            out.append((cost, list(x.choices[:i]) + [alt]))
    return out


def split_frontier(make_execution, bound, check, target=64, max_parent_executions=400):
    """Expands the exploration tree in the calling process (cheapest-cost = largest sub-trees first) until at least
    `target` unexplored prefixes exist; returns (found, stats, prefixes).  Every returned prefix must then be explored
    with explore(..., prefix=p): each execution of the tree is run exactly once overall."""
    import heapq
    found, stats = [], {"executions": 0, "points": 0, "capped": 0}
    heap = [(0, 0, [])]
    seq = 1
    leaves = []
    while heap and stats["executions"] < max_parent_executions:
        if heap[0][0] >= bound and len(heap) >= target:
            break                       # only leaves of the preemption budget are left: they are the (balanced) jobs
        cost, _, pre = heapq.heappop(heap)
        x = make_execution(pre)
        stats["executions"] += 1
        stats["points"] += len(x.points)
        stats["capped"] += bool(x.capped)
        v = check(x)
        if v:
            found.append((list(x.choices), v))
        for c, child in children_of(x, len(pre), bound):
            heapq.heappush(heap, (c, seq, child))
            seq += 1
    prefixes = [p for (_, _, p) in heap]
    return found, stats, prefixes
