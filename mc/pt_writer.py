"""Writer child process for C17 (run as a script with PYTHONPATH set by the parent).
usage: pt_writer.py <export|export8|export_over|export_direct|pttempo> <file>     env: DIE_AT=<k>|before_close|none, DIE_MODE=exception|exit|hard
The library code is unmodified; dying is implemented by rebinding the module-level helper
oqupy.process_tensor._set_data_and_shape (k-th call raises / exits) or FileProcessTensor.close from outside."""
import os
import sys

sys.path.insert(0, os.path.dirname(os.path.dirname(os.path.abspath(__file__))))
import numpy as np  # noqa
from mc.common import bind_repo  # noqa
oq = bind_repo()
import oqupy.process_tensor as ptm  # noqa

mode, fname = sys.argv[1], sys.argv[2]
die_at = os.environ.get("DIE_AT", "none")
die_mode = os.environ.get("DIE_MODE", "exception")


def die(where):
    if die_mode == "hard":
        os._exit(9)
    if die_mode == "exit":
        sys.exit(3)
    raise RuntimeError("injected death " + where)


calls = {"n": 0}
orig_set = ptm._set_data_and_shape


def patched(step, data, shape, tensor):
    if die_at not in ("none", "before_close") and calls["n"] == int(die_at):
        die(f"at file operation {calls['n']}")
    calls["n"] += 1
    return orig_set(step, data, shape, tensor)


ptm._set_data_and_shape = patched
orig_close = ptm.FileProcessTensor.close


def patched_close(self):
    if die_at == "before_close":
        die("before close")
    return orig_close(self)


ptm.FileProcessTensor.close = patched_close


def build_export_pt(n=4, dt=0.2):
    from mc import ancilla as A, refmodel as R
    from props import models as M
    d, e = 2, 2
    sigma = np.diag([0.7, 0.3]).astype(complex)
    ks = [[R.random_free_unitary(d * e, 80 + k)] for k in range(n)]
    return A.build_pt(d, e, sigma, ks, dt=dt, basis_v=M.generic_unitary(2, 4), name="c17", description="export")


if mode == "export":
    build_export_pt().export(fname)
elif mode == "export_nodt":
    # a process tensor without a time step (dt=None), as hand-built PT-MPOs may be
    build_export_pt(dt=None).export(fname)
elif mode == "export8":
    build_export_pt(8).export(fname)
elif mode == "export_over":
    # the target already holds a complete (older) process tensor; it is replaced
    build_export_pt().export(fname, overwrite=True)
elif mode == "export_direct":
    # user code that fills a FileProcessTensor opened in write mode itself, (re)naming it while the file is being written
    src = build_export_pt()
    f = ptm.FileProcessTensor(mode="write", filename=fname, hilbert_space_dimension=2, dt=0.2,
                              transform_in=src.transform_in, transform_out=src.transform_out, name="c17", description="direct")
    f.name = "renamed before the first tensor"
    for k in range(len(src)):
        f.set_mpo_tensor(k, src.get_mpo_tensor(k, transformed=False))
        if k == 1:
            f.description = "described while the MPO tensors are written"
    for k in range(len(src) + 1):
        f.set_cap_tensor(k, src.get_cap_tensor(k))
        if k == 2:
            f.name = "renamed while the caps are written"
    f.close()
elif mode == "pttempo":
    from props import models as M
    bath = oq.Bath(0.5 * M.SX, M.ohmic(alpha=0.3, temperature=0.3))
    pt = oq.PtTempo(bath, 0.0, 0.9, oq.TempoParameters(dt=0.2, epsrel=1e-7), process_tensor_file=fname,
                    name="c17", description="pttempo").get_process_tensor(progress_type="silent")
    pt.close()
print("WRITER-DONE calls", calls["n"])
