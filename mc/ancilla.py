"""Hand-built exact process tensors of finite ancilla environments, as oqupy objects."""
import numpy as np

from .common import bind_repo
from . import refmodel as R

oq = bind_repo()


def build_pt(d, e, sigma, kraus_per_step, dt=None, rank3_us=None, basis_v=None, caps="explicit",
             name=None, description=None, cls=None, cap_op=None, scribble=False, basis_g=None):
    """kraus_per_step[k]: Kraus list on system (x) ancilla of step k (physical basis).
    rank3_us[k]: list of d unitaries U_t (controlled unitary in the *internal* basis) -> rank-3 tensors.
    basis_v: unitary V on the system; the PT is stored in the internal basis (rho_int = V^dag rho V) with
             transform_in/out, the physical maps being (V x 1) K_int (V^dag x 1).
    caps: 'explicit' -> set_cap_tensor for all steps; 'computed' -> last future bond closed with the trace
          vector and pt.compute_caps().
    basis_g: invertible d^2 x d^2 matrix G (NOT a unitary conjugation in general): the process tensor is stored in the
          operator basis vec_int = G^-1 vec with transform_in = (G^-1)^T, transform_out = G^T; the physical maps stay
          those of kraus_per_step / rank3_us (so a general G makes the stored tensors rank 4).  Excludes basis_v.
    scribble: hand every tensor over in a work buffer that is re-used for the next step of the same shape, and overwrite
          all buffers with garbage once the process tensor is built (a caller that keeps no reference to its arrays)."""
    n = len(kraus_per_step) if kraus_per_step is not None else len(rank3_us)
    t_in = t_out = None
    if basis_v is not None:
        s_v = R.conj_super(basis_v)          # vec(V rho V^dag)
        # internal vector = T_in^T vec  =>  T_in^T = S_V^dagger ; T_out^T = S_V
        t_in = s_v.conj()
        t_out = s_v.T
    g_mat = g_inv = None
    if basis_g is not None:
        assert basis_v is None
        g_mat = np.asarray(basis_g, dtype=complex)
        g_inv = np.linalg.inv(g_mat)
        t_in = g_inv.T.copy()
        t_out = g_mat.T.copy()
    from oqupy.process_tensor import SimpleProcessTensor
    cls = cls or SimpleProcessTensor
    pt = cls(hilbert_space_dimension=d, dt=dt, transform_in=t_in, transform_out=t_out,
             name=name, description=description)
    sig = np.asarray(sigma, dtype=complex).reshape(e * e)
    bufs = {}
    cap = R.cap_vec(e)
    if cap_op is not None:
        # user-defined read-out of the environment instead of the trace (caps are then NOT what compute_caps() gives)
        cap = np.asarray(cap_op, dtype=complex).T.reshape(e * e)
    for k in range(n):
        if rank3_us is not None:
            m = R.mpo3_from_controlled(rank3_us[k], e)
        else:
            m = R.mpo_from_kraus(kraus_per_step[k], d, e)
        if g_mat is not None:
            if m.ndim == 3:      # delta-expand, the transformed tensor is no longer diagonal in the system legs
                full = np.zeros(m.shape + (m.shape[2],), dtype=complex)
                for i in range(m.shape[2]):
                    full[:, :, i, i] = m[:, :, i]
                m = full
            # M_int[a,b,i,o] = sum_{in,out} G[in,i] M_phys[a,b,in,out] G^-1[o,out]
            m = np.einsum("pi,abpq,oq->abio", g_mat, m, g_inv)
        if k == 0:
            m = np.tensordot(sig, m, axes=([0], [0]))[None]
        if caps == "computed" and k == n - 1:
            m = np.moveaxis(np.tensordot(m, cap, axes=([1], [0]))[:, None], 1, 1)
            m = m.reshape((m.shape[0], 1) + m.shape[2:])
        if scribble:
            buf = bufs.setdefault(m.shape, np.empty(m.shape, dtype=complex))
            buf[...] = m
            m = buf
        pt.set_mpo_tensor(k, m)
    if scribble and caps == "explicit":
        cap = np.array(cap, dtype=complex)
        bufs["cap"] = cap
    if caps == "explicit":
        pt.set_cap_tensor(0, np.array([1.0], dtype=complex))
        for k in range(1, n + 1):
            pt.set_cap_tensor(k, cap)
    else:
        pt.compute_caps()
    for b in bufs.values():
        b[...] = 7.0 - 3.0j
    return pt


def physical_kraus(kraus_int, basis_v, e):
    if basis_v is None:
        return kraus_int
    big = np.kron(basis_v, np.eye(e))
    return [big @ k @ big.conj().T for k in kraus_int]
