"""Reader for C17: pt_reader.py <export|pttempo> <file> -> one JSON line with the verdict."""
import json
import os
import sys
import warnings

sys.path.insert(0, os.path.dirname(os.path.dirname(os.path.abspath(__file__))))
import numpy as np  # noqa
from mc.common import bind_repo  # noqa
oq = bind_repo()


_REFC = {}


def reference(mode):
    if mode not in _REFC:
        _REFC[mode] = _reference(mode)
    return _REFC[mode]


def _reference(mode):
    from props import models as M
    if mode in ("export", "export8", "export_over", "export_direct", "export_nodt"):
        import importlib.util
        spec = importlib.util.spec_from_file_location("w", os.path.join(os.path.dirname(__file__), "pt_writer.py"))
        src = open(spec.origin).read()
        ns = {}
        start = src.index("def build_export_pt")
        end = src.index('if mode == "export"')
        exec("import numpy as np\n" + src[start:end], ns)
        pt = ns["build_export_pt"](8 if mode == "export8" else 4, None if mode == "export_nodt" else 0.2)
    else:
        bath = oq.Bath(0.5 * M.SX, M.ohmic(alpha=0.3, temperature=0.3))
        pt = oq.pt_tempo_compute(bath, 0.0, 0.9, oq.TempoParameters(dt=0.2, epsrel=1e-7), progress_type="silent")
    sysm = oq.System(0.5 * M.SZ + 0.3 * M.SX)
    dyn = np.array(oq.compute_dynamics(sysm, M.RHO_GEN2, process_tensor=pt, progress_type="silent",
                                       **({} if pt.dt is not None else {"dt": 0.2})).states)
    return pt, sysm, dyn


def examine(mode, fname):
    from props import models as M
    out = {}
    for typ in ("file", "simple", "class"):
        with warnings.catch_warnings(record=True) as wl:
            warnings.simplefilter("always")
            try:
                if typ == "class":       # the public class itself, without the import function
                    from oqupy.process_tensor import FileProcessTensor
                    pt = FileProcessTensor(mode="read", filename=fname)
                else:
                    pt = oq.import_process_tensor(fname, typ)
            except BaseException as ex:  # noqa
                out[typ] = {"verdict": "raises", "exc": type(ex).__name__}
                continue
        warned = any("corrupt" in str(w.message) for w in wl)
        info = {"warned": warned}
        try:
            ref, sysm, rdyn = reference(mode)
            n = len(pt)
            info["len"] = n
            ncaps = 0
            while pt.get_cap_tensor(ncaps) is not None:
                ncaps += 1
            info["caps"] = ncaps
            complete = (n == len(ref) and ncaps == len(ref) + 1)
            if complete:
                if mode.startswith("export"):
                    for k in range(n):
                        if not np.array_equal(pt.get_mpo_tensor(k), ref.get_mpo_tensor(k)):
                            complete = False
                    for k in range(n + 1):
                        if not np.array_equal(pt.get_cap_tensor(k), ref.get_cap_tensor(k)):
                            complete = False
                try:
                    dyn = np.array(oq.compute_dynamics(sysm, M.RHO_GEN2, process_tensor=pt, progress_type="silent",
                                                       **({} if pt.dt is not None else {"dt": 0.2})).states)
                    if dyn.shape != rdyn.shape or np.abs(dyn - rdyn).max() > 1e-6:
                        complete = False
                        info["dyn"] = "differs"
                except Exception as ex:  # noqa
                    complete = False
                    info["dyn"] = "raises:" + type(ex).__name__
            else:
                # does it silently compute with what is there?
                try:
                    dyn = oq.compute_dynamics(sysm, M.RHO_GEN2, process_tensor=pt, progress_type="silent",
                                              **({} if pt.dt is not None else {"dt": 0.2}))
                    info["dyn"] = f"computes {len(dyn.times) - 1} steps"
                except Exception as ex:  # noqa
                    info["dyn"] = "raises:" + type(ex).__name__
            info["complete"] = complete
        except BaseException as ex:  # noqa
            info["complete"] = False
            info["examine_exc"] = type(ex).__name__ + ": " + str(ex)[:80]
        finally:
            try:
                if typ in ("file", "class"):
                    pt._f.close()
            except Exception:  # noqa
                pass
        info["verdict"] = "warns" if warned else ("silent-complete" if info["complete"] else "silent-INCOMPLETE")
        out[typ] = info
    return out


if __name__ == "__main__":
    for f in sys.argv[2:]:
        print("READER " + json.dumps({"file": f, "res": examine(sys.argv[1], f)}), flush=True)
